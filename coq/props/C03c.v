(** C03 (composite gates) - inverse() really inverts and keeps the particles, for all
    nestings of composite gates.  Property theorems only; [Run.GenGatesComp] is regenerated
    from the source on every run: which gate each composite inverse() constructs, with which
    arguments, and which bound-particle lists it hands on (a list that is not handed on
    shows up as [] and breaks the bridge below). *)
From Qib Require Import Gates.CompProofs Base.Inst.
From Run Require Import GenGatesComp.

Section C03c.
  Context {K : Scalar} {L : ScalarLaws K}.
  Local Open Scope K_scope.
  Add Ring KringC03c : (s_ring K L).

  (** ---- bridge: the model's clauses are the generated expressions ---------------------- *)
  Lemma gen_ctrl_step_model a b c d : gen_ctrl_step a b c d = ctrl_step a b c d.
  Proof.
    unfold gen_ctrl_step, ctrl_step.
    first [ reflexivity
          | destruct (Z.eqb b 1); [|reflexivity]; f_equal; f_equal; lia ].
  Qed.

  (** ControlledGate.as_matrix as the code computes it *)
  Definition code_ctrl_index (pat : list bool) : nat :=
    Z.to_nat (ctrl_loop gen_ctrl_step gen_ctrl_init (length pat) pat).
  Definition code_ctrl_mat (pat : list bool) (U : BMx K) : BMx K :=
    gen_ctrl_mat (length pat) (onehot (code_ctrl_index pat)) U.

  Lemma code_ctrl_index_model pat : code_ctrl_index pat = ctrl_index pat.
  Proof.
    unfold code_ctrl_index, ctrl_index.
    replace (ctrl_loop gen_ctrl_step gen_ctrl_init (length pat) pat)
      with (ctrl_loop ctrl_step 0%Z (length pat) pat); [reflexivity|].
    symmetry. change gen_ctrl_init with 0%Z. apply ctrl_loop_ext. exact gen_ctrl_step_model.
  Qed.

  Lemma code_ctrl_mat_model pat (U : BMx K) r c : code_ctrl_mat pat U r c = ctrl_mat pat U r c.
  Proof.
    unfold code_ctrl_mat, ctrl_mat, ctrl_mat_at, gen_ctrl_mat. rewrite code_ctrl_index_model.
    first [ reflexivity | unfold madd, kron, mdiag, vcompl, onehot, mid; ring ].
  Qed.

  Lemma gen_mux_mat_model nc (ms : list (BMx K)) r c : gen_mux_mat nc ms r c = block_diag nc ms r c.
  Proof. reflexivity. Qed.

  Lemma gen_benc_mat_model m (H Sq : BMx K) r c : gen_benc_mat m H Sq r c = benc_mat m H Sq r c.
  Proof.
    destruct m; unfold gen_benc_mat, benc_mat;
      first [ reflexivity
            | destruct r as [|rb r], c as [|cb c]; cbn [block2]; try reflexivity;
              destruct rb, cb; unfold mscal, mopp; ring ].
  Qed.

  Lemma gen_tevo_arg_model t (H : BMx K) r c : gen_tevo_arg t H r c = tevo_arg t H r c.
  Proof. unfold gen_tevo_arg, tevo_arg, mscal. first [ reflexivity | ring ]. Qed.

  Lemma gen_qucc_arg_model (T : BMx K) r c : gen_qucc_arg T r c = qucc_arg T r c.
  Proof. unfold gen_qucc_arg, qucc_arg, msub, madj. first [ reflexivity | ring ]. Qed.

  Lemma gen_prep_mat_model (Q0 : BMx K) flip tr r c : gen_prep_mat Q0 flip tr r c = prep_mat Q0 flip tr r c.
  Proof. unfold gen_prep_mat, prep_mat. destruct flip, tr; reflexivity. Qed.

  Lemma meq_of_pointwise n (A B : BMx K) : (forall r c, A r c = B r c) -> meq n A B.
  Proof. intros H r c _ _. apply H. Qed.

  (** inverse() as the code constructs it *)
  Fixpoint code_inverse (g : cgate K) : cgate K :=
    match g with
    | Leaf nw U Ui h ps => Leaf nw Ui U h ps
    | Ctrl pat cq g' => Ctrl pat (gen_ctrl_inv_controls cq) (code_inverse g')
    | Mux nc cq gs => Mux nc (gen_mux_inv_controls cq) (gen_mux_inv_targets code_inverse gs)
    | BEnc m n H Sq aux hp => BEnc (gen_benc_inv_method m) n H Sq (gen_benc_inv_aux m aux) hp
    | TEvo n H t E Ei hp => TEvo n H (gen_tevo_inv_t t) Ei E hp
    | Prep n Q0 flip tr qs => Prep n Q0 flip (gen_prep_inv_transpose tr) (gen_prep_inv_qubits qs)
    | Gen n M h ps => Gen n (gen_general_inv_mat M) h (gen_general_inv_particles ps)
    end.

  Lemma code_inverse_model : forall g, code_inverse g = inverse g.
  Proof.
    induction g using cgate_ind'; cbn [code_inverse inverse].
    - reflexivity.
    - rewrite IHg. reflexivity.
    - unfold gen_mux_inv_controls, gen_mux_inv_targets. f_equal.
      induction H as [|x l Hx HF IH]; [reflexivity|]. cbn [map]. rewrite Hx, IH. reflexivity.
    - destruct m; reflexivity.
    - reflexivity.
    - reflexivity.
    - reflexivity.
  Qed.
End C03c.

(** 0. inverse() of every composite class constructs what the model says, bound particles
       included (fails to compile when e.g. GeneralGate.inverse() drops its particles) *)
Theorem C03c_inverse_forms_are_code :
  forall (K : Scalar) (g : cgate K), code_inverse g = inverse g.
Proof. intros. apply code_inverse_model. Qed.
Print Assumptions C03c_inverse_forms_are_code.

(** 1. MAIN: for gate trees of any depth, the matrix of inverse() is the adjoint of the
       gate's matrix and inverts it on both sides.  is_expm n A E reads
       "E = scipy.linalg.expm(A)"; the two hypotheses about it are background mathematics. *)
Theorem C03c_inverse_inverts_any_depth :
  forall (K : Scalar) (L : ScalarLaws K) (is_expm : nat -> BMx K -> BMx K -> Prop),
    (forall n A E, is_expm n A E -> antiherm n A -> unitary n E) ->
    (forall n A E A' E', is_expm n A E -> is_expm n A' E' -> meq n A' (madj A) -> meq n E' (madj E)) ->
    forall g : cgate K, wf is_expm g ->
      let n := num_wires g in
      meq n (matrix (code_inverse g)) (madj (matrix g))
      /\ meq n (mmul n (matrix (code_inverse g)) (matrix g)) mid
      /\ meq n (mmul n (matrix g) (matrix (code_inverse g))) mid.
Proof.
  intros K L is_expm H1 H2 g W n. rewrite code_inverse_model. split.
  - apply (inverse_adjoint is_expm H2 g W).
  - apply (inverse_inverts is_expm H1 H2 g W).
Qed.
Print Assumptions C03c_inverse_inverts_any_depth.

(** 2. the inverse acts on the same particles in the same roles, has the same number of wires
       and the same Hermiticity answer, and is again a well-formed gate (so it can be nested
       and inverted again) *)
Theorem C03c_inverse_keeps_particles_and_wires :
  forall (K : Scalar) (L : ScalarLaws K) (is_expm : nat -> BMx K -> BMx K -> Prop) (g : cgate K),
    particles (code_inverse g) = particles g
    /\ num_wires (code_inverse g) = num_wires g
    /\ is_herm (code_inverse g) = is_herm g
    /\ (wf is_expm g -> wf is_expm (code_inverse g)).
Proof.
  intros K L is_expm g. rewrite code_inverse_model.
  split; [apply inverse_particles|]. split; [apply inverse_num_wires|].
  split; [apply inverse_is_herm|]. apply inverse_wf.
Qed.
Print Assumptions C03c_inverse_keeps_particles_and_wires.

(** 3. the individual forms on the generated expressions: ctrl pat (U^-1) inverts ctrl pat U *)
Theorem C03c_controlled_inverse :
  forall (K : Scalar) (L : ScalarLaws K) pat nt (U Ui : BMx K),
    unitary nt U -> meq nt Ui (madj U) ->
    meq (length pat + nt) (mmul (length pat + nt) (code_ctrl_mat pat Ui) (code_ctrl_mat pat U)) mid.
Proof.
  intros K L pat nt U Ui HU E.
  eapply meq_trans.
  { apply mmul_meq; apply meq_of_pointwise; intros; apply code_ctrl_mat_model. }
  apply inverse_of_adj; [apply ctrl_mat_unitary; exact HU|].
  eapply meq_trans; [apply ctrl_mat_meq; exact E|]. apply ctrl_mat_madj.
Qed.
Print Assumptions C03c_controlled_inverse.

(** multiplexer: inverting target by target (same order) inverts the multiplexer *)
Theorem C03c_multiplexed_inverse :
  forall (K : Scalar) (L : ScalarLaws K) nc nt (ms msi : list (BMx K)),
    length ms = 2 ^ nc -> Forall (unitary nt) ms ->
    Forall2 (fun A A' => meq nt A' (madj A)) ms msi ->
    meq (nc + nt) (mmul (nc + nt) (gen_mux_mat nc msi) (gen_mux_mat nc ms)) mid.
Proof.
  intros K L nc nt ms msi Hl HU HF.
  apply inverse_of_adj; [apply block_diag_unitary; assumption|].
  apply block_diag_madj; assumption.
Qed.
Print Assumptions C03c_multiplexed_inverse.

(** block encoding, per method: the method inverse() selects gives the adjoint layout *)
Theorem C03c_block_encoding_inverse :
  forall (K : Scalar) (L : ScalarLaws K) m n (H Sq : BMx K),
    hermitian n H -> hermitian n Sq ->
    meq (Datatypes.S n) (gen_benc_mat (gen_benc_inv_method m) H Sq) (madj (gen_benc_mat m H Sq)).
Proof.
  intros K L m n H Sq HH HS.
  eapply meq_trans; [apply meq_of_pointwise; intros; apply gen_benc_mat_model|].
  eapply meq_trans; [|apply madj_meq; apply meq_of_pointwise; intros; symmetry; apply gen_benc_mat_model].
  replace (gen_benc_inv_method m) with (benc_inv_method m) by (destruct m; reflexivity).
  apply benc_mat_inverse; assumption.
Qed.
Print Assumptions C03c_block_encoding_inverse.

(** time evolution: the argument for the inverse time is the adjoint argument *)
Theorem C03c_time_evolution_inverse_argument :
  forall (K : Scalar) (L : ScalarLaws K) n t (H : BMx K),
    hermitian n H -> sconj t = t ->
    meq n (gen_tevo_arg (gen_tevo_inv_t t) H) (madj (gen_tevo_arg t H)).
Proof.
  intros K L n t H HH Ht r c Hr Hc. unfold madj. rewrite !gen_tevo_arg_model.
  apply (tevo_arg_neg n t H HH Ht r c Hr Hc).
Qed.
Print Assumptions C03c_time_evolution_inverse_argument.

(** preparation gate: the flag handed to the inverse gives the adjoint; general gate: adjoint *)
Theorem C03c_prepare_and_general_inverse :
  forall (K : Scalar) (L : ScalarLaws K) n (Q0 M : BMx K) flip tr,
    (real_orth n Q0 ->
     meq n (gen_prep_mat Q0 flip (gen_prep_inv_transpose tr)) (madj (gen_prep_mat Q0 flip tr)))
    /\ (forall r c, gen_general_inv_mat M r c = madj M r c)
    /\ (forall ps, gen_general_inv_particles ps = ps).
Proof.
  intros K L n Q0 M flip tr. split; [|split; reflexivity].
  intros HQ.
  eapply meq_trans; [apply meq_of_pointwise; intros; apply gen_prep_mat_model|].
  eapply meq_trans; [|apply madj_meq; apply meq_of_pointwise; intros; symmetry; apply gen_prep_mat_model].
  apply prep_mat_inverse. exact HQ.
Qed.
Print Assumptions C03c_prepare_and_general_inverse.

(** non-vacuity: a nested tree with bound particles over the Gaussian integers *)
Example C03c_instance :
  let X := mxl (K:=ZI) [[(0,0);(1,0)];[(1,0);(0,0)]]%Z in
  let S := mxl (K:=ZI) [[(1,0);(0,0)];[(0,0);(0,1)]]%Z in
  let Sd := mxl (K:=ZI) [[(1,0);(0,0)];[(0,0);(0,-1)]]%Z in
  let g := Ctrl [false; true] [7; 3]%nat
             (Mux 1 [5]%nat [Leaf 1 S Sd false [2]%nat; Gen 1 X true [2]%nat]) in
  particles (code_inverse g) = [7; 3; 5; 2]%nat /\
  dense 4 (mmul 4 (matrix (code_inverse g)) (matrix g)) = dense 4 (mid (K:=ZI)) /\
  dense 4 (matrix g) <> dense 4 (mid (K:=ZI)).
Proof. vm_compute. repeat split. discriminate. Qed.
