(** C07 - network contraction is independent of strategy and equals the defining sum.
    Property theorems only (proofs: Qib.TN.TNSum, TNEinsum, TNEinsumSpec, TNTreeCheck).
    The model (Qib.TN.TNValue, TNTree) is a hand port of as_einsum / contract_einsum /
    to_full_tensor / _build_contraction_tree / contract_tree / permute_axes /
    perform_tree_contraction, with numpy.einsum modelled by its defining sum [einsum_sem];
    it is tied to /repo by the exact correspondence run of checks/C07.py on every run. *)
From Qib Require Import TN.TNEinsumSpec Base.Inst.

(** (a) single-shot contraction.  For every network satisfying the incidence invariant, every
    commutative ring of scalars and all tensor data: if contract_einsum (through the functional
    form of as_einsum) returns (tensor, axes_map), its expansion by to_full_tensor has the
    logical shape the network reports and equals the defining sum
        T[x] = sum over all bond indices of  prod_t data_t[indices of t's bonds] * prod_k [x_k = index of open axis k's bond].
    Hyper-bonds, multi-edges, self-traces, shared open bonds and identity wires are all covered
    (no hypothesis on the topology). *)
Theorem C07_einsum_is_defining_sum_partial :
  forall (K : Scalar) (L : ScalarLaws K) (n : net) (data : Z -> list nat -> K) E v am,
    WF n -> as_einsum_spec n = Some E -> contract_with E n data = Some (v, am) ->
    exists shp, shape n = Some shp /\ am = e_amap E /\
      fst (to_full_tensor v am) = shp /\
      forall x, in_range shp x -> snd (to_full_tensor v am) x = defining_sum n data x.
Proof. intros K L n data E v am W HE HC. exact (as_einsum_spec_correct n data W E v am HE HC). Qed.
Print Assumptions C07_einsum_is_defining_sum_partial.
(* Full statement: the same with [as_einsum n] (the literal port of the unification +
   condensation loops) in place of [as_einsum_spec n].  Missing: the universal lemma
   WF n -> as_einsum n = as_einsum_spec n; it is evaluated by vm_compute on every network of
   the correspondence run (TNCheck.check, case CEin). *)

(** the labelling theorem behind it: any injective labelling of the bonds will do *)
Theorem C07_any_injective_labelling :
  forall (K : Scalar) (L : ScalarLaws K) (n : net) (data : Z -> list nat -> K) (lab : Z -> nat) ts vt E v am,
    WF n ->
    (forall b b', In b (dkeys (bonds n)) -> In b' (dkeys (bonds n)) -> lab b = lab b' -> b = b') ->
    Permutation.Permutation ts (real_tensors n) -> dget VT (tensors n) = Some vt ->
    omap (fun tid => dget tid (tensors n)) (e_tids E) = Some ts ->
    e_tidx E = map (fun t => map lab (t_bids t)) ts ->
    e_out E = first_occ (map lab (t_bids vt)) [] ->
    omap (fun i => nindex i (e_out E)) (map lab (t_bids vt)) = Some (e_amap E) ->
    contract_with E n data = Some (v, am) ->
    am = e_amap E /\ fst (to_full_tensor v am) = t_shape vt /\
    forall x, in_range (t_shape vt) x -> snd (to_full_tensor v am) x = defining_sum n data x.
Proof.
  intros K L n data lab ts vt E v am W LI P Hvt H1 H2 H3 H4 HC.
  exact (contract_with_correct n data W lab LI ts vt E P Hvt H1 H2 H3 H4 v am HC).
Qed.
Print Assumptions C07_any_injective_labelling.

(** the hypotheses are satisfiable: hyper-bond with three legs + two open axes on one bond + a
    self-trace + an identity wire; the model contracts it and the expansion is the defining sum
    (here evaluated on Gaussian-integer data) *)
Definition ex_net : net :=
  mkN [(2%Z, mkT 2%Z [2; 2; 3; 3]%nat [4; 4; 7; 7]%Z 0%Z); ((-1)%Z, mkT (-1)%Z [2; 2; 2; 2]%nat [4; 9; 4; 9]%Z (-1)%Z);
       (5%Z, mkT 5%Z [2]%nat [4]%Z 1%Z)]
      [(4, mkB 4 [-1; -1; 2; 2; 5]); (7, mkB 7 [2; 2]); (9, mkB 9 [-1; -1])]%Z.
Example C07_example :
  wf_b ex_net = true /\
  exists E v, as_einsum_spec ex_net = Some E /\ as_einsum ex_net = Some E /\
    contract_with (K:=ZI) E ex_net (fun r idx => (Z.of_nat (1 + length idx + 2 * nth 0 idx O), 1%Z)) = Some (v, e_amap E) /\
    e_amap E = [0; 1; 0; 1]%nat.
Proof. split; [vm_compute; reflexivity|]. eexists. eexists. vm_compute. repeat split. Qed.
