(** C07 - network contraction is independent of strategy and equals the defining sum.
    Property theorems only (proofs: Qib.TN.TNSum, TNEinsum, TNEinsumSpec, TNTreeCheck; tree builder:
    TNBuilderLoops, TNBuilder, TNBuilderRoot, TNRootPermute; permute_axes: TNPermute).
    The model (Qib.TN.TNValue, TNTree) is a hand port of as_einsum / contract_einsum /
    to_full_tensor / _build_contraction_tree / contract_tree / permute_axes /
    perform_tree_contraction, with numpy.einsum modelled by its defining sum [einsum_sem];
    it is tied to /repo by the exact correspondence run of checks/C07.py on every run. *)
From Qib Require Import TN.TNTreeCheck TN.TNConsistentConv TN.TNGenBase TN.TNRootPermute TN.TNLoops Base.Inst.
From Run Require Import GenTN GenTNLoops.

(** (a) single-shot contraction.  For every network satisfying the incidence invariant, every
    commutative ring of scalars and all tensor data: what contract_einsum (the literal port:
    consecutive indices, per-bond unification to the minimum, condensation, ones-vectors)
    returns expands (to_full_tensor) to a tensor with the logical shape the network reports,
    equal to the defining sum
        T[x] = sum over all bond indices of  prod_t data_t[indices of t's bonds] * prod_k [x_k = index of open axis k's bond].
    Hyper-bonds, multi-edges, self-traces, shared open bonds and identity wires are all covered
    (no hypothesis on the topology). *)
Theorem C07_einsum_is_defining_sum :
  forall (K : Scalar) (L : ScalarLaws K) (n : net) (data : Z -> list nat -> K) v am,
    WF n -> contract_einsum n data = Some (v, am) ->
    exists shp, shape n = Some shp /\ fst (to_full_tensor v am) = shp /\
      forall x, in_range shp x -> snd (to_full_tensor v am) x = defining_sum n data x.
Proof. intros K L n data v am W H. exact (contract_einsum_correct n data v am W H). Qed.
Print Assumptions C07_einsum_is_defining_sum.

(** "every consistent tensor network" = every network the library's own check accepts:
    is_consistent n = true implies the invariant WF (TN.TNConsistentConv.is_consistent_WF; [Rep]:
    dict keys are unique and len(shape) = len(bids), which no Python object of these classes
    can violate), so (a) holds from is_consistent() == True. *)
Theorem C07_einsum_is_defining_sum_from_is_consistent :
  forall (K : Scalar) (L : ScalarLaws K) (n : net) (data : Z -> list nat -> K) v am,
    Rep n -> is_consistent n = true -> contract_einsum n data = Some (v, am) ->
    exists shp, shape n = Some shp /\ fst (to_full_tensor v am) = shp /\
      forall x, in_range shp x -> snd (to_full_tensor v am) x = defining_sum n data x.
Proof.
  intros K L n data v am R C H. exact (contract_einsum_correct n data v am (is_consistent_WF n R C) H).
Qed.
Print Assumptions C07_einsum_is_defining_sum_from_is_consistent.

(** ... and it does return: numpy.einsum needs one operand, i.e. a tensor or an open axis
    (the network without tensors and open axes is the KNOWN-FINDING of this property) *)
Theorem C07_einsum_answers :
  forall (K : Scalar) (L : ScalarLaws K) (n : net) (data : Z -> list nat -> K),
    WF n -> real_tensors n <> [] \/ vbids n <> [] -> exists v am, contract_einsum n data = Some (v, am).
Proof. intros K L n data W NE. exact (contract_einsum_total n data W NE). Qed.
Print Assumptions C07_einsum_answers.

(** the port of the index bookkeeping computes the functional form: every leg is labelled by
    the rank of its bond in the order of first occurrence (tensors sorted by id, virtual last) *)
Theorem C07_as_einsum_functional_form : forall n, WF n -> as_einsum n = as_einsum_spec n.
Proof. exact as_einsum_is_spec. Qed.
Print Assumptions C07_as_einsum_functional_form.

(** the labelling theorem behind it: any injective labelling of the bonds will do *)
Theorem C07_any_injective_labelling :
  forall (K : Scalar) (L : ScalarLaws K) (n : net) (data : Z -> list nat -> K) (lab : Z -> nat) ts vt E v am,
    WF n ->
    (forall b b', In b (dkeys (bonds n)) -> In b' (dkeys (bonds n)) -> lab b = lab b' -> b = b') ->
    Permutation.Permutation ts (real_tensors n) -> dget VT (tensors n) = Some vt ->
    omap (fun tid => dget tid (tensors n)) (e_tids E) = Some ts ->
    e_tidx E = map (fun t => map lab (t_bids t)) ts ->
    e_out E = first_occ (map lab (t_bids vt)) [] ->
    omap (fun i => nindex i (e_out E)) (map lab (t_bids vt)) = Some (e_amap E) ->
    contract_with E n data = Some (v, am) ->
    am = e_amap E /\ fst (to_full_tensor v am) = t_shape vt /\
    forall x, in_range (t_shape vt) x -> snd (to_full_tensor v am) x = defining_sum n data x.
Proof.
  intros K L n data lab ts vt E v am W LI P Hvt H1 H2 H3 H4 HC.
  exact (contract_with_correct n data W lab LI ts vt E P Hvt H1 H2 H3 H4 v am HC).
Qed.
Print Assumptions C07_any_injective_labelling.

(** (b) tree contraction.  FULL (C07_builder_tree_is_defining_sum below): for every network with the
    incidence invariant and EVERY admissible scaffold - any binary bracketing of exactly the real
    tensors - what contract_tree returns expands to the defining sum with the logical shape; and
    it does return (C07_tree_contraction_answers) unless an open axis sits on a bond without a
    real tensor (the code's explicit refusal 'cannot track open axis') or the scaffold is a single
    tensor with two legs on one bond (self-trace assertion / two legs on one open bond: the
    recorded known findings).  Hyper-bonds, multi-edges with partial contraction, shared open
    bonds are all covered.  Proof: TNBuilder establishes an invariant of subtrees (BI: the node
    passes the verified checker, open legs/positions/closed bonds bookkeeping) for leaves and
    through the three loops of _build_contraction_tree; TNBuilderRoot shows that the root with
    contract_tree's axes map passes check_root; TNPermute moves the result through the root
    permutation.
    First the VERIFIED CHECKER it rests on (and which is still executed in Coq on every tree the
    implementation builds in the correspondence run - translation validation of the PORT): for
    every network, every tree (with its index lists idxL/idxR/idxout, openaxes, trackaxes per
    node) and every axes map: if the decidable check [check_root] accepts, the nested binary
    einsums of the tree, expanded by the axes map, have the logical shape of the network and
    equal the defining sum.
    [tree_eval] is perform_tree_contraction on the tensor dictionary contract_tree hands over: the
    entry of a leaf is the stored tensor laid out as the leaf's idxout says - range(ndim) for every
    leaf as built; a single-leaf ROOT is permuted by contract_tree and its entry transposed by the
    same permutation (repair proposed_fixes/C07-single-leaf-root-transpose.diff; before it the
    permutation was applied to the index lists only).  The checker accepts a leaf whose idxout is a
    permutation of its legs with trackaxes the inverse permutation. *)
Theorem C07_checked_tree_is_defining_sum :
  forall (K : Scalar) (L : ScalarLaws K) (n : net) (data : Z -> list nat -> K) t amap v,
    WF n -> check_root n t amap = true -> tree_eval n data t = Some v ->
    exists shp, shape n = Some shp /\ fst (to_full_tensor v amap) = shp /\
      forall x, in_range shp x -> snd (to_full_tensor v amap) x = defining_sum n data x.
Proof. intros K L n data t amap v W C E. exact (check_root_sound n data W t amap v C E). Qed.
Print Assumptions C07_checked_tree_is_defining_sum.

Theorem C07_contract_tree_checked :
  forall (K : Scalar) (L : ScalarLaws K) (n : net) (data : Z -> list nat -> K) s r,
    WF n -> contract_tree n data s = Some r -> check_root n (r_tree r) (r_amap r) = true ->
    exists shp, shape n = Some shp /\ fst (to_full_tensor (r_val r) (r_amap r)) = shp /\
      forall x, in_range shp x -> snd (to_full_tensor (r_val r) (r_amap r)) x = defining_sum n data x.
Proof. intros K L n data s r W H C. exact (contract_tree_checked n data s r W H C). Qed.
Print Assumptions C07_contract_tree_checked.

(** THE BUILDER THEOREM.  [scaffold_ok n s]: the leaves of s are distinct and are exactly the real
    (non-virtual) tensors of n.  No hypothesis on the topology, no run-time check. *)
Theorem C07_builder_tree_is_defining_sum :
  forall (K : Scalar) (L : ScalarLaws K) (n : net) (data : Z -> list nat -> K) s r,
    WF n -> scaffold_ok n s -> contract_tree n data s = Some r ->
    exists shp, shape n = Some shp /\ fst (to_full_tensor (r_val r) (r_amap r)) = shp /\
      forall x, in_range shp x -> snd (to_full_tensor (r_val r) (r_amap r)) x = defining_sum n data x.
Proof. intros K L n data s r W S H. exact (contract_tree_correct n data W s r S H). Qed.
Print Assumptions C07_builder_tree_is_defining_sum.

(** ... from the library's own consistency check *)
Theorem C07_builder_tree_is_defining_sum_from_is_consistent :
  forall (K : Scalar) (L : ScalarLaws K) (n : net) (data : Z -> list nat -> K) s r,
    Rep n -> is_consistent n = true -> scaffold_ok n s -> contract_tree n data s = Some r ->
    exists shp, shape n = Some shp /\ fst (to_full_tensor (r_val r) (r_amap r)) = shp /\
      forall x, in_range shp x -> snd (to_full_tensor (r_val r) (r_amap r)) x = defining_sum n data x.
Proof. intros K L n data s r R C S H. exact (contract_tree_correct n data (is_consistent_WF n R C) s r S H). Qed.
Print Assumptions C07_builder_tree_is_defining_sum_from_is_consistent.

(** the builder itself: it never raises on such a scaffold, and every tree it builds passes the
    verified tree checker (index lists, openaxes, trackaxes of every node) *)
Theorem C07_builder_tree_passes_checker :
  forall (n : net) s, WF n -> scaffold_ok n s ->
    exists tr, build_contraction_tree n s = Some tr /\ check_tree n tr = true /\
               NoDup (tr_out tr) /\ leaves_of tr = sleaves s.
Proof.
  intros n s W [ND Sc]. destruct (build_tree_ok n W s (zmax0 (dkeys (tensors n)) + 1) ND (fun x H => proj1 (Sc x) H)) as [t [E [B Lt]]].
  exists t. split; [exact E|]. split; [exact (bi_chk _ _ B)|]. split; [exact (bi_out _ _ B) | exact Lt].
Qed.
Print Assumptions C07_builder_tree_passes_checker.

(** ... and with contract_tree's axes map the root passes the root check (before the root permutation) *)
Theorem C07_builder_root_passes_checker :
  forall (n : net) s tr vt amap si, WF n -> scaffold_ok n s ->
    build_contraction_tree n s = Some tr -> dget VT (tensors n) = Some vt ->
    omap (track_open n tr) (t_bids vt) = Some amap ->
    sort_indices_loop amap (repeat None (length (tr_out tr))) O = (si, length (tr_out tr)) ->
    check_root n tr amap = true /\ is_perm (map unwrap si).
Proof.
  intros n s tr vt amap si W S Eb Ev Eo Es.
  destruct (built_root_checked n W s tr vt amap si S Eb Ev Eo Es) as [_ [C [P _]]]. auto.
Qed.
Print Assumptions C07_builder_root_passes_checker.

(** what contract_tree RETURNS (after the root permutation, with the re-indexed axes map) passes
    check_root: the statement that was open after round 1 ("forall scaffold, the builder's tree passes
    the checker").  Hence the translation validation of the run can only fail if the PORT disagrees
    with the implementation, never because of the scaffold. *)
Theorem C07_contract_tree_result_passes_checker :
  forall (K : Scalar) (L : ScalarLaws K) (n : net) (data : Z -> list nat -> K) s r,
    WF n -> scaffold_ok n s -> contract_tree n data s = Some r -> check_root n (r_tree r) (r_amap r) = true.
Proof. intros K L n data s r W S H. exact (contract_tree_always_checked n data s r W S H). Qed.
Print Assumptions C07_contract_tree_result_passes_checker.

(** the checker is stable under permute_axes at the root with the axes map moved accordingly *)
Theorem C07_checker_stable_under_root_permutation :
  forall (n : net) t amap p t',
    check_root n t amap = true -> is_perm p -> permute_axes t [] p = Some t' ->
    check_root n t' (pick O (inv_perm p) amap) = true.
Proof.
  intros n t amap p t' C P H. assert (H' : permute_self t p = Some t') by (destruct t; exact H).
  exact (check_root_permute n t amap p t' C P H').
Qed.
Print Assumptions C07_checker_stable_under_root_permutation.

(** totality: contract_tree answers.  [open_ok]: every open axis sits on a bond with a real tensor
    (otherwise the code refuses: RuntimeError 'cannot track open axis');  [root_ok]: a single-tensor
    scaffold has no two legs on one bond (the known findings: assertion on a self-trace,
    RuntimeError for two legs on one open bond). *)
Theorem C07_tree_contraction_answers :
  forall (K : Scalar) (L : ScalarLaws K) (n : net) (data : Z -> list nat -> K) s,
    WF n -> scaffold_ok n s -> open_ok n -> root_ok n s -> exists r, contract_tree n data s = Some r.
Proof. intros K L n data s W S O R. exact (contract_tree_total n data W s S O R). Qed.
Print Assumptions C07_tree_contraction_answers.

(** (c) "Re-ordering a node's axes in a contraction tree does not change the result".  For every tree
    numpy.einsum accepts ([tree_ok]: distinct output labels per node, operand shapes consistent with
    the index lists, a leaf's idxout a permutation of its legs), EVERY path to a node and EVERY
    permutation p of that node's axes: permute_axes (node: idxout and trackaxes; parent: idxL / idxR)
    leaves the value of every strict ancestor - in particular the root - unchanged, pointwise and in
    shape; when the node is the root the value is transposed by p. *)
Theorem C07_permute_axes_keeps_value :
  forall (K : Scalar) (L : ScalarLaws K) (n : net) (data : Z -> list nat -> K) t path p t' v,
    tree_ok n data t -> is_perm p -> permute_axes t path p = Some t' -> tree_eval n data t = Some v ->
    exists v', tree_eval n data t' = Some v' /\
      match path with [] => tv_eq v' (tv_transpose v p) | _ => tv_eq v' v end.
Proof. intros K L n data t path p t' v T P H E. exact (permute_axes_value n data t path p t' v T P H E). Qed.
Print Assumptions C07_permute_axes_keeps_value.

(** ... the tree stays well-formed (permutations can be iterated) ... *)
Theorem C07_permute_axes_keeps_tree_ok :
  forall (K : Scalar) (L : ScalarLaws K) (n : net) (data : Z -> list nat -> K) t path p t',
    tree_ok n data t -> is_perm p -> permute_axes t path p = Some t' -> tree_ok n data t'.
Proof. intros K L n data t path p t' T P H. exact (permute_axes_tree_ok n data t path p t' T P H). Qed.
Print Assumptions C07_permute_axes_keeps_tree_ok.

(** ... at the root the axes map is permuted accordingly and the EXPANDED tensor is unchanged
    (contract_tree: axes_map = [sort_indices[k] for k in axes_map], i.e. p = argsort^-1) ... *)
Theorem C07_permute_root_keeps_expansion :
  forall (K : Scalar) (L : ScalarLaws K) (n : net) (data : Z -> list nat -> K) t p t' v amap,
    tree_ok n data t -> is_perm p -> permute_axes t [] p = Some t' -> tree_eval n data t = Some v ->
    (forall a, In a amap -> (a < length p)%nat) ->
    exists v', tree_eval n data t' = Some v' /\
      tv_eq (to_full_tensor v' (pick O (inv_perm p) amap)) (to_full_tensor v amap).
Proof.
  intros K L n data t p t' v amap T P H E Ha.
  destruct (permute_axes_value n data t [] p t' v T P H E) as [v' [E' Q]]. exists v'. split; [exact E'|].
  apply (to_full_tensor_transpose v v' p amap P); [|exact Ha | exact Q].
  rewrite permute_axes_nil in H. rewrite (permute_self_len t p t' H). symmetry. apply (tree_eval_len n data t v E).
Qed.
Print Assumptions C07_permute_root_keeps_expansion.

(** ... and it applies to every tree the builder builds and to every tree the checker accepts *)
Theorem C07_built_trees_are_tree_ok :
  forall (K : Scalar) (L : ScalarLaws K) (n : net) (data : Z -> list nat -> K) s tr,
    WF n -> scaffold_ok n s -> build_contraction_tree n s = Some tr -> tree_ok n data tr.
Proof.
  intros K L n data s tr W [ND Sc] E.
  destruct (build_tree_ok n W s (zmax0 (dkeys (tensors n)) + 1) ND (fun x H => proj1 (Sc x) H)) as [t [E' [B _]]].
  unfold build_contraction_tree in E. assert (t = tr) by congruence. subst t.
  exact (check_tree_tree_ok n data W tr (bi_chk _ _ B) (bi_out _ _ B)).
Qed.
Print Assumptions C07_built_trees_are_tree_ok.
Theorem C07_checked_trees_are_tree_ok :
  forall (K : Scalar) (L : ScalarLaws K) (n : net) (data : Z -> list nat -> K) t amap,
    WF n -> check_root n t amap = true -> tree_ok n data t.
Proof. intros K L n data t amap W C. exact (check_root_tree_ok n data W t amap C). Qed.
Print Assumptions C07_checked_trees_are_tree_ok.

(** strategy independence: tree contraction along any admissible scaffold and the single shot agree *)
Theorem C07_tree_equals_einsum :
  forall (K : Scalar) (L : ScalarLaws K) (n : net) (data : Z -> list nat -> K) s r v am x shp,
    WF n -> scaffold_ok n s -> contract_tree n data s = Some r ->
    contract_einsum n data = Some (v, am) -> shape n = Some shp -> in_range shp x ->
    snd (to_full_tensor (r_val r) (r_amap r)) x = snd (to_full_tensor v am) x.
Proof.
  intros K L n data s r v am x shp W HS HT HE Hshp Hx.
  destruct (contract_tree_correct n data W s r HS HT) as [shp1 [S1 [_ V1]]].
  destruct (contract_einsum_correct n data v am W HE) as [shp2 [S2 [_ V2]]].
  assert (shp1 = shp) by congruence. assert (shp2 = shp) by congruence. subst.
  rewrite V1, V2 by assumption. reflexivity.
Qed.
Print Assumptions C07_tree_equals_einsum.

(** two scaffolds: any two contraction orders give the same dense tensor *)
Theorem C07_any_two_scaffolds_agree :
  forall (K : Scalar) (L : ScalarLaws K) (n : net) (data : Z -> list nat -> K) s1 s2 r1 r2 x shp,
    WF n -> scaffold_ok n s1 -> scaffold_ok n s2 ->
    contract_tree n data s1 = Some r1 -> contract_tree n data s2 = Some r2 -> shape n = Some shp -> in_range shp x ->
    snd (to_full_tensor (r_val r1) (r_amap r1)) x = snd (to_full_tensor (r_val r2) (r_amap r2)) x.
Proof.
  intros K L n data s1 s2 r1 r2 x shp W H1 H2 T1 T2 Hshp Hx.
  destruct (contract_tree_correct n data W s1 r1 H1 T1) as [shp1 [S1 [_ V1]]].
  destruct (contract_tree_correct n data W s2 r2 H2 T2) as [shp2 [S2 [_ V2]]].
  assert (shp1 = shp) by congruence. assert (shp2 = shp) by congruence. subst.
  rewrite V1, V2 by assumption. reflexivity.
Qed.
Print Assumptions C07_any_two_scaffolds_agree.


(* ================================================================== the source, regenerated *)
(** [Run.GenTN] is regenerated on every run by gen/tn.py from symbolic_network.py: the first id of
    an intermediate tree tensor and the bump rule of _build_contraction_tree, as_einsum's sort key
    (virtual tensor last), the default of the min, the first-occurrence rule (pinned) and the
    axes-map rule.  They are what the model (TNValue.as_einsum, TNTree.build_tree) uses. *)
Local Open Scope Z_scope.
Theorem C07_source_closed_forms_are_model :
  (forall n, gen_tree_first_id (tensors n) = zmax0 (dkeys (tensors n)) + 1) /\
  (forall next tid, gen_tree_bump next tid = if Z.leb next tid then tid + 1 else next) /\
  (forall n, gen_einsum_max_tid (tensors n) = zmax0 (dkeys (tensors n))) /\
  (forall mx t, gen_einsum_sort_key mx t = if Z.eqb t VT then mx + 1 else t) /\
  gen_einsum_min_default = O /\
  (forall l, gen_einsum_out l = first_occ l []) /\
  (forall out l, gen_einsum_axes_map out l = omap (fun i => nindex i out) l).
Proof.
  refine (conj _ (conj _ (conj _ (conj _ (conj _ (conj _ _)))))).
  - intros. unfold gen_tree_first_id. repeat rewrite zmaxd_0. lia.
  - intros. unfold gen_tree_bump. cmp_bool.
  - intros. unfold gen_einsum_max_tid. repeat rewrite zmaxd_0. reflexivity.
  - intros. unfold gen_einsum_sort_key, VT. cmp_bool.
  - reflexivity.
  - intros. reflexivity.
  - intros. reflexivity.
Qed.
Print Assumptions C07_source_closed_forms_are_model.

(** what these closed forms are FOR: ids of intermediate tree tensors never collide with the
    network's tensors, the bump rule only moves upwards, the virtual tensor sorts last *)
Theorem C07_source_ids_are_fresh :
  (forall n k, In k (dkeys (tensors n)) -> k < gen_tree_first_id (tensors n)) /\
  (forall next tid, next <= gen_tree_bump next tid /\ tid < gen_tree_bump next tid) /\
  (forall n t, In t (dkeys (tensors n)) -> t <> VT ->
     gen_einsum_sort_key (gen_einsum_max_tid (tensors n)) t < gen_einsum_sort_key (gen_einsum_max_tid (tensors n)) VT).
Proof.
  refine (conj _ (conj _ _)).
  - intros n k H. pose proof (zmax0_ge _ _ H). unfold gen_tree_first_id. repeat rewrite zmaxd_0. lia.
  - intros next tid. unfold gen_tree_bump. destruct (Z.leb_spec next tid); lia.
  - intros n t H Ht. pose proof (zmax0_ge _ _ H). unfold gen_einsum_sort_key, gen_einsum_max_tid. repeat rewrite zmaxd_0.
    unfold VT in *. destruct (Z.eqb_spec t (-1)); [contradiction|]. cbn. lia.
Qed.
Print Assumptions C07_source_ids_are_fresh.

Local Close Scope Z_scope.

(** the hypotheses are satisfiable: hyper-bond with three legs + two open axes on one bond + a
    self-trace + an identity wire; the model contracts it and the expansion is the defining sum
    (here evaluated on Gaussian-integer data) *)
Definition ex_net : net :=
  mkN [(2%Z, mkT 2%Z [2; 2; 3; 3]%nat [4; 4; 7; 7]%Z 0%Z); ((-1)%Z, mkT (-1)%Z [2; 2; 2; 2]%nat [4; 9; 4; 9]%Z (-1)%Z);
       (5%Z, mkT 5%Z [2]%nat [4]%Z 1%Z)]
      [(4, mkB 4 [-1; -1; 2; 2; 5]); (7, mkB 7 [2; 2]); (9, mkB 9 [-1; -1])]%Z.
Example C07_example :
  wf_b ex_net = true /\
  exists E v, as_einsum_spec ex_net = Some E /\ as_einsum ex_net = Some E /\
    contract_with (K:=ZI) E ex_net (fun r idx => (Z.of_nat (1 + length idx + 2 * nth 0 idx O), 1%Z)) = Some (v, e_amap E) /\
    e_amap E = [0; 1; 0; 1]%nat.
Proof. split; [vm_compute; reflexivity|]. eexists. eexists. vm_compute. repeat split. Qed.

Definition ex_net2 : net :=
  mkN [(2%Z, mkT 2%Z [2; 2; 3; 3]%nat [4; 4; 7; 7]%Z 0%Z); ((-1)%Z, mkT (-1)%Z [2; 2]%nat [4; 4]%Z (-1)%Z);
       (5%Z, mkT 5%Z [2]%nat [4]%Z 1%Z)]
      [(4, mkB 4 [-1; -1; 2; 2; 5]); (7, mkB 7 [2; 2])]%Z.
Example C07_example_tree :
  wf_b ex_net2 = true /\
  exists r, contract_tree (K:=ZI) ex_net2 (fun r idx => (Z.of_nat (1 + length idx + 2 * nth 0 idx O), 1%Z))
                          (SNode (SLeaf 5) (SLeaf 2)) = Some r /\
            check_root ex_net2 (r_tree r) (r_amap r) = true.
Proof. split; [vm_compute; reflexivity|]. eexists. split; [vm_compute; reflexivity | vm_compute; reflexivity]. Qed.

(** the hypotheses of the builder theorem / of totality hold for it (hyper-bond 4 with five legs, two of
    them open, multi-edge 2-2 on bond 7 = a self-trace inside a two-tensor scaffold) *)
Example C07_example_tree_admissible :
  scaffold_ok ex_net2 (SNode (SLeaf 5) (SLeaf 2)) /\ open_ok ex_net2 /\ root_ok ex_net2 (SNode (SLeaf 5) (SLeaf 2)).
Proof.
  split; [|split; [|exact I]].
  - split.
    + cbn. constructor; [intros [H|[]]; discriminate|]. constructor; [intros []|constructor].
    + intros k. cbn. unfold VT. split.
      * intros [<-|[<-|[]]]; split; auto; discriminate.
      * intros [[<-|[<-|[<-|[]]]] H]; auto; exfalso; apply H; reflexivity.
  - intros b Hb. vm_compute in Hb. destruct Hb as [<-|[<-|[]]]; exists (2%Z, 0%nat); (split; [vm_compute; auto | discriminate]).
Qed.

(** a single-tensor scaffold whose open axes meet the legs of the tensor out of order (open axes
    = legs 2,0,1): contract_tree permutes the leaf root AND transposes its stored tensor, the
    verified checker accepts the result - so it expands to the defining sum (this input was the
    failing input of the repaired defect "root permutation ignored") *)
Definition ex_leaf : net :=
  mkN [(8%Z, mkT 8%Z [2; 1; 3]%nat [0; 1; 2]%Z 0%Z); ((-1)%Z, mkT (-1)%Z [3; 2; 1]%nat [2; 0; 1]%Z (-1)%Z)]
      [(0, mkB 0 [-1; 8]); (1, mkB 1 [-1; 8]); (2, mkB 2 [-1; 8])]%Z.
Example C07_example_single_leaf_root :
  wf_b ex_leaf = true /\
  exists r, contract_tree (K:=ZI) ex_leaf (fun r idx => (Z.of_nat (1 + 3 * nth 0 idx O + nth 2 idx O), 0%Z)) (SLeaf 8) = Some r /\
            r_tree r = TLeaf 8 [2; 0; 1]%nat [(8%Z, 0%nat); (8%Z, 1%nat); (8%Z, 2%nat)] [1; 2; 0]%nat /\
            fst (r_val r) = [3; 2; 1]%nat /\ r_amap r = [0; 1; 2]%nat /\
            snd (r_val r) [2; 1; 0]%nat = (6%Z, 0%Z) /\
            check_root ex_leaf (r_tree r) (r_amap r) = true.
Proof. split; [vm_compute; reflexivity|]. eexists. split; [vm_compute; reflexivity|]. vm_compute. repeat split. Qed.

(** get_bond_axes (read by as_einsum, by the tree builder and by is_consistent), read off the source STATEMENT BY STATEMENT
    (gen/tnloops.py -> Run.GenTNLoops: the two nested loops, `bond.tids[:i].count(bond.tids[i])`, the `break`, `j -= 1`, the item
    assignment into `len(bond.tids) * [-1]`, the final `assert all(ax >= 0 ...)`): the regenerated function (Python integers, -1 = not
    found yet) is the hand model TNModel.get_bond_axes (positions, None = KeyError / AssertionError) for ALL networks and bond ids.
    gen = TNLoops.lit_get_bond_axes by reflexivity; lit = model in TN/TNLoops.v (gba_inner: the inner loop with its break is find_leg;
    gba_outer: the outer loop fills position i with the axis found or leaves -1; gba_spec_is_model: the assertion = every leg found).
    NOT done for _build_contraction_tree and as_einsum's loops: they stay hand-ported (exact correspondence + verified checker). *)
Theorem C07_source_get_bond_axes_is_model :
  forall n bid, gen_get_bond_axes n bid = option_map (map Z.of_nat) (get_bond_axes n bid).
Proof. intros n bid. transitivity (lit_get_bond_axes n bid); [reflexivity | apply lit_get_bond_axes_is_model]. Qed.
Print Assumptions C07_source_get_bond_axes_is_model.
