From Qib Require Import TN.TNCheck.
