(** C09 - Pauli-string algebra is a faithful image of matrix algebra.
    Property theorems only.  [Run.GenPauli] is regenerated from
    /repo/src/qib/operator/pauli_operator.py on every run (gen/pauli.py), so the statements
    below are about the formulas the code contains now; the Kronecker loop of as_matrix,
    parsing/printing and the operator bookkeeping are the hand-written model
    (Qib.Pauli.PauliModel), tied to the code by the correspondence run. *)
From Qib Require Import Pauli.PauliProofs3 Base.Inst.
From Run Require Import GenPauli.

Section C09.
  Context {K : Scalar} {L : ScalarLaws K}.
  Local Open Scope K_scope.
  Add Ring KringC09 : (s_ring K L).

  Definition unvb (l : list Z) : list bool := map (Z.eqb 1) l.
  Lemma unvb_vb l : unvb (vb l) = l.
  Proof. unfold unvb, vb. induction l as [|[] l IH]; cbn [map bz]; rewrite ?IH; reflexivity. Qed.

  (** the string PauliString.__matmul__ constructs, read off the generated formulas *)
  Definition code_mul (p p' : pstr) : pstr :=
    let a := (vb (pz p), vb (px p), pq p) in
    let b := (vb (pz p'), vb (px p'), pq p') in
    {| pz := unvb (gen_mul_z (vb (pz p)) (vb (px p)) (pq p) (vb (pz p')) (vb (px p')) (pq p'));
       px := unvb (gen_mul_x (vb (pz p)) (vb (px p)) (pq p) (vb (pz p')) (vb (px p')) (pq p'));
       pq := gen_ctor_q (gen_mul_q (vb (pz p)) (vb (px p)) (pq p) (vb (pz p')) (vb (px p')) (pq p')) |}.

  Lemma code_mul_model n p p' : wfp n p -> wfp n p' -> code_mul p p' = pmul p p'.
  Proof.
    intros [Hz Hx] [Hz' Hx'].
    unfold code_mul, pmul, gen_mul_z, gen_mul_x, gen_mul_q, gen_ctor_q. cbv zeta.
    rewrite !vmod_vadd_vb by congruence. rewrite !vdot_vb, !unvb_vb.
    f_equal; try (unfold qprod, dotz; try f_equal; ring).
  Qed.

  (** interpretation of the phase constants found in the source *)
  Definition zsmall (a : Z) : K := match a with Z0 => 0 | Zpos _ => 1 | Zneg _ => - (1) end.
  Definition zi_interp (a : Z * Z) : K := zsmall (fst a) + sI * zsmall (snd a).

  Lemma phase_table_mipz tab e :
    tab = [(1, 0); (0, -1); (-1, 0); (0, 1)]%Z ->
    zi_interp (zitab_get tab (e mod 4)) = mipz e.
  Proof.
    intros ->. unfold mipz, zitab_get.
    destruct (mod4_cases e) as [-> | [-> | [-> | ->]]];
      unfold zi_interp;
      change (Z.to_nat 0) with 0%nat; change (Z.to_nat 1) with 1%nat;
      change (Z.to_nat 2) with 2%nat; change (Z.to_nat 3) with 3%nat;
      cbn [nth fst snd zsmall]; ring.
  Qed.

  (** the matrix as_matrix reports: generated phase, modelled Kronecker loop *)
  Definition code_matrix (p : pstr) : BMx K := fun r c =>
    zi_interp (zitab_get gen_matrix_phase_table (gen_matrix_phase_index (vb (pz p)) (vb (px p)) (pq p)))
    * zx_mat (pz p) (px p) r c.

  Lemma code_matrix_model p r c : code_matrix p r c = pmatrix p r c.
  Proof.
    unfold code_matrix, pmatrix, gen_matrix_phase_index. rewrite vdot_vb.
    rewrite (phase_table_mipz gen_matrix_phase_table) by reflexivity. reflexivity.
  Qed.
End C09.

(** 1. matrix = (-i)^q (x) letters, site 0 most significant, for every length *)
Theorem C09_matrix_is_phase_times_kron_of_letters :
  forall (K : Scalar) (L : ScalarLaws K) p r c,
    code_matrix (K:=K) p r c = smul (mipz (pq p)) (letters_mat (pz p) (px p) r c).
Proof. intros. rewrite code_matrix_model. apply pmatrix_kron. Qed.
Print Assumptions C09_matrix_is_phase_times_kron_of_letters.

(** 2. product of two strings has the product matrix *)
Theorem C09_product_is_matrix_product :
  forall (K : Scalar) (L : ScalarLaws K) n p p', wfp n p -> wfp n p' ->
    meq n (code_matrix (K:=K) (code_mul p p')) (mmul n (code_matrix p) (code_matrix p')).
Proof.
  intros K L n p p' W W' r c Hr Hc. rewrite (code_mul_model n) by assumption.
  rewrite code_matrix_model. rewrite (pmul_matrix n p p' W W' r c Hr Hc).
  unfold mmul. apply bsum_ext. intros k _. rewrite !code_matrix_model. reflexivity.
Qed.
Print Assumptions C09_product_is_matrix_product.

(** 3. commutes_with is exact (completeness needs 2 <> 0) *)
Theorem C09_commutes_with_iff :
  forall (K : Scalar) (L : ScalarLaws K), sadd (s1 (s:=K)) s1 <> s0 ->
  forall n p p', wfp n p -> wfp n p' ->
    (gen_commutes (vb (pz p)) (vb (px p)) (vb (pz p')) (vb (px p')) = true <->
     meq n (mmul n (code_matrix (K:=K) p) (code_matrix p')) (mmul n (code_matrix p') (code_matrix p))).
Proof.
  intros K L Two n p p' W W'.
  assert (G : gen_commutes (vb (pz p)) (vb (px p)) (vb (pz p')) (vb (px p')) = pcommutes p p').
  { unfold gen_commutes, pcommutes, dotz. rewrite !vdot_vb. reflexivity. }
  rewrite G.
  assert (E : forall a b, meq n (mmul n (code_matrix (K:=K) a) (code_matrix b)) (mmul n (pmatrix a) (pmatrix b))).
  { intros a b r c _ _. unfold mmul. apply bsum_ext. intros k _. rewrite !code_matrix_model. reflexivity. }
  split.
  - intros H. eapply meq_trans; [apply E|]. eapply meq_trans; [|apply meq_sym; apply E].
    apply pcommutes_sound; assumption.
  - intros H. apply (pcommutes_complete n p p' Two W W').
    eapply meq_trans; [apply meq_sym; apply E|]. eapply meq_trans; [exact H|apply E].
Qed.
Print Assumptions C09_commutes_with_iff.

(** 4. the Hermiticity flag is exact *)
Theorem C09_is_hermitian_iff :
  forall (K : Scalar) (L : ScalarLaws K), sadd (s1 (s:=K)) s1 <> s0 ->
  forall n p, wfp n p ->
    (gen_is_hermitian (pq p) = true <-> hermitian n (code_matrix (K:=K) p)).
Proof.
  intros K L Two n p W.
  change (gen_is_hermitian (pq p)) with (pherm p).
  assert (E : meq n (code_matrix (K:=K) p) (pmatrix p)) by (intros r c _ _; apply code_matrix_model).
  split.
  - intros H r c Hr Hc. unfold madj. rewrite !code_matrix_model. apply (pherm_sound n p H r c Hr Hc).
  - intros H. apply (pherm_complete n p Two W). intros r c Hr Hc.
    specialize (H r c Hr Hc). unfold madj in *. rewrite !code_matrix_model in H. exact H.
Qed.
Print Assumptions C09_is_hermitian_iff.

(** 5. parsing the printed form gives back the string (every length, n = 0 included) *)
Theorem C09_parse_print :
  forall n p, wfp n p -> (0 <= pq p < 4)%Z -> pparse (pprint p) = Some p.
Proof. exact parse_print. Qed.
Print Assumptions C09_parse_print.

(** 6. refactor_phase / refactor_sign return f with f * (new matrix) = old matrix *)
Theorem C09_refactor_phase :
  forall (K : Scalar) (L : ScalarLaws K) p r c,
    gen_refactor_phase_table = [(1, 0); (0, -1); (-1, 0); (0, 1)]%Z /\
    smul (mipz (fst (refactor_phase p))) (pmatrix (snd (refactor_phase p)) r c) = pmatrix (K:=K) p r c.
Proof. intros. split; [reflexivity|apply refactor_phase_ok]. Qed.
Print Assumptions C09_refactor_phase.

Theorem C09_refactor_sign :
  forall (K : Scalar) (L : ScalarLaws K) p r c, (0 <= pq p < 4)%Z ->
    smul (mipz (fst (refactor_sign p))) (pmatrix (snd (refactor_sign p)) r c) = pmatrix (K:=K) p r c
    /\ (0 <= pq (snd (refactor_sign p)) < 2)%Z
    /\ (fst (refactor_sign p) = 0 \/ fst (refactor_sign p) = 2)%Z.
Proof. intros K L. exact refactor_sign_ok. Qed.
Print Assumptions C09_refactor_sign.

(** 7. operator matrix: merge-on-insert adds the string; exact-zero pruning keeps the matrix *)
Theorem C09_add_pauli_string :
  forall (K : Scalar) (L : ScalarLaws K) (op : list (wstr (K:=K))) ps r c,
    opmatrix (add_pauli_string op ps) r c = sadd (opmatrix op r c) (wmatrix ps r c).
Proof. intros K L. exact add_pauli_string_matrix. Qed.
Print Assumptions C09_add_pauli_string.

Theorem C09_remove_zero_weight_strings :
  forall (K : Scalar) (L : ScalarLaws K) negl, (forall w : K, negl w = true -> w = s0) ->
  forall (op : list (wstr (K:=K))) r c,
    opmatrix (remove_zero_weight_strings negl op) r c = opmatrix op r c
    /\ ((1 <= length op)%nat -> (1 <= length (remove_zero_weight_strings negl op))%nat).
Proof.
  intros K L negl Hn op r c. split.
  - apply remove_zero_weight_strings_matrix; assumption.
  - apply remove_zero_weight_strings_keeps_one.
Qed.
Print Assumptions C09_remove_zero_weight_strings.

(** 8. constructor decision rule: accepted iff equal lengths and all entries 0/1; q reduced *)
Theorem C09_constructor_rule :
  forall z x q,
    gen_ctor_q q = (q mod 4)%Z /\
    match pauli_ctor z x q with
    | Some p => length z = length x /\ Forall (fun v => v = 0 \/ v = 1)%Z z
                /\ Forall (fun v => v = 0 \/ v = 1)%Z x
                /\ wfp (length z) p /\ (0 <= pq p < 4)%Z /\ (pq p = q mod 4)%Z
                /\ map b2z (pz p) = z /\ map b2z (px p) = x
    | None => ~ (length z = length x /\ Forall (fun v => v = 0 \/ v = 1)%Z z
                /\ Forall (fun v => v = 0 \/ v = 1)%Z x)
    end.
Proof. intros. split; [reflexivity|apply pauli_ctor_spec]. Qed.
Print Assumptions C09_constructor_rule.

(** 9. set_pauli edits exactly one letter (its matrix is then given by theorem 1) *)
Theorem C09_set_pauli :
  forall n p zv xv i, wfp n p -> (i < n)%nat ->
  wfp n (set_pauli p zv xv i) /\ pq (set_pauli p zv xv i) = pq p /\
  forall j, get_pauli (set_pauli p zv xv i) j = if Nat.eqb i j then (zv, xv) else get_pauli p j.
Proof. exact set_pauli_spec. Qed.
Print Assumptions C09_set_pauli.

(** non-vacuity: a concrete non-trivial instance over the Gaussian integers *)
Example C09_instance :
  let p := {| pz := [true; false; true]; px := [true; true; false]; pq := 3 |} in
  let p' := {| pz := [false; true; true]; px := [true; false; true]; pq := 1 |} in
  wfp 3 p /\ wfp 3 p' /\ pcommutes p p' = false /\
  dense 3 (pmatrix (K:=ZI) (code_mul p p')) = dense 3 (mmul 3 (pmatrix p) (pmatrix p')).
Proof. vm_compute. repeat split. Qed.
