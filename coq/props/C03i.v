(** C03 (circuit level) - "for every circuit C and register, the matrix of C.inverse() times
    the matrix of C is the identity".  Property theorems only.

    [Run.GenGatesComp.gen_circuit_inverse] is regenerated from /repo/src/qib/circuit/circuit.py
    on every run (the gate list Circuit.inverse() hands to Circuit(...)); the circuit matrix
    [cmat] / [circuit_matrix] is the model of Circuit.as_matrix of C05 (Qib.Embed.CircModel),
    Gate.as_circuit_matrix is [embed] (C04).  Library: Qib.Gates.CircInverse.
    Compiled after coq/props/C03c.v (uses its [code_inverse], the inverse() forms of the
    composite classes as the code constructs them). *)
From Qib Require Import Gates.CircInverse Gates.CompProofs Base.Inst.
From Run Require Import GenGatesComp Prop_C03c.

(** 0. Circuit.inverse() is the reversed list of the gates' inverse() *)
Theorem C03i_circuit_inverse_form_is_code :
  forall (K : Scalar) (ginv : CircModel.cgate K -> CircModel.cgate K) (c : circuit K),
    gen_circuit_inverse ginv c = circuit_inverse ginv c.
Proof.
  intros. unfold gen_circuit_inverse, circuit_inverse.
  first [ reflexivity | symmetry; apply map_rev | apply map_rev ].
Qed.
Print Assumptions C03i_circuit_inverse_form_is_code.

(** 1. MAIN, abstract gates: for every register size nw, every list of gates, each a unitary
       matrix on distinct in-range wires ([gate_ok]), and every per-gate inverse() that reports
       the adjoint matrix on the same wires ([inv_ok] - what C03 shows gate by gate):
       whenever C.as_matrix exists (C non-empty), C.inverse().as_matrix exists and
       inverse times circuit = circuit times inverse = identity. *)
Theorem C03i_circuit_inverse_inverts :
  forall (K : Scalar) (L : ScalarLaws K) (nw : nat)
         (ginv : CircModel.cgate K -> CircModel.cgate K) (c : circuit K) (M : BMx K),
    Forall (gate_ok nw) c -> (forall g, In g c -> inv_ok g (ginv g)) ->
    circuit_matrix nw c = Some M ->
    exists Mi, circuit_matrix nw (gen_circuit_inverse ginv c) = Some Mi
               /\ meq nw (mmul nw Mi M) mid /\ meq nw (mmul nw M Mi) mid.
Proof.
  intros K L nw ginv c M HF HI HM. rewrite C03i_circuit_inverse_form_is_code.
  apply (circuit_matrix_inverse nw ginv c M HF HI HM).
Qed.
Print Assumptions C03i_circuit_inverse_inverts.

(** 1b. the same on the total circuit matrix (empty product = 1), any length incl. 0 *)
Theorem C03i_circuit_inverse_inverts_total :
  forall (K : Scalar) (L : ScalarLaws K) (nw : nat)
         (ginv : CircModel.cgate K -> CircModel.cgate K) (c : circuit K),
    Forall (gate_ok nw) c -> (forall g, In g c -> inv_ok g (ginv g)) ->
    meq nw (mmul nw (cmat nw (gen_circuit_inverse ginv c)) (cmat nw c)) mid
    /\ meq nw (mmul nw (cmat nw c) (cmat nw (gen_circuit_inverse ginv c))) mid
    /\ Forall (gate_ok nw) (gen_circuit_inverse ginv c).
Proof.
  intros K L nw ginv c HF HI. rewrite C03i_circuit_inverse_form_is_code.
  destruct (cmat_circuit_inverse nw ginv c HF HI) as [H1 H2].
  split; [exact H1|]. split; [exact H2|]. apply circuit_inverse_gate_ok; assumption.
Qed.
Print Assumptions C03i_circuit_inverse_inverts_total.

(** 2. MAIN, end to end for circuits of gate TREES (Qib.Gates.CompModel: controlled /
       multiplexed / block-encoding / time-evolution / prepare / general gates over leaves,
       nested to any depth): the gate of the circuit is (matrix g, wires of particles g) for a
       particle-to-wire map [w] (map_particle_to_wire, C04: injective and in range on the
       particles of the register), inverse() is the code's [code_inverse] of C03c.
       Hypotheses per gate: well-formed ([wf], as in C03c), all particles bound
       (length particles = num_wires), wires distinct and in range. *)
Section Trees.
  Context {K : Scalar} {L : ScalarLaws K}.
  Variable is_expm : nat -> BMx K -> BMx K -> Prop.
  Hypothesis Hexp1 : forall n A E, is_expm n A E -> antiherm n A -> unitary n E.
  Hypothesis Hexp2 : forall n A E A' E', is_expm n A E -> is_expm n A' E' -> meq n A' (madj A) -> meq n E' (madj E).
  Variable nw : nat.
  Variable w : nat -> nat.

  Definition circ_gate (g : CompModel.cgate K) : CircModel.cgate K :=
    {| g_mat := matrix g; g_wires := map w (particles g) |}.
  Definition bound_ok (g : CompModel.cgate K) : Prop :=
    length (particles g) = num_wires g /\ wires_ok nw (map w (particles g)).

  Lemma circ_gate_ok g : wf is_expm g -> bound_ok g -> gate_ok nw (circ_gate g).
  Proof.
    intros W [Hl Hw]. split; [exact Hw|]. cbn [g_wires g_mat circ_gate]. rewrite map_length, Hl.
    apply (matrix_unitary is_expm Hexp1 g W).
  Qed.

  Lemma circ_gate_inv_ok g : wf is_expm g -> bound_ok g -> inv_ok (circ_gate g) (circ_gate (code_inverse g)).
  Proof.
    intros W [Hl Hw]. rewrite code_inverse_model. split; cbn [g_wires g_mat circ_gate].
    - rewrite inverse_particles. reflexivity.
    - rewrite map_length, Hl. apply (inverse_adjoint is_expm Hexp2 g W).
  Qed.

  Lemma map_circ_gate_inverse (c : list (CompModel.cgate K)) :
    map circ_gate (gen_circuit_inverse code_inverse c)
    = map (fun g => circ_gate (code_inverse g)) (rev c).
  Proof.
    unfold gen_circuit_inverse.
    first [ rewrite map_map; reflexivity
          | rewrite <- map_rev, map_map; reflexivity
          | rewrite map_rev, map_map; reflexivity ].
  Qed.

  Theorem trees_circuit_inverse (c : list (CompModel.cgate K)) :
    Forall (fun g => wf is_expm g /\ bound_ok g) c ->
    let C := map circ_gate c in
    let Ci := map circ_gate (gen_circuit_inverse code_inverse c) in
    meq nw (mmul nw (cmat nw Ci) (cmat nw C)) mid /\ meq nw (mmul nw (cmat nw C) (cmat nw Ci)) mid.
  Proof.
    intros HF C Ci. apply cmat_inverse_of.
    - unfold C. apply Forall_forall. intros x Hx. apply in_map_iff in Hx. destruct Hx as [g [<- Hg]].
      rewrite Forall_forall in HF. destruct (HF g Hg). apply circ_gate_ok; assumption.
    - unfold C, Ci. rewrite map_circ_gate_inverse. clear C Ci.
      induction c as [|g c IH]; [constructor|].
      inversion HF as [|? ? [Wg Bg] HF']; subst.
      cbn [rev map]. rewrite map_app. cbn [map]. constructor; [|apply IH; exact HF'].
      apply circ_gate_inv_ok; assumption.
  Qed.
End Trees.

Theorem C03i_circuit_of_gate_trees_inverse_inverts :
  forall (K : Scalar) (L : ScalarLaws K) (is_expm : nat -> BMx K -> BMx K -> Prop),
    (forall n A E, is_expm n A E -> antiherm n A -> unitary n E) ->
    (forall n A E A' E', is_expm n A E -> is_expm n A' E' -> meq n A' (madj A) -> meq n E' (madj E)) ->
    forall (nw : nat) (w : nat -> nat) (c : list (CompModel.cgate K)),
      Forall (fun g => wf is_expm g /\ bound_ok nw w g) c ->
      let C := map (circ_gate w) c in
      let Ci := map (circ_gate w) (gen_circuit_inverse code_inverse c) in
      meq nw (mmul nw (cmat nw Ci) (cmat nw C)) mid /\ meq nw (mmul nw (cmat nw C) (cmat nw Ci)) mid.
Proof. intros K L is_expm H1 H2 nw w c HF. apply (trees_circuit_inverse is_expm H1 H2 nw w c HF). Qed.
Print Assumptions C03i_circuit_of_gate_trees_inverse_inverts.

(** non-vacuity, and why the list must be reversed: on 2 wires, C = [S on wire 0; H-like X on
    wire 0 ... ] - concretely C = [S(0); X(0); CNOT(1 -> 0 pattern [1])]: the inverse circuit
    multiplies to the identity, the un-reversed list of inverses does not. *)
Example C03i_instance :
  let X := mxl (K:=ZI) [[(0,0);(1,0)];[(1,0);(0,0)]]%Z in
  let S := mxl (K:=ZI) [[(1,0);(0,0)];[(0,0);(0,1)]]%Z in
  let Sd := mxl (K:=ZI) [[(1,0);(0,0)];[(0,0);(0,-1)]]%Z in
  let gS := Leaf 1 S Sd false [0]%nat in
  let gX := Leaf 1 X X true [0]%nat in
  let gC := Ctrl [true] [1]%nat (Leaf 1 X X true [0]%nat) in
  let c := [gS; gX; gC] in
  let w := fun p : nat => p in
  let C := map (circ_gate w) c in
  let Ci := map (circ_gate w) (gen_circuit_inverse code_inverse c) in
  let Cbad := map (circ_gate w) (map code_inverse c) in
  Forall (fun g => bound_ok 2 w g) c
  /\ dense 2 (mmul 2 (cmat 2 Ci) (cmat 2 C)) = dense 2 (mid (K:=ZI))
  /\ dense 2 (cmat 2 C) <> dense 2 (mid (K:=ZI))
  /\ dense 2 (mmul 2 (cmat 2 Cbad) (cmat 2 C)) <> dense 2 (mid (K:=ZI)).
Proof.
  cbv zeta. split.
  - constructor; [|constructor; [|constructor; [|constructor]]];
      (split; [reflexivity|split; [repeat constructor; cbn; intuition lia|cbn; intuition lia]]).
  - split; [vm_compute; reflexivity|]. split; vm_compute; discriminate.
Qed.
