(** C15 - model Hamiltonians equal their lattice definitions and are Hermitian
    (+ the Hamiltonian / field-operator-term part of C16: C15_..._hermitian_flag_sound).

    [Run.GenHamil] is regenerated on every run by gen/hamil.py from
    ising_hamiltonian.py, heisenberg_hamiltonian.py, fermi_hubbard_hamiltonian.py and
    molecular_hamiltonian.py: the whole loop nests of as_pauli_operator, the coefficient-tensor
    constructions of as_field_operator, the symmetry checks of MolecularHamiltonian.__init__ and
    the is_hermitian bodies; the translator also refuses (fail-closed) constructors of the three
    lattice models that lack the isinstance validations making the couplings real or that store
    anything but the arguments, and as_matrix bodies that are not "matrix of the generated
    operator".  The theorems below are stated about those generated terms, for
    every number of sites, every adjacency relation [adj : nat -> nat -> bool] and every
    commutative *-ring K with i*i = -1 (couplings "real" = fixed by conjugation).
    PauliString / PauliOperator semantics come from the C09 model, FieldOperator.as_matrix is the
    hand-written model Qib.Hamil.HamilModel (both tied to /repo by correspondence runs). *)
From Qib Require Import Hamil.HamilProofs2 Base.Inst.
From Run Require Import GenHamil.

(* ------------------------------------------------------------------ generated code = model *)
Lemma gen_ising_is_model {K : Scalar} n adj (J h g : K) zz :
  gen_ising_ops n adj J h g zz = ising_ops n adj J h g zz.
Proof. try reflexivity; destruct zz; reflexivity. Qed.
Lemma gen_heis_is_model {K : Scalar} n adj (J h : list K) :
  gen_heis_ops n adj J h = heis_ops n adj J h.
Proof. reflexivity. Qed.
Lemma gen_hub_kin_is_model {K : Scalar} n adj (t : K) spin : gen_hub_kin n adj t spin = hub_kin n adj t spin.
Proof. try reflexivity; destruct spin; reflexivity. Qed.
Lemma gen_hub_int_is_model {K : Scalar} n adj (u : K) spin : gen_hub_int n adj u spin = hub_int n adj u spin.
Proof. try reflexivity; destruct spin; reflexivity. Qed.
Lemma gen_hub_is_model {K : Scalar} n adj (t u : K) spin : gen_hub_fop n adj t u spin = hub_fop n adj t u spin.
Proof. unfold gen_hub_fop, hub_fop. rewrite gen_hub_kin_is_model, gen_hub_int_is_model. reflexivity. Qed.
Lemma gen_mol_ctor_is_model {K : Scalar} keq n ns (c : K) creal tk vi herm varch :
  gen_mol_ctor keq n ns c creal tk vi herm varch = mol_ctor keq n ns c creal tk vi herm varch.
Proof. reflexivity. Qed.
Lemma gen_mol_fop_is_model {K : Scalar} (half : K) H : gen_mol_fop half H = mol_fop half H.
Proof. reflexivity. Qed.

(* ------------------------------------------------------------------ 1. the edge list *)
(** the upper-triangle scan visits exactly the pairs i<j<n with adj i j, each once; with a
    symmetric irreflexive adjacency (C14) that is every undirected edge exactly once *)
Theorem C15_scan_visits_every_edge_once :
  forall n adj,
    (forall i j, In (i, j) (edges n adj) <-> (i < j /\ j < n /\ adj i j = true)) /\
    NoDup (edges n adj) /\
    ((forall i j, adj i j = adj j i) -> (forall i, adj i i = false) ->
     forall i j, i < n -> j < n -> adj i j = true ->
       (In (i, j) (edges n adj) /\ ~ In (j, i) (edges n adj)) \/
       (In (j, i) (edges n adj) /\ ~ In (i, j) (edges n adj))).
Proof.
  intros n adj. split; [intros; apply edges_In|]. split; [apply edges_NoDup|].
  apply edges_each_edge_once.
Qed.
Print Assumptions C15_scan_visits_every_edge_once.

(* ------------------------------------------------------------------ 2. Ising, both conventions *)
(** as_pauli_operator().as_matrix() = sum_{edges} J A_i A_j + sum_i (h A_i + g B_i),
    (A, B) = (Z, X) for ISING_ZZ and (X, Z) for ISING_XX; A_i A_j = Kronecker product with the
    letter A at sites i and j (site 0 = first factor) and identities elsewhere.  Independent of
    the merge-on-insert of add_pauli_string (C09). *)
Theorem C15_ising_matrix_is_edge_sum_plus_fields :
  forall (K : Scalar) (L : ScalarLaws K) n adj (J h g : K) (zz : bool) r c,
    let A := if zz then LZ else LX in let B := if zz then LX else LZ in
    opmatrix (gen_ising_ops n adj J h g zz) r c
    = sadd (lsum (map (fun e => smul J (two_site n A (fst e) (snd e) r c)) (edges n adj)))
           (lsum (map (fun i => sadd (smul h (one_site n A i r c)) (smul g (one_site n B i r c))) (seq 0 n))).
Proof.
  intros K L n adj J h g zz r c. rewrite gen_ising_is_model, ising_matrix.
  unfold ising_spec, edge_sum. destruct zz; reflexivity.
Qed.
Print Assumptions C15_ising_matrix_is_edge_sum_plus_fields.

(* ------------------------------------------------------------------ 3. Heisenberg *)
Theorem C15_heisenberg_matrix_is_edge_sum_plus_fields :
  forall (K : Scalar) (L : ScalarLaws K) n adj (J h : list K) r c,
    opmatrix (gen_heis_ops n adj J h) r c
    = lsum (map (fun kg =>
        sadd (lsum (map (fun e => smul (nth (fst kg) J s0) (two_site n (snd kg) (fst e) (snd e) r c)) (edges n adj)))
             (lsum (map (fun i => smul (nth (fst kg) h s0) (one_site n (snd kg) i r c)) (seq 0 n))))
        [(0, LX); (1, LY); (2, LZ)]).
Proof.
  intros K L n adj J h r c. rewrite gen_heis_is_model, heis_matrix. reflexivity.
Qed.
Print Assumptions C15_heisenberg_matrix_is_edge_sum_plus_fields.

(** the two-site coupling is the matrix product of the two one-site operators *)
Theorem C15_two_site_is_product_of_one_site :
  forall (K : Scalar) (L : ScalarLaws K) n a i j, i <> j ->
    meq n (two_site (K:=K) n a i j) (mmul n (one_site n a i) (one_site n a j)).
Proof. intros K L. apply two_site_product. Qed.
Print Assumptions C15_two_site_is_product_of_one_site.

(* ------------------------------------------------------------------ 4. Hermiticity flags (C16 part) *)
Theorem C15_ising_hermitian_flag_sound :
  forall (K : Scalar) (L : ScalarLaws K) n adj (J h g : K) zz,
    gen_ising_is_hermitian = true ->
    sconj J = J -> sconj h = h -> sconj g = g ->      (* constructor: isinstance(x, (int, float)) *)
    hermitian n (opmatrix (gen_ising_ops n adj J h g zz)).
Proof.
  intros K L n adj J h g zz _ HJ Hh Hg. rewrite gen_ising_is_model.
  apply herm_op_matrix. apply ising_herm_op; assumption.
Qed.
Print Assumptions C15_ising_hermitian_flag_sound.

Theorem C15_heisenberg_hermitian_flag_sound :
  forall (K : Scalar) (L : ScalarLaws K) n adj (J h : list K),
    gen_heis_is_hermitian = true ->
    Forall (fun w => sconj w = w) J -> Forall (fun w => sconj w = w) h ->
    hermitian n (opmatrix (gen_heis_ops n adj J h)).
Proof.
  intros K L n adj J h _ HJ Hh. rewrite gen_heis_is_model.
  apply herm_op_matrix. apply heis_herm_op; assumption.
Qed.
Print Assumptions C15_heisenberg_hermitian_flag_sound.

(* ------------------------------------------------------------------ 5. field operators *)
(** an operator string is the monomial map "apply the last operator first" on occupation bit
    lists, sign = parity of the occupied LATER sites (this is what the correspondence run
    evaluates) *)
Theorem C15_operator_string_is_monomial :
  forall (K : Scalar) (L : ScalarLaws K) n ops r c, length r = n -> length c = n ->
    opstring (K:=K) n ops r c = mono_entry ops r c.
Proof. intros K L n ops r c. apply opstring_mono. Qed.
Print Assumptions C15_operator_string_is_monomial.

(** FieldOperatorTerm.is_hermitian with exact comparison is sound (numpy.allclose in the code:
    the real flag is this one up to rtol = 1e-5 / atol = 1e-8) *)
Theorem C15_field_term_hermitian_flag_sound :
  forall (K : Scalar) (L : ScalarLaws K) keq n (t : fterm K),
    (forall a b : K, keq a b = true -> a = b) ->
    fterm_herm_flag keq n t = true -> hermitian n (fterm_matrix n t).
Proof. intros K L. apply fterm_herm_flag_sound. Qed.
Print Assumptions C15_field_term_hermitian_flag_sound.

(** FieldOperator.is_hermitian: True only when every term says so *)
Theorem C15_field_operator_hermitian_flag_sound :
  forall (K : Scalar) (L : ScalarLaws K) keq n (ts : list (fterm K)),
    (forall a b : K, keq a b = true -> a = b) ->
    forallb (fterm_herm_flag keq n) ts = true -> hermitian n (fop_matrix n ts).
Proof.
  intros K L keq n ts Hk H. apply hermitian_fop. apply Forall_forall. intros t Ht.
  rewrite forallb_forall in H. apply (fterm_herm_flag_sound keq); [exact Hk|apply H; exact Ht].
Qed.
Print Assumptions C15_field_operator_hermitian_flag_sound.

(* ------------------------------------------------------------------ 6. Fermi-Hubbard *)
(** coefficient tensors: kinetic = -t adj (inside each layer when spinful), interaction = u on
    [i,i,j,j] for the scanned edges (spinless) resp. on [p,p,p+h,p+h] (spinful), 0 elsewhere *)
Theorem C15_hubbard_coefficient_tensors :
  forall (K : Scalar) (L : ScalarLaws K) adj (t u : K),
    (forall n i j, gen_hub_kin n adj t false [i; j] = smul (sopp t) (kadj adj i j)) /\
    (forall h s s' p q, p < h -> q < h ->
       gen_hub_kin (2 * h) adj t true [s * h + p; s' * h + q]
       = if Nat.eqb s s' then smul (sopp t) (kadj adj p q) else s0) /\
    (forall n idx, gen_hub_int n adj u false idx
       = if existsb (fun e => idx_eqb idx [fst e; fst e; snd e; snd e]) (edges n adj) then u else s0) /\
    (forall n idx, gen_hub_int n adj u true idx
       = if existsb (fun p => idx_eqb idx [p; p; p + n / 2; p + n / 2]) (seq 0 (n / 2)) then u else s0).
Proof.
  intros K L adj t u. split; [|split; [|split]]; intros.
  - rewrite gen_hub_kin_is_model. apply hub_kin_spinless_closed.
  - rewrite gen_hub_kin_is_model. apply hub_kin_spinful_closed; assumption.
  - rewrite gen_hub_int_is_model. apply hub_int_spinless_closed.
  - rewrite gen_hub_int_is_model. apply hub_int_spinful_closed.
Qed.
Print Assumptions C15_hubbard_coefficient_tensors.

(** spinless: H = -t sum_{edges} (c_i a_j + c_j a_i) + u sum_{edges} n_i n_j *)
Theorem C15_hubbard_spinless_matrix :
  forall (K : Scalar) (L : ScalarLaws K) n adj (t u : K) r c,
    (forall i j, adj i j = adj j i) -> (forall i, adj i i = false) ->
    fop_matrix n (gen_hub_fop n adj t u false) r c
    = sadd (smul (sopp t) (lsum (map (fun e => sadd (hop n (fst e) (snd e) r c) (hop n (snd e) (fst e) r c)) (edges n adj))))
           (smul u (lsum (map (fun e => dens2 n (fst e) (snd e) r c) (edges n adj)))).
Proof. intros. rewrite gen_hub_is_model. apply hubbard_spinless_matrix_edges; assumption. Qed.
Print Assumptions C15_hubbard_spinless_matrix.

(** spinful on 2h sites (layer s, base site p) = site s*h + p: the same hopping inside each layer,
    u n_p n_{p+h} (same site, opposite spin) *)
Theorem C15_hubbard_spinful_matrix :
  forall (K : Scalar) (L : ScalarLaws K) h adj (t u : K) r c,
    (forall i j, adj i j = adj j i) -> (forall i, adj i i = false) ->
    fop_matrix (2 * h) (gen_hub_fop (2 * h) adj t u true) r c
    = sadd (smul (sopp t)
             (sadd (lsum (map (fun e => sadd (hop (2 * h) (fst e) (snd e) r c) (hop (2 * h) (snd e) (fst e) r c)) (edges h adj)))
                   (lsum (map (fun e => sadd (hop (2 * h) (h + fst e) (h + snd e) r c)
                                             (hop (2 * h) (h + snd e) (h + fst e) r c)) (edges h adj)))))
           (smul u (lsum (map (fun p => dens2 (2 * h) p (p + h) r c) (seq 0 h)))).
Proof. intros. rewrite gen_hub_is_model. apply hubbard_spinful_matrix_edges; assumption. Qed.
Print Assumptions C15_hubbard_spinful_matrix.

(** n_i n_j is the diagonal matrix with entry b_i b_j *)
Theorem C15_density_density_is_diagonal :
  forall (K : Scalar) (L : ScalarLaws K) n i j r c, length r = n -> length c = n -> i < n -> j < n ->
    dens2 (K:=K) n i j r c = if beq r c then (if nth i c false && nth j c false then s1 else s0) else s0.
Proof. intros K L. apply dens2_entry. Qed.
Print Assumptions C15_density_density_is_diagonal.

Theorem C15_hubbard_hermitian_flag_sound :
  forall (K : Scalar) (L : ScalarLaws K) adj (t u : K),
    gen_hub_is_hermitian = true ->
    sconj t = t -> sconj u = u ->                    (* constructor: isinstance(x, float) *)
    (forall i j, adj i j = adj j i) ->                (* C14 *)
    (forall n, hermitian n (fop_matrix n (gen_hub_fop n adj t u false))) /\
    (forall h, hermitian (2 * h) (fop_matrix (2 * h) (gen_hub_fop (2 * h) adj t u true))).
Proof.
  intros K L adj t u _ Ht Hu Sym. split; intros; rewrite gen_hub_is_model.
  - apply hubbard_spinless_hermitian; assumption.
  - apply hubbard_spinful_hermitian; assumption.
Qed.
Print Assumptions C15_hubbard_hermitian_flag_sound.

(** particle number: H has no matrix element between different occupation counts, hence
    [H, N] = 0 for N = diag(popcount) = sum_i c_i a_i; any n, any adjacency, spinless and spinful *)
Theorem C15_hubbard_conserves_particle_number :
  forall (K : Scalar) (L : ScalarLaws K) n adj (t u : K) spin,
    (forall r c, length r = n -> length c = n -> popcount r <> popcount c ->
       fop_matrix n (gen_hub_fop n adj t u spin) r c = s0) /\
    meq n (mmul n (fop_matrix n (gen_hub_fop n adj t u spin)) Nmat)
          (mmul n Nmat (fop_matrix n (gen_hub_fop n adj t u spin))) /\
    (forall r c, length r = n -> length c = n ->
       lsum (map (fun i => opstring n [(OC, i); (OA, i)] r c) (seq 0 n)) = Nmat (K:=K) r c).
Proof.
  intros K L n adj t u spin. rewrite gen_hub_is_model. split; [|split].
  - intros. apply hubbard_number_selection; assumption.
  - apply hubbard_commutes_N.
  - intros. apply number_operator_diag; assumption.
Qed.
Print Assumptions C15_hubbard_conserves_particle_number.

(* ------------------------------------------------------------------ 7. molecular Hamiltonian *)
(** H = c + sum t_ij a+_i a_j + 1/2 sum v_ijkl a+_i a+_j a_l a_k   (physicists' convention: the
    (0,1,3,2) transposition puts l before k); [half] is the code's 0.5 *)
Theorem C15_molecular_matrix :
  forall (K : Scalar) (L : ScalarLaws K) n (half : K) (H : molham K) r c,
    fop_matrix n (gen_mol_fop half H) r c
    = sadd (sadd (smul (m_c H) (mid r c))
                 (sum2 n (fun i j => smul (m_t H [i; j]) (opstring n [(OC, i); (OA, j)] r c))))
           (sum4 n (fun i j k l => smul (smul half (m_v H [i; j; k; l]))
                                        (opstring n [(OC, i); (OC, j); (OA, l); (OA, k)] r c))).
Proof. intros. rewrite gen_mol_fop_is_model. apply molecular_matrix. Qed.
Print Assumptions C15_molecular_matrix.

(** what an accepted constructor call guarantees (exact version of the allclose checks) *)
Theorem C15_molecular_constructor_rule :
  forall (K : Scalar) (L : ScalarLaws K) keq n nsites (c : K) creal tk vi herm varch,
    (forall a b : K, keq a b = true <-> a = b) ->
    match gen_mol_ctor keq n nsites c creal tk vi herm varch with
    | Some H => nsites = n /\ m_c H = c /\ m_herm H = herm /\ m_varch H = varch
                /\ (herm = true -> creal = true
                    /\ (forall i j, i < n -> j < n -> tk [i; j] = sconj (tk [j; i]))
                    /\ (forall i j k l, i < n -> j < n -> k < n -> l < n ->
                          vi [i; j; k; l] = sconj (vi [k; l; i; j])))
                /\ (varch = true ->
                    forall i j k l, i < n -> j < n -> k < n -> l < n -> vi [i; j; k; l] = vi [j; i; l; k])
    | None => True
    end.
Proof. intros K L keq n nsites c creal tk vi herm varch Hk. rewrite gen_mol_ctor_is_model. apply mol_ctor_spec. exact Hk. Qed.
Print Assumptions C15_molecular_constructor_rule.

(** an accepted constructor call stores exactly what it was given: together with
    C15_molecular_matrix this makes the matrix the stated sum over the INPUT c, tkin, vint
    (C15_molecular_matrix alone speaks about the stored fields m_c, m_t, m_v) *)
Theorem C15_molecular_constructor_stores_inputs :
  forall (K : Scalar) keq n nsites (c : K) creal tk vi herm varch H,
    gen_mol_ctor keq n nsites c creal tk vi herm varch = Some H ->
    m_c H = c /\ m_t H = tk /\ m_v H = vi /\ m_herm H = herm /\ m_varch H = varch.
Proof.
  intros K keq n nsites c creal tk vi herm varch H. rewrite gen_mol_ctor_is_model. unfold mol_ctor.
  repeat match goal with |- context [if ?b then _ else _] => destruct b end; try discriminate.
  intros E; injection E as <-. cbn. repeat split; reflexivity.
Qed.
Print Assumptions C15_molecular_constructor_stores_inputs.

Theorem C15_molecular_hermitian_flag_sound :
  forall (K : Scalar) (L : ScalarLaws K) keq n nsites (half c : K) creal tk vi herm varch H,
    (forall a b : K, keq a b = true -> a = b) ->
    (creal = true -> sconj c = c) ->       (* isinstance(c, (int, float)) means c is real *)
    sconj half = half ->
    gen_mol_ctor keq n nsites c creal tk vi herm varch = Some H ->
    gen_mol_is_hermitian H = true ->
    hermitian n (fop_matrix n (gen_mol_fop half H)).
Proof.
  intros K L keq n nsites half c creal tk vi herm varch H Hk Hc Hh Hctor Hflag.
  rewrite gen_mol_fop_is_model. rewrite gen_mol_ctor_is_model in Hctor.
  eapply molecular_hermitian; eauto.
Qed.
Print Assumptions C15_molecular_hermitian_flag_sound.

Theorem C15_molecular_conserves_particle_number :
  forall (K : Scalar) (L : ScalarLaws K) n (half : K) (H : molham K) r c,
    length r = n -> length c = n -> popcount r <> popcount c ->
    fop_matrix n (gen_mol_fop half H) r c = s0.
Proof. intros. rewrite gen_mol_fop_is_model. apply molecular_number_selection; assumption. Qed.
Print Assumptions C15_molecular_conserves_particle_number.

(* ------------------------------------------------------------------ non-vacuity *)
(** a 4-site ring with one chord over the Gaussian integers: the hypotheses (symmetric,
    irreflexive adjacency; real couplings) hold, the edge list is the expected one, and the
    generated Ising operator evaluates to the stated sum; the generated Hubbard operator on the
    2-site lattice evaluates (through FieldOperator.as_matrix's sum over all multi-indices) to the
    monomial-map form of -t sum c_i a_j + u sum n_i n_j *)
Example C15_instance :
  let mk := fun (l : list (nat * nat)) i j =>
              existsb (fun e => (Nat.eqb (fst e) i && Nat.eqb (snd e) j) || (Nat.eqb (fst e) j && Nat.eqb (snd e) i)) l in
  let adj := mk [(0, 1); (1, 2); (2, 3); (0, 3); (0, 2)] in
  let adj2 := mk [(0, 1)] in
  let J : ZI := (3, 0)%Z in let h : ZI := (-2, 0)%Z in let g : ZI := (5, 0)%Z in
  edges 4 adj = [(0, 1); (0, 2); (0, 3); (1, 2); (2, 3)] /\
  (forall i j, i < 4 -> j < 4 -> adj i j = adj j i) /\
  dense 4 (opmatrix (gen_ising_ops 4 adj J h g false)) = dense 4 (ising_spec 4 adj J h g false) /\
  dense 2 (fop_matrix 2 (gen_hub_fop 2 adj2 J h false))
  = dense 2 (fun r c => sadd (sparse_term_entry [OC; OA] (map (fun e => ([fst e; snd e], sopp J)) (dpairs 2 adj2)) r c)
                             (sparse_term_entry [OC; OA; OC; OA] (map (fun e => ([fst e; fst e; snd e; snd e], h)) (edges 2 adj2)) r c)).
Proof.
  cbv zeta. split; [vm_compute; reflexivity|]. split.
  - intros i j Hi Hj.
    do 4 (destruct i as [|i]; [do 4 (destruct j as [|j]; [reflexivity|]); lia|]); lia.
  - split; vm_compute; reflexivity.
Qed.
