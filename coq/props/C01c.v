(** C01 (composite gates) - every gate reports a unitary matrix of size 2^num_wires, for
    composite gates nested to any depth.  Property theorems only.
    [Run.GenGatesComp] is regenerated from /repo/src/qib/operator/gates.py and
    .../vqe/ansatz/ansatz.py on every run (gen/gates_comp.py): the control-index loop body,
    the kron/diag placement expression, block_diag, the three np.block layouts, the argument
    of sqrtm and of expm, the PrepareGate sign/flip/transpose logic, the GeneralGate tests and
    the MultiplexedGate constructor guards are what the code says NOW.  The recursion over
    the gate tree (a composite applies its form to the matrices its parts report) is the
    hand-written model Qib.Gates.CompModel, tied by the correspondence run. *)
From Qib Require Import Gates.CompProofs Gates.CompCheck Base.Inst.
From Coq Require Import QArith.
Close Scope Q_scope.
From Run Require Import GenGatesComp.

Section C01c.
  Context {K : Scalar} {L : ScalarLaws K}.
  Local Open Scope K_scope.
  Add Ring KringC01c : (s_ring K L).

  (** ---- bridge: the model's clauses are the generated expressions ---------------------- *)
  Lemma gen_ctrl_step_model a b c d : gen_ctrl_step a b c d = ctrl_step a b c d.
  Proof.
    unfold gen_ctrl_step, ctrl_step.
    first [ reflexivity
          | destruct (Z.eqb b 1); [|reflexivity]; f_equal; f_equal; lia ].
  Qed.

  (** ControlledGate.as_matrix as the code computes it *)
  Definition code_ctrl_index (pat : list bool) : nat :=
    Z.to_nat (ctrl_loop gen_ctrl_step gen_ctrl_init (length pat) pat).
  Definition code_ctrl_mat (pat : list bool) (U : BMx K) : BMx K :=
    gen_ctrl_mat (length pat) (onehot (code_ctrl_index pat)) U.

  Lemma code_ctrl_index_model pat : code_ctrl_index pat = ctrl_index pat.
  Proof.
    unfold code_ctrl_index, ctrl_index.
    replace (ctrl_loop gen_ctrl_step gen_ctrl_init (length pat) pat)
      with (ctrl_loop ctrl_step 0%Z (length pat) pat); [reflexivity|].
    symmetry. change gen_ctrl_init with 0%Z. apply ctrl_loop_ext. exact gen_ctrl_step_model.
  Qed.

  Lemma code_ctrl_mat_model pat (U : BMx K) r c : code_ctrl_mat pat U r c = ctrl_mat pat U r c.
  Proof.
    unfold code_ctrl_mat, ctrl_mat, ctrl_mat_at, gen_ctrl_mat. rewrite code_ctrl_index_model.
    first [ reflexivity | unfold madd, kron, mdiag, vcompl, onehot, mid; ring ].
  Qed.

  Lemma gen_mux_mat_model nc (ms : list (BMx K)) r c : gen_mux_mat nc ms r c = block_diag nc ms r c.
  Proof. reflexivity. Qed.

  Lemma gen_benc_mat_model m (H Sq : BMx K) r c : gen_benc_mat m H Sq r c = benc_mat m H Sq r c.
  Proof.
    destruct m; unfold gen_benc_mat, benc_mat;
      first [ reflexivity
            | destruct r as [|rb r], c as [|cb c]; cbn [block2]; try reflexivity;
              destruct rb, cb; unfold mscal, mopp; ring ].
  Qed.

  Lemma gen_tevo_arg_model t (H : BMx K) r c : gen_tevo_arg t H r c = tevo_arg t H r c.
  Proof. unfold gen_tevo_arg, tevo_arg, mscal. first [ reflexivity | ring ]. Qed.

  Lemma gen_qucc_arg_model (T : BMx K) r c : gen_qucc_arg T r c = qucc_arg T r c.
  Proof. unfold gen_qucc_arg, qucc_arg, msub, madj. first [ reflexivity | ring ]. Qed.

  Lemma gen_prep_mat_model (Q0 : BMx K) flip tr r c : gen_prep_mat Q0 flip tr r c = prep_mat Q0 flip tr r c.
  Proof. unfold gen_prep_mat, prep_mat. destruct flip, tr; reflexivity. Qed.

  Lemma meq_of_pointwise n (A B : BMx K) : (forall r c, A r c = B r c) -> meq n A B.
  Proof. intros H r c _ _. apply H. Qed.
End C01c.

(** 0. clause by clause, the model used below is the code *)
Theorem C01c_model_clauses_are_code :
  forall (K : Scalar) (L : ScalarLaws K),
    (forall pat (U : BMx K) r c, code_ctrl_mat pat U r c = ctrl_mat pat U r c)
    /\ (forall nc (ms : list (BMx K)) r c, gen_mux_mat nc ms r c = block_diag nc ms r c)
    /\ (forall m (H Sq : BMx K) r c, gen_benc_mat m H Sq r c = benc_mat m H Sq r c)
    /\ (forall t (H : BMx K) r c, gen_tevo_arg t H r c = tevo_arg t H r c)
    /\ (forall (Q0 : BMx K) flip tr r c, gen_prep_mat Q0 flip tr r c = prep_mat Q0 flip tr r c)
    /\ (forall tnw nc, gen_ctrl_num_wires (Z.of_nat tnw) (Z.of_nat nc) = Z.of_nat (nc + tnw))
    /\ (forall tnw nc, gen_mux_num_wires (Z.of_nat tnw) (Z.of_nat nc) = Z.of_nat (nc + tnw))
    /\ (forall m, gen_benc_num_aux m = 1%nat).
Proof.
  intros K L.
  split; [intros; apply code_ctrl_mat_model|].
  split; [intros; apply gen_mux_mat_model|].
  split; [intros; apply gen_benc_mat_model|].
  split; [intros; apply gen_tevo_arg_model|].
  split; [intros; apply gen_prep_mat_model|].
  split; [intros; unfold gen_ctrl_num_wires; lia|].
  split; [intros; unfold gen_mux_num_wires; lia|].
  intros m; destruct m; reflexivity.
Qed.
Print Assumptions C01c_model_clauses_are_code.

(** 1. the integer the control loop computes is the control pattern read most significant
       control first, for every number of controls *)
Theorem C01c_control_index_is_pattern_msb_first :
  forall pat : list bool, code_ctrl_index pat = b2n pat.
Proof. intros. rewrite code_ctrl_index_model. apply ctrl_index_b2n. Qed.
Print Assumptions C01c_control_index_is_pattern_msb_first.

(** 2. a controlled unitary is unitary: every pattern, every number of controls/targets *)
Theorem C01c_controlled_unitary :
  forall (K : Scalar) (L : ScalarLaws K) pat nt (U : BMx K),
    unitary nt U -> unitary (length pat + nt) (code_ctrl_mat pat U).
Proof.
  intros. eapply unitary_meq; [apply meq_of_pointwise; intros; symmetry; apply code_ctrl_mat_model|].
  apply ctrl_mat_unitary. assumption.
Qed.
Print Assumptions C01c_controlled_unitary.

(** 3. a multiplexer of 2^nc unitaries on nt wires is unitary on nc + nt wires *)
Theorem C01c_multiplexed_unitary :
  forall (K : Scalar) (L : ScalarLaws K) nc nt (ms : list (BMx K)),
    length ms = 2 ^ nc -> Forall (unitary nt) ms -> unitary (nc + nt) (gen_mux_mat nc ms).
Proof. intros. apply block_diag_unitary; assumption. Qed.
Print Assumptions C01c_multiplexed_unitary.

(** 4. the MultiplexedGate constructor refuses everything else (this is the statement that
       fails to compile when the guard does not raise: `assert ValueError(...)`) *)
Theorem C01c_multiplexed_ctor_rule :
  forall (ntargets ncontrols : nat) (same_wires : bool),
    gen_mux_ctor_refuses (Z.of_nat ntargets) (Z.of_nat ncontrols) same_wires = false ->
    ntargets = 2 ^ ncontrols /\ same_wires = true.
Proof.
  intros nt nc sw H. unfold gen_mux_ctor_refuses in H.
  apply orb_false_iff in H. destruct H as [H1 H2].
  apply negb_false_iff in H1, H2. apply Z.eqb_eq in H1. split; [|exact H2].
  apply Nat2Z.inj. rewrite H1, Nat2Z.inj_pow. reflexivity.
Qed.
Print Assumptions C01c_multiplexed_ctor_rule.

(** 5. the three block-encoding layouts are unitary when S = sqrtm(1 - H H) is a Hermitian
       square root commuting with H (trusted meaning of scipy.linalg.sqrtm for ||H|| <= 1) *)
Theorem C01c_block_encoding_unitary :
  forall (K : Scalar) (L : ScalarLaws K) m n (H Sq : BMx K),
    hermitian n H -> hermitian n Sq -> meq n (mmul n H Sq) (mmul n Sq H) ->
    meq n (mmul n Sq Sq) (gen_benc_sqrtm_arg n H) ->
    unitary (Datatypes.S n) (gen_benc_mat m H Sq).
Proof.
  intros K L m n H Sq HH HS Hc Hsq.
  eapply unitary_meq; [apply meq_of_pointwise; intros; symmetry; apply gen_benc_mat_model|].
  apply benc_mat_unitary. constructor; try assumption.
  intros r c Hr Hc0. unfold madd. rewrite (Hsq r c Hr Hc0).
  unfold gen_benc_sqrtm_arg, msub.
  pose proof (s_ring K L) as R. destruct R. rewrite Rsub_def, Radd_assoc, (Radd_comm (mmul n H H r c)).
  rewrite <- Radd_assoc, Ropp_def, Radd_comm, Radd_0_l. reflexivity.
Qed.
Print Assumptions C01c_block_encoding_unitary.

(** 6. the argument handed to expm is anti-Hermitian (TimeEvolutionGate: H Hermitian, t real;
       qUCC: any T).  Background, not proved here: exp of an anti-Hermitian matrix is unitary,
       and a product of unitaries is unitary (the 'sd' branch of qUCC). *)
Theorem C01c_expm_argument_antihermitian :
  forall (K : Scalar) (L : ScalarLaws K) n t (H T : BMx K),
    (hermitian n H -> sconj t = t -> antiherm n (gen_tevo_arg t H))
    /\ antiherm n (gen_qucc_arg T)
    /\ gen_qucc_returns_products_of_expm = true.
Proof.
  intros K L n t H T. split; [|split; [|reflexivity]].
  - intros HH Ht r c Hr Hc. unfold madj, mopp. rewrite !gen_tevo_arg_model.
    apply (tevo_arg_antiherm n t H HH Ht r c Hr Hc).
  - intros r c Hr Hc. unfold madj, mopp. rewrite !gen_qucc_arg_model.
    apply (qucc_arg_antiherm n T r c Hr Hc).
Qed.
Print Assumptions C01c_expm_argument_antihermitian.

Theorem C01c_unitary_product :
  forall (K : Scalar) (L : ScalarLaws K) n (U V : BMx K),
    unitary n U -> unitary n V -> unitary n (mmul n U V).
Proof. intros. apply unitary_mmul; assumption. Qed.
Print Assumptions C01c_unitary_product.

(** 7. PrepareGate: x = sign(v) sqrt|v| has unit 2-norm when v is 1-norm normalised; negating
       a column of / transposing a real orthogonal matrix keeps it orthogonal, so the reported
       matrix is unitary when np.linalg.qr returns a real orthogonal Q0 *)
Theorem C01c_prepare_vector_unit_norm :
  forall (K : Scalar) (L : ScalarLaws K) n (sg a w : bits -> K),
    (forall r, length r = n -> smul (a r) (a r) = w r) ->
    (forall r, length r = n -> smul (smul (sg r) (sg r)) (w r) = w r) ->
    bsum n w = s1 ->
    bsum n (fun r => smul (gen_prep_x sg a r) (gen_prep_x sg a r)) = s1.
Proof. intros K L n sg a w Ha Hs Hw. unfold gen_prep_x. apply (prep_vec_unit_norm n sg a w Ha Hs Hw). Qed.
Print Assumptions C01c_prepare_vector_unit_norm.

Theorem C01c_prepare_unitary :
  forall (K : Scalar) (L : ScalarLaws K) n (Q0 : BMx K) flip tr,
    real_orth n Q0 -> unitary n (gen_prep_mat Q0 flip tr).
Proof.
  intros. eapply unitary_meq; [apply meq_of_pointwise; intros; symmetry; apply gen_prep_mat_model|].
  apply prep_mat_unitary. assumption.
Qed.
Print Assumptions C01c_prepare_unitary.

(** 8. GeneralGate: accepted => right shape and np.allclose(M M^dagger, I) entry by entry, for
       the closeness test [close a b] (numpy: |a - b| <= 1e-8 + 1e-5 |b|, see
       Qib.Gates.CompCheck.np_close); with an exact test the matrix is exactly unitary *)
Theorem C01c_general_ctor_rule :
  forall (K : Scalar) (L : ScalarLaws K) (close : K -> K -> bool) n rows,
    general_accept close n rows
      = (shape_ok n rows && allclose close n (fst (gen_general_unitary_test n (mxl rows)))
                                             (snd (gen_general_unitary_test n (mxl rows))))%bool
    /\ (general_accept close n rows = true ->
        length rows = 2 ^ n /\ Forall (fun row => length row = 2 ^ n) rows /\
        forall r c, length r = n -> length c = n ->
          close (mmul n (mxl rows) (madj (mxl rows)) r c) (mid r c) = true).
Proof. intros. split; [reflexivity|apply general_accept_spec]. Qed.
Print Assumptions C01c_general_ctor_rule.

(** 8b. the same with numpy's default tolerances spelled out, over exact Gaussian rationals
        (np_rtol, np_atol are the binary64 values of 1e-05 and 1e-08; the correspondence run
        checks them against inspect.signature(np.allclose)): every entry of M M^dagger is
        within atol + rtol*|delta_rc| of the identity *)
Theorem C01c_general_ctor_rule_numpy_tolerance :
  forall n (rows : list (list QI)),
    general_accept np_close n rows = true ->
    forall r c, length r = n -> length c = n ->
      let d := ssub (mmul n (mxl rows) (madj (mxl rows)) r c) (mid r c) in
      let t := Qred (np_atol + np_rtol * q_abs1 (mid (K:=QI) r c)) in
      (q_abs2 d <= Qred (t * t))%Q.
Proof.
  intros n rows H r c Hr Hc d t. apply Qle_bool_iff.
  apply (general_accept_spec np_close n rows H); assumption.
Qed.
Print Assumptions C01c_general_ctor_rule_numpy_tolerance.

(** 9. MAIN: composite gates nested to ANY depth are unitary and have 2^num_wires rows.
       [wf] asks of the parts exactly: leaves unitary; a multiplexer has 2^ncontrols targets of
       equal wire count (what the repaired constructor enforces); sqrtm/qr/expm results satisfy
       their modelled specifications.  is_expm n A E reads "E = scipy.linalg.expm(A)". *)
Theorem C01c_composite_unitary_any_depth :
  forall (K : Scalar) (L : ScalarLaws K) (is_expm : nat -> BMx K -> BMx K -> Prop),
    (forall n A E, is_expm n A E -> antiherm n A -> unitary n E) ->
    forall g : cgate K, wf is_expm g ->
      unitary (num_wires g) (matrix g) /\ shape g = 2 ^ num_wires g.
Proof.
  intros K L is_expm Hexp g W. split.
  - apply (matrix_unitary is_expm Hexp g W).
  - apply (shape_wires is_expm g W).
Qed.
Print Assumptions C01c_composite_unitary_any_depth.

(** the guard is needed: what the unrepaired constructor lets through has the wrong size *)
Example C01c_three_target_multiplexer_has_wrong_size :
  let X := Leaf (K:=ZI) 1 (mxl (K:=ZI) [[(0,0);(1,0)];[(1,0);(0,0)]]%Z) (mxl (K:=ZI) [[(0,0);(1,0)];[(1,0);(0,0)]]%Z) true [] in
  shape (Mux 1 [] [X; X; X]) = 6 /\ 2 ^ num_wires (Mux 1 [] [X; X; X]) = 4.
Proof. vm_compute. split; reflexivity. Qed.

(** non-vacuity: a nested tree over the Gaussian integers that satisfies [wf]:
    control pattern [1,0] on a multiplexer of {X, controlled-Y}, next to a block encoding of a
    projector; "expm" instantiated by a relation satisfying the background hypotheses *)
Section Instance.
  Local Open Scope Z_scope.
  Definition zX : BMx ZI := mxl (K:=ZI) [[(0,0);(1,0)];[(1,0);(0,0)]].
  Definition zY : BMx ZI := mxl (K:=ZI) [[(0,0);(0,-1)];[(0,1);(0,0)]].
  Definition zI2 : BMx ZI := mxl (K:=ZI) [[(1,0);(0,0)];[(0,0);(1,0)]].
  Definition zP : BMx ZI := mxl (K:=ZI) [[(1,0);(0,0)];[(0,0);(0,0)]].
  Definition zQ : BMx ZI := mxl (K:=ZI) [[(0,0);(0,0)];[(0,0);(1,0)]].
  Definition zXX : BMx ZI := kron 1 zX zI2.
End Instance.

Lemma bits1 (r : list bool) : length r = 1%nat -> r = [false] \/ r = [true].
Proof. destruct r as [|[] [|]]; cbn; intros H; try discriminate; auto. Qed.
Lemma bits2 (r : list bool) : length r = 2%nat ->
  r = [false;false] \/ r = [false;true] \/ r = [true;false] \/ r = [true;true].
Proof. destruct r as [|[] [|[] [|]]]; cbn; intros H; try discriminate; auto. Qed.

Ltac all1 := intros r c Hr Hc; destruct (bits1 r Hr) as [-> | ->]; destruct (bits1 c Hc) as [-> | ->]; vm_compute; reflexivity.
Ltac all2 := intros r c Hr Hc;
  destruct (bits2 r Hr) as [-> | [-> | [-> | ->]]]; destruct (bits2 c Hc) as [-> | [-> | [-> | ->]]];
  vm_compute; reflexivity.

Local Existing Instance ZI_laws.

Example C01c_instance :
  let triv_expm := fun n (A E : BMx ZI) => meq n E mid in
  let m := Mux 1 [2]%nat [Leaf 2 zXX zXX true [3; 4]%nat;
                          Ctrl [true] [3]%nat (Leaf 1 zY zY true [4]%nat)] in
  let g := Ctrl [true; false] [0; 1]%nat m in
  let b := BEnc Wx 1 zP zQ [5]%nat [6]%nat in
  (forall n A E, triv_expm n A E -> antiherm n A -> unitary n E)
  /\ wf triv_expm g /\ wf triv_expm b /\ num_wires g = 5%nat /\ shape g = 32%nat
  /\ unitary 5 (matrix g) /\ unitary 2 (matrix b).
Proof.
  intros triv_expm m g b.
  assert (Hexp : forall n A E, triv_expm n A E -> antiherm n A -> unitary n E).
  { intros n A E H _. eapply unitary_meq; [apply meq_sym; exact H|apply unitary_mid]. }
  assert (Wm : wf triv_expm m).
  { apply (proj2 (wf_mux triv_expm 1 [2]%nat _)). split; [reflexivity|].
    constructor; [|constructor; [|constructor]].
    - split; [|reflexivity]. split; [split; all2|]. split; [all2|]. intros _. all2.
    - split; [|reflexivity]. split; [split; all1|]. split; [all1|]. intros _. all1. }
  assert (Wg : wf triv_expm g) by exact Wm.
  assert (Wb : wf triv_expm b).
  { split; [all1|]. split; [all1|]. split; all1. }
  split; [exact Hexp|]. split; [exact Wg|]. split; [exact Wb|].
  split; [reflexivity|]. split; [reflexivity|]. split.
  - apply (matrix_unitary triv_expm Hexp g Wg).
  - apply (matrix_unitary triv_expm Hexp b Wb).
Qed.
