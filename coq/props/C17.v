(** C17 - experiment lifecycle is monotone; transport retries are bounded.
    Property theorems only.  [Run.GenLife] is regenerated from /repo on every run by gen/backend.py
    (status-string chain, is_terminal list, guards/conditions of query_status, from_json, results,
    wait_for_results and _process_response, retry-loop bound/comparison/increment/final test), so
    the statements below are about the tables the code contains now.  The control skeleton of the
    model (Qib.Backend.LifeModel) is tied to the code by the correspondence run of checks/C17.py.

    Histories: the server and the network are an arbitrary finite list [outs] of transport outcomes
    (one per call of requests.put/post: a reply with any status string, a timeout, an HTTP error,
    another request error, a connection error); the client is an arbitrary finite list of events
    Submit | Query | Results | Await | AwaitBegin | AwaitResume.  wait_for_results is a coroutine:
    AwaitBegin runs it to its first await point, AwaitResume from one await point to the next, and
    any other event may be scheduled in between; each such piece is atomic (no other code of the
    process runs inside it), which is why the same theorems cover the asynchronous wait. *)
From Qib Require Import Backend.LifeModel Backend.LifeProofs.
From Run Require Import GenLife.
Local Open Scope Z_scope.

Lemma gen_status_spec s : gen_from_wmi_status s = spec_status s.
Proof.
  unfold gen_from_wmi_status, spec_status, c_pending, c_active, c_finished, c_cancelled, c_offline.
  repeat match goal with |- context [str_eqb s ?c] => destruct (str_eqb s c) eqn:? end;
    try reflexivity;
    exfalso; repeat match goal with H : str_eqb _ _ = true |- _ => apply str_eqb_eq in H end; congruence.
Qed.

Lemma gen_term_spec s : gen_is_terminal s = spec_terminal s.
Proof. destruct s; reflexivity. Qed.

Ltac zbool :=
  intros; cbv beta iota delta [gen_retry_cond gen_retry_final gen_retry_incr gen_retry_init gen_max_retries
                          tb_cond tb_final tb_incr tb_init gen_tables];
  try (apply Bool.eq_iff_eq_true; rewrite ?Z.leb_le, ?Z.ltb_lt, ?Z.geb_le, ?Z.gtb_lt, ?negb_true_iff,
         ?Z.leb_gt, ?Z.ltb_ge); lia.

Lemma gen_tables_ok : tables_ok gen_tables gen_max_retries.
Proof.
  split.
  - reflexivity.
  - exact gen_status_spec.
  - intros []; reflexivity.
  - intros []; reflexivity.
  - intros []; reflexivity.
  - intros []; reflexivity.
  - intros [] []; reflexivity.
  - intros []; reflexivity.
  - intros [] []; reflexivity.
  - intros []; reflexivity.
  - intros []; reflexivity.
  - unfold gen_max_retries. lia.
  - reflexivity.
  - zbool.
  - zbool.
  - zbool.
Qed.

(** 1. every reply is mapped to the documented status; anything unknown becomes ERROR *)
Theorem C17_status_mapping :
  gen_from_wmi_status c_pending = QUEUED /\ gen_from_wmi_status c_active = RUNNING /\
  gen_from_wmi_status c_finished = DONE /\ gen_from_wmi_status c_cancelled = CANCELLED /\
  gen_from_wmi_status c_offline = ERROR /\
  (forall s, s <> c_pending -> s <> c_active -> s <> c_finished -> s <> c_cancelled ->
             gen_from_wmi_status s = ERROR) /\
  (forall s, gen_from_wmi_status s <> INITIALIZING).
Proof.
  repeat split; try reflexivity.
  - intros s. rewrite gen_status_spec. apply spec_status_table.
  - intros s. rewrite gen_status_spec. apply spec_status_not_init.
Qed.
Print Assumptions C17_status_mapping.

(** ... and after any client script against any server/network behaviour the experiment's status is
    the image of the last reply it processed (INITIALIZING if there was none), its job id is that
    reply's job id *)
Theorem C17_status_follows_last_reply :
  forall evs outs tr sf rest, run gen_tables (init_st gen_tables) evs outs = (tr, sf, rest) ->
    s_status sf = match s_last sf with None => INITIALIZING | Some r => gen_from_wmi_status (r_status r) end
    /\ s_job sf = option_map r_job (s_last sf).
Proof.
  intros evs outs tr sf rest E.
  assert (HI : Inv gen_tables sf) by (eapply (run_inv gen_tables _ gen_tables_ok); [apply (inv_init gen_tables _ gen_tables_ok)|exact E]).
  split; [|apply (inv_job gen_tables sf HI)].
  rewrite (inv_status gen_tables sf HI). destruct (s_last sf); [rewrite gen_status_spec|]; reflexivity.
Qed.
Print Assumptions C17_status_follows_last_reply.

(** 2. terminal statuses are absorbing and silent: from a state whose status is DONE, ERROR or
    CANCELLED no client script changes status, results or job id, no request is issued (the request
    log keeps its length in every trace entry) and no server/network outcome is consumed *)
Theorem C17_terminal_absorbing_no_contact :
  forall evs s outs tr sf rest,
    gen_is_terminal (s_status s) = true -> run gen_tables s evs outs = (tr, sf, rest) ->
    rest = outs /\ s_status sf = s_status s /\ s_log sf = s_log s /\ s_results sf = s_results s /\
    Forall (fun en : tentry => snd (fst en) = s_status s /\ snd en = length (s_log s)) tr.
Proof.
  intros evs s outs tr sf rest Ht E.
  apply (run_terminal_absorbing gen_tables _ gen_tables_ok evs s outs tr sf rest); [|exact E].
  rewrite <- gen_term_spec. exact Ht.
Qed.
Print Assumptions C17_terminal_absorbing_no_contact.

Theorem C17_terminal_statuses : forall s, gen_is_terminal s = true <-> (s = DONE \/ s = ERROR \/ s = CANCELLED).
Proof. intros []; cbn; intuition discriminate. Qed.
Print Assumptions C17_terminal_statuses.

(** 3. the lifecycle is monotone: INITIALIZING < {QUEUED, RUNNING} < {DONE, ERROR, CANCELLED} along
    every trace, from every state *)
Theorem C17_lifecycle_monotone :
  forall evs s outs tr sf rest, run gen_tables s evs outs = (tr, sf, rest) ->
    sorted_ranks (rank (s_status s)) tr.
Proof. intros evs s outs tr sf rest. apply (run_monotone gen_tables _ gen_tables_ok). Qed.
Print Assumptions C17_lifecycle_monotone.

(** 4. results() / wait_for_results() (run in one piece, or resumed at any await point after any
    interleaved client events) return only in a terminal status; they return the payload of the
    server reply that reported 'finished' when the status is DONE, and None otherwise.
    Guard ([reach_g]): the history in which submit_experiment itself returns an experiment that is
    already DONE (the *submission* was answered 'finished') is excluded - see C17_results_refuted -
    unless the source records the results of a 'finished' reply in from_json, i.e. for the
    reply to the submission as well ([gen_store_fj DONE = true], the code with
    proposed_fixes/C17-results-of-finished-submission.diff): then [reach_g] excludes nothing and the
    statement is the unguarded one (C17_results_exactly_when_done_unguarded). *)
Theorem C17_results_exactly_when_done :
  forall s outs e x s' outs',
    reach_g gen_tables s outs -> step gen_tables s e outs = (OResults x, s', outs') ->
    gen_is_terminal (s_status s') = true /\
    (s_status s' <> DONE -> x = None) /\
    (s_status s' = DONE ->
       exists r, s_last s' = Some r /\ gen_from_wmi_status (r_status r) = DONE /\ x = Some (r_payload r)).
Proof.
  intros s outs e x s' outs' Hr E.
  destruct (results_exactly_when_done gen_tables _ gen_tables_ok _ _ _ _ _ _ Hr E) as [A [B C]].
  split; [rewrite gen_term_spec; exact A|]. split; [exact B|].
  intros Hd. destruct (C Hd) as [r [H1 [H2 H3]]]. exists r. rewrite gen_status_spec. auto.
Qed.
Print Assumptions C17_results_exactly_when_done.

(** what the guard is, spelled out: a state reached from a fresh experiment by any events against
    any outcomes, where no submission returned an experiment that is already DONE *)
Theorem C17_guard_meaning :
  forall evs outs tr sf rest,
    run gen_tables (init_st gen_tables) evs outs = (tr, sf, rest) ->
    (gen_store_fj DONE = true \/ forall st0 n, ~ In (OSubmitted DONE, st0, n) tr) ->
    reach_g gen_tables sf rest.
Proof.
  intros evs outs tr sf rest E Hn.
  exact (proj1 (run_results gen_tables _ gen_tables_ok evs _ _ _ _ _ (reachg_init gen_tables outs) E Hn)).
Qed.
Print Assumptions C17_guard_meaning.

Theorem C17_results_exactly_when_done_unguarded :
  gen_store_fj DONE = true ->
  forall s outs e x s' outs',
    reach gen_tables s outs -> step gen_tables s e outs = (OResults x, s', outs') ->
    gen_is_terminal (s_status s') = true /\
    (s_status s' <> DONE -> x = None) /\
    (s_status s' = DONE ->
       exists r, s_last s' = Some r /\ gen_from_wmi_status (r_status r) = DONE /\ x = Some (r_payload r)).
Proof.
  intros F s outs e x s' outs' Hr. apply C17_results_exactly_when_done.
  apply (reach_g_all gen_tables); [exact F|exact Hr].
Qed.
Print Assumptions C17_results_exactly_when_done_unguarded.

Theorem C17_results_on_traces :
  forall evs outs tr sf rest,
    run gen_tables (init_st gen_tables) evs outs = (tr, sf, rest) ->
    (gen_store_fj DONE = true \/ forall st0 n, ~ In (OSubmitted DONE, st0, n) tr) ->
    Forall (fun en : tentry => forall x, fst (fst en) = OResults x ->
              gen_is_terminal (snd (fst en)) = true /\
              (snd (fst en) <> DONE -> x = None) /\ (snd (fst en) = DONE -> x <> None)) tr.
Proof.
  intros evs outs tr sf rest E Hn.
  destruct (run_results gen_tables _ gen_tables_ok evs _ _ _ _ _ (reachg_init gen_tables outs) E Hn) as [_ H].
  eapply Forall_impl; [|exact H]. cbv beta. intros en Hen x Hx. destruct (Hen x Hx) as [A BC].
  split; [rewrite gen_term_spec; exact A|exact BC].
Qed.
Print Assumptions C17_results_on_traces.

(** unguarded part: a payload is only ever returned in status DONE and is the server's *)
Theorem C17_results_sound :
  forall s outs e x s' outs',
    reach gen_tables s outs -> step gen_tables s e outs = (OResults x, s', outs') ->
    gen_is_terminal (s_status s') = true /\ (s_status s' <> DONE -> x = None) /\
    (forall p, x = Some p -> s_status s' = DONE /\ exists r, s_last s' = Some r /\ r_payload r = p).
Proof.
  intros s outs e x s' outs' Hr E.
  destruct (results_sound gen_tables _ gen_tables_ok _ _ _ _ _ _ Hr E) as [A BC].
  split; [rewrite gen_term_spec; exact A|exact BC].
Qed.
Print Assumptions C17_results_sound.

(** the excluded history is a real defect of the code in which only query_status records results
    ([results_in_query_status_only]: the regenerated tables with exactly that choice): submission
    answered 'finished' => DONE for ever with results() = None and no request that could fetch them.
    With the results recorded in from_json ([results_in_from_json]) the same history returns them. *)
Definition with_store (q fj : status -> bool) : tables :=
  {| tb_initial := tb_initial gen_tables; tb_status := tb_status gen_tables; tb_terminal := tb_terminal gen_tables;
     tb_guard := tb_guard gen_tables; tb_store := q; tb_store_fj := fj;
     tb_fast_b := tb_fast_b gen_tables; tb_tail_b := tb_tail_b gen_tables;
     tb_fast_a := tb_fast_a gen_tables; tb_tail_a := tb_tail_a gen_tables;
     tb_submit_raises := tb_submit_raises gen_tables; tb_init := tb_init gen_tables; tb_cond := tb_cond gen_tables;
     tb_incr := tb_incr gen_tables; tb_final := tb_final gen_tables |}.
Definition results_in_query_status_only := with_store (fun s => status_eqb s DONE) (fun _ => false).
Definition results_in_from_json := with_store (fun _ => false) (fun s => status_eqb s DONE).

Theorem C17_results_refuted :
  exists outs tr sf rest,
    run results_in_query_status_only (init_st results_in_query_status_only) [Submit; Results; Await] outs = (tr, sf, rest) /\
    tr = [(OSubmitted DONE, DONE, 1%nat); (OResults None, DONE, 1%nat); (OResults None, DONE, 1%nat)].
Proof.
  exists [TOk {| r_status := c_finished; r_job := 7; r_payload := 42 |}].
  eexists. eexists. eexists. split; [vm_compute; reflexivity|reflexivity].
Qed.
Print Assumptions C17_results_refuted.

Theorem C17_results_repaired_instance :
  exists tr sf rest,
    run results_in_from_json (init_st results_in_from_json) [Submit; Results; Await]
        [TOk {| r_status := c_finished; r_job := 7; r_payload := 42 |}] = (tr, sf, rest) /\
    tr = [(OSubmitted DONE, DONE, 1%nat); (OResults (Some 42), DONE, 1%nat); (OResults (Some 42), DONE, 1%nat)].
Proof. eexists. eexists. eexists. split; [vm_compute; reflexivity|reflexivity]. Qed.
Print Assumptions C17_results_repaired_instance.

(** 5. querying before submission is refused: no request, nothing consumed, state unchanged *)
Theorem C17_query_before_submission_refused :
  forall evs outs, forallb client_call evs = true ->
    run gen_tables (init_st gen_tables) evs outs =
    (map (fun _ => (ORefused, INITIALIZING, 0%nat)) evs, init_st gen_tables, outs).
Proof. intros evs outs. apply (run_before_submit gen_tables _ gen_tables_ok). Qed.
Print Assumptions C17_query_before_submission_refused.

(** 6. transport: whatever the outcomes, one _http_request makes at most 1 + NW_MAX_RETRIES attempts,
    never returns None, returns the first successful response (all earlier attempts timed out),
    re-attempts only after a timeout, raises at once on any other failure and raises
    "maximum retries" after 1 + NW_MAX_RETRIES timeouts *)
Theorem C17_retries_bounded :
  forall outs res n rest, http_request gen_tables outs = (res, n, rest) ->
    Z.of_nat n <= 1 + gen_max_retries
    /\ res <> TFallOff
    /\ (forall x, res = TRet x ->
          exists k, outs = repeat TTimeout k ++ TOk x :: rest /\ n = S k /\ first_ok outs = Some x)
    /\ (exists k, firstn k outs = repeat TTimeout k /\ (n = k \/ n = S k) /\ outs = firstn n outs ++ rest)
    /\ (res = TRaise XMax -> n = Z.to_nat (1 + gen_max_retries) /\ firstn n outs = repeat TTimeout n)
    /\ (forall x, res = TRaise x -> x <> XMax ->
          exists k o, outs = repeat TTimeout k ++ o :: rest /\ n = S k /\
                      match x with XHttp => o = THttpErr | XReq => o = TReqErr | XConn => o = TConnErr | XMax => False end).
Proof. intros outs res n rest. apply (http_request_spec gen_tables _ gen_tables_ok). Qed.
Print Assumptions C17_retries_bounded.

(** the poll loops never stop for lack of fuel: they end with a terminal status, an exception, or
    because the scripted history is exhausted (StillPolling) *)
Theorem C17_poll_loops_complete :
  forall fast tail s outs o s' outs', do_results gen_tables fast tail s outs = (o, s', outs') -> o <> OFuel.
Proof. intros fast tail s outs o s' outs'. apply (results_never_out_of_fuel gen_tables _ gen_tables_ok). Qed.
Print Assumptions C17_poll_loops_complete.

(** the asynchronous wait run in one piece equals the same coroutine started and then resumed at each
    of its await points (with nothing in between): same outcome, state, requests, consumed outcomes.
    With other client events in between, theorems 1-5 apply to the interleaved event list. *)
Theorem C17_async_wait_is_its_pieces :
  forall s outs o s' outs', s_await s = false -> step gen_tables s Await outs = (o, s', outs') ->
    await_in_pieces gen_tables s outs = (o, set_await s' false, outs').
Proof. intros s outs o s' outs'. apply (await_split gen_tables _ gen_tables_ok). Qed.
Print Assumptions C17_async_wait_is_its_pieces.

(** non-vacuity: a concrete history with timeouts, a repeated 'active', an interleaved query at an
    await point, and calls after termination *)
Example C17_instance :
  let rp st j p := TOk {| r_status := st; r_job := j; r_payload := p |} in
  let outs := [TTimeout; rp c_pending 1 0; rp c_active 2 0; TTimeout; TTimeout; rp c_active 3 0;
               rp c_finished 4 99; rp c_pending 5 0] in
  let '(tr, sf, rest) := run gen_tables (init_st gen_tables)
                             [Query; Submit; AwaitBegin; Query; AwaitResume; Results; Query] outs in
  map (fun en : tentry => fst (fst en)) tr =
    [ORefused; OSubmitted QUEUED; OPending; OStatus RUNNING; OResults (Some 99); OResults (Some 99); OStatus DONE]
  /\ length (s_log sf) = 7%nat /\ length rest = 1%nat /\ reach_g gen_tables (init_st gen_tables) outs.
Proof. vm_compute. repeat split. constructor. Qed.
