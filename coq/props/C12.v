(** C12 - parity encoding is a faithful parity-basis representation.
    Property theorems only, for EVERY number of sites n and every commutative *-ring K with
    i*i = -1 that has a half element h (h + h = 1; it models the binary64 literal 0.5).

    Regenerated from /repo/src/qib/transform/parity_encoding.py on every run (gen/fermi.py,
    module Run.GenFermi): the list expressions za/zb/x (update set X on sites >= i, parity Z on
    site i-1), the q constants, the weight expression, the tolerance, the keep-dimension flag.
    The encoded ladder operators are  A_i := h (first string + second string)  of alist[i],
    A_i^dagger likewise from clist[i].  The loop of the encoder is the hand-written model
    [encode], shared with the Jordan-Wigner encoder and tied by the correspondence run.

    Not claimed (and false for the plain prefix-parity basis change, because the library's
    reference operators carry the sign string on the later sites): encoded = U M U^dagger.
    "Spectra are preserved" follows from theorems 1-2 and 6 by the background fact that any
    two representations of the CAR algebra of n modes on 2^n dimensions are unitarily
    equivalent; that fact is not proved here. *)
From Qib Require Import Fermi.FermiParity Fermi.FermiLoop Fermi.FermiInst Base.Inst.
From Coq Require Import QArith.
From Run Require Import GenFermi.

Lemma gen_par_tab_ok kind n i : (i < n)%nat -> gen_par_tab kind n i = par_tab kind n i.
Proof.
  intros Hi. unfold gen_par_tab, par_tab, gen_par_za, gen_par_zb, gen_par_x, par_za, par_zb, par_x.
  destruct kind; tab_bridge.
Qed.

Section Weight.
  Context {K : Scalar} {L : ScalarLaws K}.
  Add Ring KringC12 : (s_ring K L).
  Lemma gen_par_weight_ok (h : K) k c : gen_par_weight h k c = smul (spow h k) c.
  Proof. unfold gen_par_weight. ring. Qed.
End Weight.

Lemma gen_par_enc_lad (K : Scalar) (L : ScalarLaws K) (h : K) n o : (snd o < n)%nat ->
  meq n (enc_lad gen_par_tab h n o) (enc_lad par_tab h n o).
Proof.
  intros Ho r c _ _. unfold enc_lad. rewrite (gen_par_tab_ok (fst o) n (snd o) Ho). reflexivity.
Qed.

(** 0. THE CODE'S LOOP is the model: [gen_par_loop] is the assembling loop of parity_encode_field_operator
       translated statement by statement on every run (gen/fermi.py encoder_loop; see C11.v theorem 0 for what is
       read); it is EQUAL to the hand-written [enc_raw] theorem 5 is about. *)
Definition code_isz {K : Scalar} (isz : K -> bool) : K -> bool :=
  if gen_par_skips_zero then isz else fun _ => false.
Definition code_encode {K : Scalar} (h : K) (isz negl : K -> bool) (n : nat) (op : list (term K)) : list (wstr (K:=K)) :=
  remove_zero_weight_strings negl
    (enc_dim (gen_par_params h) n (gen_par_loop h isz n (gen_par_tab true n) (gen_par_tab false n) op)).

Lemma code_raw_is_the_model (K : Scalar) (h : K) (isz : K -> bool) n (op : list (term K)) :
  gen_par_loop h isz n (gen_par_tab true n) (gen_par_tab false n) op = enc_raw (gen_par_params h) (code_isz isz) n op.
Proof.
  unfold gen_par_loop, enc_raw.
  apply fold_left_ext_in. intros acc t _. unfold enc_term.
  apply fold_left_ext_in. intros acc' idx _. cbv [code_isz gen_par_skips_zero]. cbv zeta.
  try (destruct (isz (tcf t idx)); [reflexivity|]).
  unfold enc_coeff, expand. cbn [gen_par_params ep_tab ep_weight].
  rewrite (fold_left_ext_in _ (fun acc o => expand_step (gen_par_tab (fst o) n (snd o)) acc) (combine (tpat t) idx))
    by (intros a [[|] j] _; reflexivity).
  reflexivity.
Qed.

Theorem C12_code_loop_is_the_model :
  forall (K : Scalar) (h : K) (isz negl : K -> bool) n (op : list (term K)),
    code_encode h isz negl n op = encode (gen_par_params h) (code_isz isz) negl n op.
Proof. intros. unfold code_encode, encode. rewrite code_raw_is_the_model. reflexivity. Qed.
Print Assumptions C12_code_loop_is_the_model.

Lemma code_isz_ok {K : Scalar} (isz : K -> bool) :
  (forall c, isz c = true -> c = s0) -> forall c, code_isz isz c = true -> c = s0.
Proof. intros H c. unfold code_isz. destruct gen_par_skips_zero; [apply H|discriminate]. Qed.

(** 0b. the pruning threshold is the documented 1e-14 (exact value of the binary64 literal) *)
Theorem C12_pruning_threshold_as_documented :
  gen_par_tol = Qmake 6338253001141147%Z 633825300114114700748351602688%positive.
Proof. reflexivity. Qed.
Print Assumptions C12_pruning_threshold_as_documented.

(** 1. canonical anticommutation relations of the encoded ladder operators *)
Theorem C12_CAR_annihil_create :
  forall (K : Scalar) (L : ScalarLaws K) (h : K) n i j, sadd h h = s1 -> (i < n)%nat -> (j < n)%nat ->
    meq n (madd (mmul n (enc_lad gen_par_tab h n (false, i)) (enc_lad gen_par_tab h n (true, j)))
                (mmul n (enc_lad gen_par_tab h n (true, j)) (enc_lad gen_par_tab h n (false, i))))
          (if Nat.eqb i j then mid else mzero).
Proof.
  intros K L h n i j Hh Hi Hj.
  rewrite (gen_par_enc_lad K L h n (false, i) Hi), (gen_par_enc_lad K L h n (true, j) Hj).
  apply par_CAR_annihil_create; assumption.
Qed.
Print Assumptions C12_CAR_annihil_create.

Theorem C12_CAR_same_kind :
  forall (K : Scalar) (L : ScalarLaws K) (h : K) n kind i j, sadd h h = s1 -> (i < n)%nat -> (j < n)%nat ->
    meq n (madd (mmul n (enc_lad gen_par_tab h n (kind, i)) (enc_lad gen_par_tab h n (kind, j)))
                (mmul n (enc_lad gen_par_tab h n (kind, j)) (enc_lad gen_par_tab h n (kind, i)))) mzero.
Proof.
  intros K L h n kind i j Hh Hi Hj.
  rewrite (gen_par_enc_lad K L h n (kind, i) Hi), (gen_par_enc_lad K L h n (kind, j) Hj).
  apply par_CAR_same_kind; assumption.
Qed.
Print Assumptions C12_CAR_same_kind.

(** 2. the encoded creation operator is the adjoint of the encoded annihilation operator *)
Theorem C12_create_is_adjoint_of_annihil :
  forall (K : Scalar) (L : ScalarLaws K) (h : K) n o, sadd h h = s1 -> (snd o < n)%nat ->
    meq n (madj (enc_lad gen_par_tab h n o)) (enc_lad gen_par_tab h n (ifo_adj o)).
Proof.
  intros K L h n o Hh Ho.
  rewrite (gen_par_enc_lad K L h n o Ho), (gen_par_enc_lad K L h n (ifo_adj o) Ho).
  apply par_enc_adj; assumption.
Qed.
Print Assumptions C12_create_is_adjoint_of_annihil.

(** 3. the encoded annihilators kill |0...0> *)
Theorem C12_annihilate_zero_state :
  forall (K : Scalar) (L : ScalarLaws K) (h : K) n i r, (i < n)%nat -> length r = n ->
    enc_lad gen_par_tab h n (false, i) r (zeros n) = s0.
Proof.
  intros K L h n i r Hi Hr.
  rewrite (gen_par_enc_lad K L h n (false, i) Hi r (zeros n) Hr (zeros_length n)).
  apply par_vacuum; assumption.
Qed.
Print Assumptions C12_annihilate_zero_state.

(** 4. the occupation number of site i is encoded as (1 - Z_{i-1} Z_i)/2  ((1 - Z_0)/2 for i = 0):
       [parZZ n i] is the string with Z on sites i-1 and i ... *)
Theorem C12_occupation_number :
  forall (K : Scalar) (L : ScalarLaws K) (h : K) n i, sadd h h = s1 -> (i < n)%nat ->
    meq n (mmul n (enc_lad gen_par_tab h n (true, i)) (enc_lad gen_par_tab h n (false, i)))
          (fun r c => smul h (ssub (mid r c) (pmatrix (parZZ n i) r c)))
    /\ px (parZZ n i) = repeat false n /\ pq (parZZ n i) = 0%Z
    /\ (forall k, (k < n)%nat -> nth k (pz (parZZ n i)) false = (Nat.eqb (Datatypes.S k) i || Nat.eqb k i)).
Proof.
  intros K L h n i Hh Hi. split; [|split; [reflexivity|split; [reflexivity|]]].
  - rewrite (gen_par_enc_lad K L h n (true, i) Hi), (gen_par_enc_lad K L h n (false, i) Hi).
    apply par_number; assumption.
  - intros k Hk. apply parZZ_nth; assumption.
Qed.
Print Assumptions C12_occupation_number.

(** ... and read entrywise: diagonal with entry  r_{i-1} xor r_i  -  qubit j stores the parity of
    the occupations of sites 0..j *)
Theorem C12_occupation_number_entries :
  forall (K : Scalar) (L : ScalarLaws K) (h : K) n i r c, sadd h h = s1 -> (i < n)%nat ->
    length r = n -> length c = n ->
    mmul n (enc_lad gen_par_tab h n (true, i)) (enc_lad gen_par_tab h n (false, i)) r c
    = if beq r c then (if xorb (prev_bit i r) (nth i r false) then s1 else s0) else s0.
Proof.
  intros K L h n i r c Hh Hi Hr Hc.
  destruct (C12_occupation_number K L h n i Hh Hi) as [E _]. rewrite (E r c Hr Hc).
  apply par_number_entry; assumption.
Qed.
Print Assumptions C12_occupation_number_entries.

(** 5. MAIN: the encoding of ANY field operator is the same coefficient-weighted sum of ordered
       products, with every ladder operator replaced by its encoded version
       (exact-zero pruning; and the general form with what is pruned) *)
Theorem C12_encoding_is_sum_of_ordered_products :
  forall (K : Scalar) (L : ScalarLaws K) (h : K) (isz negl : K -> bool) n (op : list (term K)),
    (forall c, isz c = true -> c = s0) -> (forall w, negl w = true -> w = s0) ->
    meq n (opmatrix (encode (gen_par_params h) isz negl n op))
          (op_matrix_gen (oprod_from n (enc_lad gen_par_tab h n) mid) n op).
Proof.
  intros K L h isz negl n op Hz Hn.
  apply (encode_matrix_exact (gen_par_params h) n h isz negl); try assumption.
  - intros kind i Hi. cbn [gen_par_params ep_tab]. rewrite gen_par_tab_ok by assumption.
    apply par_tab_wf; assumption.
  - intros k c. apply gen_par_weight_ok.
Qed.
Print Assumptions C12_encoding_is_sum_of_ordered_products.

Theorem C12_encoding_up_to_pruned_strings :
  forall (K : Scalar) (L : ScalarLaws K) (h : K) (isz negl : K -> bool) n (op : list (term K)),
    (forall c, isz c = true -> c = s0) ->
    let dropped := dropped_strings negl (enc_dim (gen_par_params h) n (enc_raw (gen_par_params h) isz n op)) in
    meq n (madd (opmatrix (encode (gen_par_params h) isz negl n op)) (opmatrix dropped))
          (op_matrix_gen (oprod_from n (enc_lad gen_par_tab h n) mid) n op)
    /\ Forall (fun w => negl (snd w) = true) dropped.
Proof.
  intros K L h isz negl n op Hz. cbv zeta.
  apply (encode_matrix_pruned (gen_par_params h) n h isz negl); try assumption.
  - intros kind i Hi. cbn [gen_par_params ep_tab]. rewrite gen_par_tab_ok by assumption.
    apply par_tab_wf; assumption.
  - intros k c. apply gen_par_weight_ok.
Qed.
Print Assumptions C12_encoding_up_to_pruned_strings.

(** 6. MAIN, for the translated code (any zero test that only fires on zero, any pruning predicate) *)
Theorem C12_code_encoder_is_sum_of_ordered_products :
  forall (K : Scalar) (L : ScalarLaws K) (h : K) (isz negl : K -> bool) n (op : list (term K)),
    (forall c, isz c = true -> c = s0) ->
    let raw := enc_dim (gen_par_params h) n (gen_par_loop h isz n (gen_par_tab true n) (gen_par_tab false n) op) in
    let target := op_matrix_gen (oprod_from n (enc_lad gen_par_tab h n) mid) n op in
    (meq n (madd (opmatrix (code_encode h isz negl n op)) (opmatrix (dropped_strings negl raw))) target
     /\ Forall (fun w => negl (snd w) = true) (dropped_strings negl raw))
    /\ ((forall w, negl w = true -> w = s0) -> meq n (opmatrix (code_encode h isz negl n op)) target).
Proof.
  intros K L h isz negl n op Hz. cbv zeta.
  rewrite C12_code_loop_is_the_model, code_raw_is_the_model. split.
  - apply (C12_encoding_up_to_pruned_strings K L h (code_isz isz) negl n op (code_isz_ok isz Hz)).
  - intros Hn. apply (C12_encoding_is_sum_of_ordered_products K L h (code_isz isz) negl n op (code_isz_ok isz Hz) Hn).
Qed.
Print Assumptions C12_code_encoder_is_sum_of_ordered_products.

(** non-vacuity: Gaussian rationals with h = 1/2, 3 sites *)
Example C12_instance :
  let K := QcI in
  let A := fun i => enc_lad (K:=K) gen_par_tab qc_half 3 (false, i) in
  let C := fun i => enc_lad (K:=K) gen_par_tab qc_half 3 (true, i) in
  sadd qc_half qc_half = s1 /\
  list_eqb (list_eqb qci_eqb) (dense 3 (madd (mmul 3 (A 1%nat) (C 1%nat)) (mmul 3 (C 1%nat) (A 1%nat))))
                              (dense 3 mid) = true /\
  list_eqb (list_eqb qci_eqb) (dense 3 (madd (mmul 3 (A 0%nat) (C 2%nat)) (mmul 3 (C 2%nat) (A 0%nat))))
                              (dense 3 mzero) = true /\
  list_eqb (list_eqb qci_eqb) (dense 3 (mmul 3 (A 0%nat) (C 2%nat))) (dense 3 mzero) = false.
Proof. cbv zeta. split; [apply qc_half_ok|]. repeat split; vm_compute; reflexivity. Qed.
