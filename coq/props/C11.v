(** C11 - Jordan-Wigner encoding reproduces the operator exactly.
    Property theorems only, for EVERY number of sites n, every field operator (any terms,
    patterns, coefficient functions) and every commutative *-ring K with i*i = -1.

    Regenerated from /repo/src/qib/transform/jordan_wigner_encoding.py on every run
    (gen/fermi.py, module Run.GenFermi): the list expressions za/zb/x, the q constants of the four
    PauliString constructor calls, the weight expression `0.5 ** len(term.opdesc) * coeff`
    (the literal 0.5 becomes the parameter [h]), the pruning tolerance, and whether an empty
    result keeps a zero-weight identity string.  The loop over terms / coefficients / strings is
    the hand-written model [encode] (Qib.Fermi.FermiModel), tied by the correspondence run.

    The half: binary64 0.5 is modelled by an element h of K with h + h = 1 (so 2 is invertible;
    the statement "2 x matrix = P_a + P_b" (theorem 1) needs no such element).
    "Up to rounding": the theorems are about exact ring arithmetic.  The only place where the
    code deliberately deviates from exactness is the pruning of strings with |weight| <= 1e-14:
    theorem 4 takes the pruning predicate as a parameter and says exactly what is dropped;
    theorem 3 is the case where only exact zeros are pruned. *)
From Qib Require Import Fermi.FermiEnc Fermi.FermiLoop Fermi.FermiInst Base.Inst.
From Coq Require Import QArith.
From Run Require Import GenFermi.

(** the regenerated table is the one the proofs are about *)
Lemma gen_jw_tab_ok kind n i : (i < n)%nat -> gen_jw_tab kind n i = jw_tab kind n i.
Proof.
  intros Hi. unfold gen_jw_tab, jw_tab, gen_jw_za, gen_jw_zb, gen_jw_x, jw_za, jw_zb, jw_x.
  destruct kind; tab_bridge.
Qed.

Section Weight.
  Context {K : Scalar} {L : ScalarLaws K}.
  Add Ring KringC11 : (s_ring K L).
  Lemma gen_jw_weight_ok (h : K) k c : gen_jw_weight h k c = smul (spow h k) c.
  Proof. unfold gen_jw_weight. ring. Qed.
End Weight.

(** 0. THE CODE'S LOOP is the model.  [gen_jw_loop] is the assembling loop of
       jordan_wigner_encode_field_operator translated statement by statement on every run (gen/fermi.py
       encoder_loop): `for term`, `for coeff in np.nditer(...)`, the test `if coeff == 0: continue` ([isz]),
       `pstrings = [identity]`, the expansion `[ps @ clist[j][0] for ps in pstrings] + [ps @ clist[j][1] ...]`
       selected by the operator type (order of the factors and of the two halves as written), the weight, and
       `sign = ps.refactor_sign(); add_pauli_string(WeightedPauliString(ps, sign * weight))`.  It is EQUAL to the
       hand-written [enc_raw] the theorems below are about.  If the source has no zero-skip the model is taken
       with the test that never fires. *)
Definition code_isz {K : Scalar} (isz : K -> bool) : K -> bool :=
  if gen_jw_skips_zero then isz else fun _ => false.
Definition code_encode {K : Scalar} (h : K) (isz negl : K -> bool) (n : nat) (op : list (term K)) : list (wstr (K:=K)) :=
  remove_zero_weight_strings negl
    (enc_dim (gen_jw_params h) n (gen_jw_loop h isz n (gen_jw_tab true n) (gen_jw_tab false n) op)).

Lemma code_raw_is_the_model (K : Scalar) (h : K) (isz : K -> bool) n (op : list (term K)) :
  gen_jw_loop h isz n (gen_jw_tab true n) (gen_jw_tab false n) op = enc_raw (gen_jw_params h) (code_isz isz) n op.
Proof.
  unfold gen_jw_loop, enc_raw.
  apply fold_left_ext_in. intros acc t _. unfold enc_term.
  apply fold_left_ext_in. intros acc' idx _. cbv [code_isz gen_jw_skips_zero]. cbv zeta.
  try (destruct (isz (tcf t idx)); [reflexivity|]).
  unfold enc_coeff, expand. cbn [gen_jw_params ep_tab ep_weight].
  rewrite (fold_left_ext_in _ (fun acc o => expand_step (gen_jw_tab (fst o) n (snd o)) acc) (combine (tpat t) idx))
    by (intros a [[|] j] _; reflexivity).
  reflexivity.
Qed.

Theorem C11_code_loop_is_the_model :
  forall (K : Scalar) (h : K) (isz negl : K -> bool) n (op : list (term K)),
    code_encode h isz negl n op = encode (gen_jw_params h) (code_isz isz) negl n op.
Proof. intros. unfold code_encode, encode. rewrite code_raw_is_the_model. reflexivity. Qed.
Print Assumptions C11_code_loop_is_the_model.

Lemma code_isz_ok {K : Scalar} (isz : K -> bool) :
  (forall c, isz c = true -> c = s0) -> forall c, code_isz isz c = true -> c = s0.
Proof. intros H c. unfold code_isz. destruct gen_jw_skips_zero; [apply H|discriminate]. Qed.

(** 0b. the pruning threshold handed to remove_zero_weight_strings is the documented 1e-14
        (exact value of the binary64 literal) *)
Theorem C11_pruning_threshold_as_documented :
  gen_jw_tol = Qmake 6338253001141147%Z 633825300114114700748351602688%positive.
Proof. reflexivity. Qed.
Print Assumptions C11_pruning_threshold_as_documented.

(** 1. the two strings of a ladder operator add up to twice its reference matrix *)
Theorem C11_two_strings_per_ladder_operator :
  forall (K : Scalar) (L : ScalarLaws K) kind n i, (i < n)%nat ->
    meq (K:=K) n (madd (pmatrix (fst (gen_jw_tab kind n i))) (pmatrix (snd (gen_jw_tab kind n i))))
                 (madd (lad n (kind, i)) (lad n (kind, i))).
Proof. intros K L kind n i Hi. rewrite (gen_jw_tab_ok kind n i Hi). apply jw_two_strings; assumption. Qed.
Print Assumptions C11_two_strings_per_ladder_operator.

(** 2. with the half, the encoded ladder operator IS the reference ladder operator *)
Theorem C11_encoded_ladder_operator :
  forall (K : Scalar) (L : ScalarLaws K) (h : K) n o, sadd h h = s1 -> (snd o < n)%nat ->
    meq n (enc_lad gen_jw_tab h n o) (lad n o).
Proof.
  intros K L h n o Hh Ho. rewrite <- (jw_enc_lad h n o Hh Ho).
  intros r c _ _. unfold enc_lad. rewrite (gen_jw_tab_ok (fst o) n (snd o) Ho). reflexivity.
Qed.
Print Assumptions C11_encoded_ladder_operator.

(** 2b. the product expansion: k operators give 2^k strings *)
Theorem C11_product_expansion_size :
  forall n ops, length (expand gen_jw_tab n ops) = (2 ^ length ops)%nat.
Proof. intros. apply expand_length. Qed.
Print Assumptions C11_product_expansion_size.

(** 3. MAIN: the encoded Pauli operator has exactly the matrix of the field operator
       (same basis, same ordering), when only exact zeros are pruned *)
Theorem C11_encoded_matrix_is_operator_matrix :
  forall (K : Scalar) (L : ScalarLaws K) (h : K) (isz negl : K -> bool) n (op : list (term K)),
    sadd h h = s1 ->
    (forall c, isz c = true -> c = s0) -> (forall w, negl w = true -> w = s0) ->
    meq n (opmatrix (encode (gen_jw_params h) isz negl n op)) (op_matrix n op).
Proof.
  intros K L h isz negl n op Hh Hz Hn.
  apply (jw_encode_exact (gen_jw_params h) n h isz negl Hh); try assumption.
  - intros kind i Hi. apply gen_jw_tab_ok; assumption.
  - intros k c. apply gen_jw_weight_ok.
Qed.
Print Assumptions C11_encoded_matrix_is_operator_matrix.

(** 4. arbitrary pruning predicate (the code: |w| <= 1e-14): the encoded matrix differs from
       the operator matrix exactly by the pruned strings, each of negligible weight *)
Theorem C11_encoded_matrix_up_to_pruned_strings :
  forall (K : Scalar) (L : ScalarLaws K) (h : K) (isz negl : K -> bool) n (op : list (term K)),
    sadd h h = s1 -> (forall c, isz c = true -> c = s0) ->
    let dropped := dropped_strings negl (enc_dim (gen_jw_params h) n (enc_raw (gen_jw_params h) isz n op)) in
    meq n (madd (opmatrix (encode (gen_jw_params h) isz negl n op)) (opmatrix dropped)) (op_matrix n op)
    /\ Forall (fun w => negl (snd w) = true) dropped.
Proof.
  intros K L h isz negl n op Hh Hz. cbv zeta.
  apply (jw_encode_pruned (gen_jw_params h) n h isz negl Hh); try assumption.
  - intros kind i Hi. apply gen_jw_tab_ok; assumption.
  - intros k c. apply gen_jw_weight_ok.
Qed.
Print Assumptions C11_encoded_matrix_up_to_pruned_strings.

(** 5. MAIN, for the translated code: with any zero test that only fires on zero and any pruning predicate,
       (matrix of the encoder's result) + (matrix of the pruned strings) = matrix of the field operator, and every
       pruned string has negligible weight; when only exact zeros are pruned the matrices are equal. *)
Theorem C11_code_encoder_reproduces_the_operator :
  forall (K : Scalar) (L : ScalarLaws K) (h : K) (isz negl : K -> bool) n (op : list (term K)),
    sadd h h = s1 -> (forall c, isz c = true -> c = s0) ->
    let raw := enc_dim (gen_jw_params h) n (gen_jw_loop h isz n (gen_jw_tab true n) (gen_jw_tab false n) op) in
    (meq n (madd (opmatrix (code_encode h isz negl n op)) (opmatrix (dropped_strings negl raw))) (op_matrix n op)
     /\ Forall (fun w => negl (snd w) = true) (dropped_strings negl raw))
    /\ ((forall w, negl w = true -> w = s0) -> meq n (opmatrix (code_encode h isz negl n op)) (op_matrix n op)).
Proof.
  intros K L h isz negl n op Hh Hz. cbv zeta.
  rewrite C11_code_loop_is_the_model, code_raw_is_the_model. split.
  - apply (C11_encoded_matrix_up_to_pruned_strings K L h (code_isz isz) negl n op Hh (code_isz_ok isz Hz)).
  - intros Hn. apply (C11_encoded_matrix_is_operator_matrix K L h (code_isz isz) negl n op Hh (code_isz_ok isz Hz) Hn).
Qed.
Print Assumptions C11_code_encoder_reproduces_the_operator.

(** non-vacuity: the hypotheses are satisfiable (Gaussian rationals, h = 1/2), on a
    cancellation-heavy operator  a_0^dag a_1 + a_1 a_0^dag + (2+i) a_1^dag a_0^dag a_1  on 2 sites *)
Example C11_instance :
  let K := QcI in
  let isz := fun w : K => qci_eqb w s0 in
  let one : K := s1 in
  let t1 : term K := {| tpat := [true; false];
                        tcf := fun idx => match idx with [0%nat; 1%nat] => one | _ => s0 end |} in
  let t2 : term K := {| tpat := [false; true];
                        tcf := fun idx => match idx with [1%nat; 0%nat] => one | _ => s0 end |} in
  let t3 : term K := {| tpat := [true; true; false];
                        tcf := fun idx => match idx with
                                          | [1%nat; 0%nat; 1%nat] => sadd (sadd one one) sI
                                          | _ => s0 end |} in
  sadd qc_half qc_half = s1 /\ (forall c, isz c = true -> c = s0) /\
  list_eqb (list_eqb qci_eqb)
    (dense 2 (opmatrix (encode (gen_jw_params qc_half) isz isz 2 [t1; t2; t3])))
    (dense 2 (op_matrix 2 [t1; t2; t3])) = true /\
  length (encode (gen_jw_params qc_half) isz isz 2 [t1; t2; t3]) = 4%nat.
Proof.
  cbv zeta. split; [apply qc_half_ok|]. split; [intros c; apply qci_eqb_eq|].
  split; vm_compute; reflexivity.
Qed.
