From Qib Require Import Compact.CompactProofs.
From Run Require Import GenCompact.
Local Open Scope Z_scope.

Ltac split_ifs :=
  repeat match goal with
         | |- context [if ?b then _ else _] => destruct b eqn:?
         end.

Theorem C13_tie_nsites : forall r c, gen_nsites r c = m_nsites r c.
Proof. reflexivity. Qed.

Theorem C13_tie_edge_face : forall r c ix iy jx jy, gen_edge_face r c ix iy jx jy = m_edge_face r c ix iy jx jy.
Proof.
  intros. unfold gen_edge_face, m_edge_face, m_edge_face_xy, is_nn. cbv zeta.
  split_ifs; try reflexivity.
Qed.
