(** C13 - compact encoding is exact on its stabiliser code space.

    FULL STATEMENT (properties.jsonl): for any real symmetric on-site + nearest-neighbour hopping
    operator on an open rectangular lattice of any shape,
      (a) the compact-encoded qubit operator is Hermitian,
      (b) it commutes with the product of edge operators around every lattice face,
      (c) those loop products are the identity on faces carrying an auxiliary qubit and commuting
          Hermitian involutions elsewhere,
      (d) restricted to the joint +1 eigenspace of the loop products the encoded operator has
          exactly the spectrum of the fermionic operator, every level repeated the same number of times.

    WHAT IS PROVED HERE (over every commutative *-ring with i*i = -1, in particular C):
      L1, ALL shapes (unbounded): the regenerated index functions / orientation table / weights equal
        the model's (theorems C13_tie_...); V_j, E_ij exist for all vertices / nearest-neighbour pairs, are
        Hermitian, E_ji = -E_ij, {E_ij,V_i} = {E_ij,V_j} = 0, [E_ij,V_k] = 0 otherwise; the assembled
        operator equals  sum_i h_ii 1/2 (1 - V_i) + sum_{i<j} h_ij (i/2)(E_ij V_j - E_ij V_i)
        and is Hermitian for real h (a); index maps of the face-centred lattice are mutually inverse and
        edge_to_odd_face_index returns -1 or a valid auxiliary-face index.
      L2, ALL shapes (unbounded; theorems 13-18, names without _bounded): {E_ij,E_jk} = 0 for edges sharing
        one vertex, [E_ij,E_kl] = 0 for disjoint edges; (b) the encoded operator commutes with the loop
        product around every face; (c) the loop product is the identity string (phase +1) on faces carrying
        an auxiliary qubit and a non-trivial Hermitian involution elsewhere, all loop products commute, the
        loop product does not depend on the starting corner / direction; on strings and on matrices.
        Proof: sparse-support calculus (a dot product with a string supported on a duplicate-free window
        only reads the window; group laws of strings with phases), letters of E_ij as functions of the
        coordinates, injectivity of the qubit index on vertices / auxiliary faces, invariance under even
        translations, and ONE vm_compute over the 4096 relative placements of two edges whose soundness
        lemma quantifies over all shapes (Compact/CompactSparse.v, CompactLocal.v, CompactLoops.v).
        C13_shape_ok_all: the decision procedure the bounded sweep evaluates is true on every shape.
      L1', BOUNDED, all shapes r x c with 1 <= r, c <= 6 (names end in _bounded; one vm_compute over the
        36 shapes lifted with forallb_forall): the same statements as L2; kept as an independent cross-check.
    WHAT IS MISSING (C13 stays PARTIAL):
      (d): "relation set R  =>  same spectrum with uniform multiplicity on the joint +1 eigenspace" is the
        Derby-Klassen representation theorem (Phys. Rev. B 104, 035118); it is background mathematics,
        NOT proved here.  Clause (d) is only tested numerically by checks/C13.py (dense, <= 12 qubits).

    [Run.GenCompact] is regenerated from /repo/src/qib/lattice/odd_face_centered_lattice.py and
    /repo/src/qib/transform/compact_encoding.py on every run (gen/compact.py); the C13_tie_... theorems
    below are therefore re-proved against what the code says now. *)
From Qib Require Import Compact.CompactLoops Base.Inst.
From Coq Require Import QArith ZifyBool.
From Run Require Import GenCompact.
Ltac Zify.zify_post_hook ::= Z.to_euclidean_division_equations.
Local Open Scope Z_scope.

(* ------------------------------------------------------------------------------------------- *)
(** * tie: regenerated definitions = hand model, for all integer arguments *)

Ltac split_ifs :=
  repeat match goal with
         | |- context [if ?b then _ else _] => destruct b eqn:?
         end.
(** shape-agnostic bridge: case-split every test of both sides; equal branches close by
    reflexivity, arithmetically equal results and impossible combinations of tests by lia
    (boolean tests through ZifyBool, // and % through the euclidean-division hook) *)
Ltac bridge :=
  split_ifs; cbn [negb] in *;
  first [ reflexivity | discriminate | f_equal; lia | f_equal; f_equal; lia | exfalso; lia ].

Theorem C13_tie_nsites : forall r c, gen_nsites r c = m_nsites r c.
Proof. intros. unfold gen_nsites, m_nsites. first [reflexivity | lia | nia]. Qed.
Print Assumptions C13_tie_nsites.

Theorem C13_tie_index_to_coord : forall r c i, gen_index_to_coord r c i = m_index_to_coord r c i.
Proof. intros. unfold gen_index_to_coord, m_index_to_coord, np_unravel2. cbv zeta. bridge. Qed.
Print Assumptions C13_tie_index_to_coord.

Theorem C13_tie_coord_to_index : forall r c p, gen_coord_to_index r c p = m_coord_to_index r c p.
Proof.
  intros r c [a b|x y]; unfold gen_coord_to_index, m_coord_to_index, m_face_index; [reflexivity|].
  bridge.
Qed.
Print Assumptions C13_tie_coord_to_index.

Theorem C13_tie_edge_face : forall r c ix iy jx jy,
  gen_edge_face r c ix iy jx jy = m_edge_face r c ix iy jx jy.
Proof.
  intros. unfold gen_edge_face, m_edge_face, m_edge_face_xy, is_nn. cbv zeta.
  bridge.
Qed.
Print Assumptions C13_tie_edge_face.

Theorem C13_tie_vertex_desc : forall j, gen_vertex_desc j = m_vertex_desc j.
Proof. reflexivity. Qed.
Print Assumptions C13_tie_vertex_desc.

(** the orientation table (decision tree by row / column parity, auxiliary-qubit letter) *)
Theorem C13_tie_edge_desc : forall ii jj ff ix iy jx jy,
  gen_edge_desc ii jj ff ix iy jx jy = m_edge_desc ii jj ff ix iy jx jy.
Proof.
  intros. unfold gen_edge_desc, m_edge_desc, is_nn. cbv zeta.
  bridge.
Qed.
Print Assumptions C13_tie_edge_desc.

(** weights of the term assembly: the source constants are -0.5, 0.5, 0.5j, -0.5j (stored doubled),
    the hopping strings are E @ Vj then E @ Vi, the identity coefficient starts at 0 *)
Theorem C13_tie_assembly :
  gen_id_init = 0 /\ gen_w_vertex = (-1, 0) /\ gen_w_id = (1, 0)
  /\ gen_hop = [(0, 2, (0, 1)); (0, 1, (0, -1))].
Proof. repeat split. Qed.
Print Assumptions C13_tie_assembly.

(** the operators the code builds, written with the regenerated functions only *)
Definition code_vertex (r c x y : Z) : option pstr :=
  obind (gen_coord_to_index r c (CInt x y)) (fun k =>
  obind (gen_vertex_desc k) (fun d => build (gen_nsites r c) d)).
Definition code_edge (r c ix iy jx jy : Z) : option pstr :=
  obind (gen_coord_to_index r c (CInt ix iy)) (fun ii =>
  obind (gen_coord_to_index r c (CInt jx jy)) (fun jj =>
  obind (gen_edge_face r c ix iy jx jy) (fun ff =>
  obind (gen_edge_desc ii jj ff ix iy jx jy) (fun d => build (gen_nsites r c) d)))).

Theorem C13_code_operators_are_model : forall r c ix iy jx jy,
  code_vertex r c ix iy = m_vertex r c ix iy /\ code_edge r c ix iy jx jy = m_edge r c ix iy jx jy.
Proof.
  intros. split.
  - unfold code_vertex, m_vertex. rewrite C13_tie_coord_to_index.
    destruct (m_coord_to_index r c (CInt ix iy)); cbn [obind]; [|reflexivity].
    rewrite C13_tie_vertex_desc, C13_tie_nsites. reflexivity.
  - unfold code_edge, m_edge. rewrite C13_tie_nsites.
    rewrite (C13_tie_coord_to_index r c (CInt ix iy)).
    destruct (m_coord_to_index r c (CInt ix iy)) as [ii|]; cbn [obind].
    2:{ destruct (negb _); reflexivity. }
    rewrite (C13_tie_coord_to_index r c (CInt jx jy)).
    destruct (m_coord_to_index r c (CInt jx jy)) as [jj|]; cbn [obind].
    2:{ destruct (negb _); reflexivity. }
    rewrite C13_tie_edge_face.
    destruct (is_nn ix iy jx jy) eqn:NN; cbn [negb].
    + destruct (m_edge_face r c ix iy jx jy) as [ff|]; cbn [obind]; [|reflexivity].
      rewrite C13_tie_edge_desc. reflexivity.
    + unfold m_edge_face. rewrite NN. reflexivity.
Qed.
Print Assumptions C13_code_operators_are_model.

(* ------------------------------------------------------------------------------------------- *)
(** * L1: all lattice shapes *)

(** 1. V_j and E_ij exist for every vertex / nearest-neighbour pair of an r x c lattice (r, c >= 1) *)
Theorem C13_operators_defined : forall r c ix iy jx jy,
  0 <= ix < r -> 0 <= iy < c -> 0 <= jx < r -> 0 <= jy < c ->
  (exists V, code_vertex r c ix iy = Some V) /\
  (is_nn ix iy jx jy = true -> exists E, code_edge r c ix iy jx jy = Some E).
Proof.
  intros r c ix iy jx jy H1 H2 H3 H4.
  destruct (C13_code_operators_are_model r c ix iy jx jy) as [-> ->]. split.
  - apply vertex_defined; assumption.
  - intros NN. apply edge_defined; assumption.
Qed.
Print Assumptions C13_operators_defined.

(** 2. they are Hermitian (strings with even q on nsites qubits; matrices by C09) *)
Theorem C13_operators_hermitian : forall (K : Scalar) (L : ScalarLaws K) r c ix iy jx jy P,
  code_vertex r c ix iy = Some P \/ code_edge r c ix iy jx jy = Some P ->
  wfp (nq r c) P /\ pherm P = true /\ hermitian (K:=K) (nq r c) (pmatrix P).
Proof.
  intros K L r c ix iy jx jy P H.
  destruct (C13_code_operators_are_model r c ix iy jx jy) as [EV EE]. rewrite EV, EE in H.
  assert (W : wfp (nq r c) P /\ pherm P = true).
  { destruct H as [H|H]; [apply (vertex_wf _ _ _ _ _ H)|apply (edge_wf _ _ _ _ _ _ _ H)]. }
  destruct W as [W Hh]. repeat split; try apply W; auto. apply pherm_sound. exact Hh.
Qed.
Print Assumptions C13_operators_hermitian.

(** 3. E_ji = - E_ij *)
Theorem C13_edge_antisymmetric : forall (K : Scalar) (L : ScalarLaws K) r c ix iy jx jy E,
  code_edge r c ix iy jx jy = Some E ->
  code_edge r c jx jy ix iy = Some (pneg E) /\
  forall rr cc, pmatrix (K:=K) (pneg E) rr cc = sopp (pmatrix E rr cc).
Proof.
  intros K L r c ix iy jx jy E H.
  destruct (C13_code_operators_are_model r c ix iy jx jy) as [_ EE]. rewrite EE in H.
  destruct (C13_code_operators_are_model r c jx jy ix iy) as [_ ->].
  split; [apply edge_swap; exact H|]. intros. apply pneg_matrix.
Qed.
Print Assumptions C13_edge_antisymmetric.

(** 4. {E_ij, V_i} = {E_ij, V_j} = 0 and [E_ij, V_k] = 0 for k not in {i, j} *)
Theorem C13_edge_vertex_relations : forall (K : Scalar) (L : ScalarLaws K) r c ix iy jx jy kx ky E V,
  code_edge r c ix iy jx jy = Some E -> code_vertex r c kx ky = Some V ->
  let endpoint := ((kx =? ix) && (ky =? iy)) || ((kx =? jx) && (ky =? jy)) in
  pcommutes E V = negb endpoint /\
  forall rr cc, length rr = nq r c -> length cc = nq r c ->
    mmul (nq r c) (pmatrix (K:=K) E) (pmatrix V) rr cc
    = (if endpoint then sopp (mmul (nq r c) (pmatrix V) (pmatrix E) rr cc)
       else mmul (nq r c) (pmatrix V) (pmatrix E) rr cc).
Proof.
  intros K L r c ix iy jx jy kx ky E V HE HV. cbv zeta.
  destruct (C13_code_operators_are_model r c ix iy jx jy) as [_ EE]. rewrite EE in HE.
  destruct (C13_code_operators_are_model r c kx ky 0 0) as [EV _]. rewrite EV in HV.
  pose proof (edge_vertex_commutation _ _ _ _ _ _ _ _ _ _ HE HV) as C.
  destruct (edge_wf _ _ _ _ _ _ _ HE) as [WE _]. destruct (vertex_wf _ _ _ _ _ HV) as [WV _].
  split; [exact C|]. intros rr cc Hr Hc.
  destruct (((kx =? ix) && (ky =? iy)) || ((kx =? jx) && (ky =? jy))); cbn [negb] in C.
  - apply (panticommutes_sound _ _ _ WE WV C rr cc Hr Hc).
  - apply (pcommutes_sound _ _ _ WE WV C rr cc Hr Hc).
Qed.
Print Assumptions C13_edge_vertex_relations.

(** 5. closed form of the assembled operator, as the code builds it (order of insertion and
    merge-on-insert included in the model [encode]): entrywise
      sum_i h_ii * 1/2 * (1 - V_i) + sum_{i<j} h_ij * (i/2) * (E_ij V_j - E_ij V_i)
    summed over the terms of the field operator.  [half] is any scalar (1/2 in C), [isz] the test
    `coeffs[i,j] == 0`, [symb] the entrywise symmetry test. *)
Theorem C13_closed_form : forall (K : Scalar) (L : ScalarLaws K) (half : K) isz symb,
  (forall w : K, isz w = true -> w = s0) ->
  forall r c (hs : list (coeffs (K:=K))) op,
    encode half isz symb r c hs = Some op ->
    forall rr cc, length rr = nq r c -> length cc = nq r c ->
      opmatrix op rr cc = lsum (map (fun h => spec_entry half r c h rr cc) hs).
Proof. intros K L half isz symb Hz r c hs op. apply encode_closed_form. exact Hz. Qed.
Print Assumptions C13_closed_form.

(** 6. clause (a): the encoded operator is Hermitian for real coefficients, every shape *)
Theorem C13_encoded_operator_hermitian : forall (K : Scalar) (L : ScalarLaws K) (half : K) isz symb,
  sconj half = half ->
  forall r c (hs : list (coeffs (K:=K))) op,
    (forall h, In h hs -> forall i j, sconj (h i j) = h i j) ->
    encode half isz symb r c hs = Some op -> hermitian (nq r c) (opmatrix op).
Proof. intros K L half isz symb Hh r c hs op. apply encode_hermitian. exact Hh. Qed.
Print Assumptions C13_encoded_operator_hermitian.

(** 7. index maps of the face-centred lattice are mutually inverse; the face an edge is attached to
    is -1 or a valid auxiliary-qubit index *)
Theorem C13_index_maps_inverse : forall r c,
  (forall i, 1 <= c -> 0 <= i < r * c ->
     exists x y, gen_index_to_coord r c i = Some (CInt x y) /\ gen_coord_to_index r c (CInt x y) = Some i
                 /\ 0 <= x < r /\ 0 <= y < c) /\
  (forall x y, 0 <= x < r -> 0 <= y < c ->
     exists i, gen_coord_to_index r c (CInt x y) = Some i /\ gen_index_to_coord r c i = Some (CInt x y)
               /\ 0 <= i < r * c) /\
  (forall i, 2 <= c -> r * c <= i < gen_nsites r c ->
     exists x y, gen_index_to_coord r c i = Some (CHalf x y) /\ gen_coord_to_index r c (CHalf x y) = Some i
                 /\ 0 <= x < r - 1 /\ 0 <= y < c - 1 /\ (x + y) mod 2 = 0) /\
  (forall x y, 0 <= x < r - 1 -> 0 <= y < c - 1 -> (x + y) mod 2 = 0 ->
     exists i, gen_coord_to_index r c (CHalf x y) = Some i /\ gen_index_to_coord r c i = Some (CHalf x y)
               /\ r * c <= i < gen_nsites r c) /\
  (forall ix iy jx jy f, gen_edge_face r c ix iy jx jy = Some f -> f = -1 \/ r * c <= f < gen_nsites r c).
Proof.
  intros r c. repeat split; intros.
  - destruct (vertex_index_roundtrip r c i) as [x [y H']]; auto. exists x, y.
    rewrite C13_tie_index_to_coord, C13_tie_coord_to_index. exact H'.
  - destruct (vertex_coord_roundtrip r c x y) as [i H']; auto. exists i.
    rewrite C13_tie_index_to_coord, C13_tie_coord_to_index. exact H'.
  - rewrite C13_tie_nsites in *. destruct (face_index_roundtrip r c i) as [x [y H']]; auto. exists x, y.
    rewrite C13_tie_index_to_coord, C13_tie_coord_to_index. exact H'.
  - destruct (face_coord_roundtrip r c x y) as [i H']; auto. exists i.
    rewrite C13_tie_index_to_coord, C13_tie_coord_to_index, C13_tie_nsites. exact H'.
  - rewrite C13_tie_edge_face in *. rewrite C13_tie_nsites. eapply edge_face_valid; eauto.
Qed.
Print Assumptions C13_index_maps_inverse.

(* ------------------------------------------------------------------------------------------- *)
(** * L1': bounded, all shapes with 1 <= r, c <= 6 *)

(** 8. {E_ij, E_jk} = 0 for edges sharing exactly one vertex, [E_ij, E_kl] = 0 otherwise *)
Theorem C13_edge_edge_relations_bounded : forall (K : Scalar) (L : ScalarLaws K) r c,
  1 <= r <= 6 -> 1 <= c <= 6 ->
  forall ix iy jx jy kx ky lx ly E E',
    code_edge r c ix iy jx jy = Some E -> code_edge r c kx ky lx ly = Some E' ->
    let one_shared := Nat.eqb (shared ((ix, iy), (jx, jy)) ((kx, ky), (lx, ly))) 1 in
    pcommutes E E' = negb one_shared /\
    forall rr cc, length rr = nq r c -> length cc = nq r c ->
      mmul (nq r c) (pmatrix (K:=K) E) (pmatrix E') rr cc
      = (if one_shared then sopp (mmul (nq r c) (pmatrix E') (pmatrix E) rr cc)
         else mmul (nq r c) (pmatrix E') (pmatrix E) rr cc).
Proof.
  intros K L r c Hr Hc ix iy jx jy kx ky lx ly E E' HE HE'. cbv zeta.
  destruct (C13_code_operators_are_model r c ix iy jx jy) as [_ EE]. rewrite EE in HE.
  destruct (C13_code_operators_are_model r c kx ky lx ly) as [_ EE']. rewrite EE' in HE'.
  pose proof (R_edge_edge_bounded r c Hr Hc _ _ _ _ _ _ _ _ _ _ HE HE') as C.
  destruct (edge_wf _ _ _ _ _ _ _ HE) as [WE _]. destruct (edge_wf _ _ _ _ _ _ _ HE') as [WE' _].
  split; [exact C|]. intros rr cc Hrr Hcc.
  destruct (Nat.eqb _ 1); cbn [negb] in C.
  - apply (panticommutes_sound _ _ _ WE WE' C rr cc Hrr Hcc).
  - apply (pcommutes_sound _ _ _ WE WE' C rr cc Hrr Hcc).
Qed.
Print Assumptions C13_edge_edge_relations_bounded.

(** 9. clause (c) on strings: loop products (any starting corner, any direction) *)
Theorem C13_loop_strings_bounded : forall r c, 1 <= r <= 6 -> 1 <= c <= 6 ->
  forall x y, 0 <= x < r - 1 -> 0 <= y < c - 1 ->
  exists Lp, loop r c x y = Some Lp /\ wfp (nq r c) Lp /\
    (forall s d, (s < 4)%nat -> loop_var r c x y s d = Some Lp) /\
    (is_aux x y = true -> Lp = pidentity (m_nsites r c)) /\
    (is_aux x y = false ->
       pherm Lp = true /\ pmul Lp Lp = pidentity (m_nsites r c) /\ nontrivial Lp = true /\
       (forall x' y' Lp', 0 <= x' < r - 1 -> 0 <= y' < c - 1 -> loop r c x' y' = Some Lp' ->
                          pcommutes Lp Lp' = true) /\
       (forall t p, In t (term_strings r c) -> t = Some p -> pcommutes p Lp = true)).
Proof. exact loops_bounded. Qed.
Print Assumptions C13_loop_strings_bounded.

(** 10. the matrix of the loop string is the product of the four edge-operator matrices (any shape) *)
Theorem C13_loop_matrix_is_product : forall (K : Scalar) (L : ScalarLaws K) r c x y Lp,
  loop r c x y = Some Lp ->
  exists E1 E2 E3 E4,
    code_edge r c x y x (y + 1) = Some E1 /\ code_edge r c x (y + 1) (x + 1) (y + 1) = Some E2 /\
    code_edge r c (x + 1) (y + 1) (x + 1) y = Some E3 /\ code_edge r c (x + 1) y x y = Some E4 /\
    meq (K:=K) (nq r c) (pmatrix Lp)
        (mmul (nq r c) (mmul (nq r c) (mmul (nq r c) (pmatrix E1) (pmatrix E2)) (pmatrix E3)) (pmatrix E4)).
Proof.
  intros K L r c x y Lp H.
  destruct (loop_matrix_is_product (K:=K) r c x y Lp H) as [E1 [E2 [E3 [E4 [A [B [C [D M]]]]]]]].
  exists E1, E2, E3, E4. unfold Eof in *. cbn [fst snd] in *.
  repeat split; auto;
    match goal with |- code_edge ?r ?c ?a ?b ?d ?e = _ =>
      destruct (C13_code_operators_are_model r c a b d e) as [_ ->]; assumption end.
Qed.
Print Assumptions C13_loop_matrix_is_product.

(** 11. clause (c) on matrices *)
Theorem C13_loop_matrices_bounded : forall (K : Scalar) (L : ScalarLaws K) r c,
  1 <= r <= 6 -> 1 <= c <= 6 ->
  forall x y, 0 <= x < r - 1 -> 0 <= y < c - 1 ->
  exists Lp, loop r c x y = Some Lp /\
    (is_aux x y = true -> meq (K:=K) (nq r c) (pmatrix Lp) mid) /\
    (is_aux x y = false ->
       hermitian (K:=K) (nq r c) (pmatrix Lp) /\
       meq (K:=K) (nq r c) (mmul (nq r c) (pmatrix Lp) (pmatrix Lp)) mid /\
       (forall x' y' Lp', 0 <= x' < r - 1 -> 0 <= y' < c - 1 -> loop r c x' y' = Some Lp' ->
                          commM (K:=K) (nq r c) (pmatrix Lp) (pmatrix Lp'))).
Proof. intros K L. exact loop_matrices_bounded. Qed.
Print Assumptions C13_loop_matrices_bounded.

(** 12. clause (b): the encoded operator commutes with the loop product around every face *)
Theorem C13_encoded_commutes_with_loops_bounded : forall (K : Scalar) (L : ScalarLaws K) r c,
  1 <= r <= 6 -> 1 <= c <= 6 ->
  forall (half : K) isz symb (hs : list (coeffs (K:=K))) op,
    encode half isz symb r c hs = Some op ->
    forall x y Lp, 0 <= x < r - 1 -> 0 <= y < c - 1 -> loop r c x y = Some Lp ->
      commM (K:=K) (nq r c) (opmatrix op) (pmatrix Lp).
Proof. intros K L. exact encoded_commutes_with_loops_bounded. Qed.
Print Assumptions C13_encoded_commutes_with_loops_bounded.

(** (a) + (b) + (c) together for r, c <= 6 (the all-shapes version is theorem 18 below).  PARTIAL:
    clause (d) (spectrum on the code space) is the Derby-Klassen theorem and is not proved. *)
Theorem C13_compact_encoding_partial_bounded : forall (K : Scalar) (L : ScalarLaws K) (half : K) isz symb,
  sconj half = half ->
  forall r c, 1 <= r <= 6 -> 1 <= c <= 6 ->
  forall (hs : list (coeffs (K:=K))) op,
    (forall h, In h hs -> forall i j, sconj (h i j) = h i j) ->
    encode half isz symb r c hs = Some op ->
    hermitian (nq r c) (opmatrix op) /\
    forall x y, 0 <= x < r - 1 -> 0 <= y < c - 1 ->
      exists Lp, loop r c x y = Some Lp /\
        commM (K:=K) (nq r c) (opmatrix op) (pmatrix Lp) /\
        (is_aux x y = true -> meq (K:=K) (nq r c) (pmatrix Lp) mid) /\
        (is_aux x y = false ->
           hermitian (K:=K) (nq r c) (pmatrix Lp) /\
           meq (K:=K) (nq r c) (mmul (nq r c) (pmatrix Lp) (pmatrix Lp)) mid /\
           (forall x' y' Lp', 0 <= x' < r - 1 -> 0 <= y' < c - 1 -> loop r c x' y' = Some Lp' ->
                              commM (K:=K) (nq r c) (pmatrix Lp) (pmatrix Lp'))).
Proof.
  intros K L half isz symb Hh r c Hr Hc hs op Hreal H. split.
  - apply (encode_hermitian half isz symb Hh r c hs op Hreal H).
  - intros x y Hx Hy.
    destruct (loop_matrices_bounded (K:=K) r c Hr Hc x y Hx Hy) as [Lp [HL [A B]]].
    exists Lp. split; [exact HL|]. split; [|split; assumption].
    apply (encoded_commutes_with_loops_bounded (K:=K) r c Hr Hc half isz symb hs op H x y Lp Hx Hy HL).
Qed.
Print Assumptions C13_compact_encoding_partial_bounded.

(* ------------------------------------------------------------------------------------------- *)
(** * L2: all lattice shapes (no bound on r, c) *)

(** 13. {E_ij, E_jk} = 0 for edges sharing exactly one vertex, [E_ij, E_kl] = 0 otherwise; every shape *)
Theorem C13_edge_edge_relations : forall (K : Scalar) (L : ScalarLaws K) r c,
  forall ix iy jx jy kx ky lx ly E E',
    code_edge r c ix iy jx jy = Some E -> code_edge r c kx ky lx ly = Some E' ->
    let one_shared := Nat.eqb (shared ((ix, iy), (jx, jy)) ((kx, ky), (lx, ly))) 1 in
    pcommutes E E' = negb one_shared /\
    forall rr cc, length rr = nq r c -> length cc = nq r c ->
      mmul (nq r c) (pmatrix (K:=K) E) (pmatrix E') rr cc
      = (if one_shared then sopp (mmul (nq r c) (pmatrix E') (pmatrix E) rr cc)
         else mmul (nq r c) (pmatrix E') (pmatrix E) rr cc).
Proof.
  intros K L r c ix iy jx jy kx ky lx ly E E' HE HE'. cbv zeta.
  destruct (C13_code_operators_are_model r c ix iy jx jy) as [_ EE]. rewrite EE in HE.
  destruct (C13_code_operators_are_model r c kx ky lx ly) as [_ EE']. rewrite EE' in HE'.
  pose proof (R_edge_edge r c _ _ _ _ _ _ _ _ _ _ HE HE') as C.
  destruct (edge_wf _ _ _ _ _ _ _ HE) as [WE _]. destruct (edge_wf _ _ _ _ _ _ _ HE') as [WE' _].
  split; [exact C|]. intros rr cc Hrr Hcc.
  destruct (Nat.eqb _ 1); cbn [negb] in C.
  - apply (panticommutes_sound _ _ _ WE WE' C rr cc Hrr Hcc).
  - apply (pcommutes_sound _ _ _ WE WE' C rr cc Hrr Hcc).
Qed.
Print Assumptions C13_edge_edge_relations.

(** 14. clause (c) on strings, every shape: the loop product around the face with lower corner (x, y)
    exists, is the same for every starting corner and direction, is the identity string on faces with an
    auxiliary qubit, elsewhere a non-trivial Hermitian involution; it commutes with every loop product and
    with every string the encoder can insert *)
Theorem C13_loop_strings : forall r c x y, 0 <= x < r - 1 -> 0 <= y < c - 1 ->
  exists Lp, loop r c x y = Some Lp /\ wfp (nq r c) Lp /\
    (forall s d, (s < 4)%nat -> loop_var r c x y s d = Some Lp) /\
    (is_aux x y = true -> Lp = pidentity (m_nsites r c)) /\
    (is_aux x y = false ->
       pherm Lp = true /\ pmul Lp Lp = pidentity (m_nsites r c) /\ nontrivial Lp = true) /\
    (forall x' y' Lp', 0 <= x' < r - 1 -> 0 <= y' < c - 1 -> loop r c x' y' = Some Lp' ->
                       pcommutes Lp Lp' = true) /\
    (forall t p, In t (term_strings r c) -> t = Some p -> pcommutes p Lp = true).
Proof. exact loops_all. Qed.
Print Assumptions C13_loop_strings.

(** 15. clause (c) on matrices, every shape *)
Theorem C13_loop_matrices : forall (K : Scalar) (L : ScalarLaws K) r c x y,
  0 <= x < r - 1 -> 0 <= y < c - 1 ->
  exists Lp, loop r c x y = Some Lp /\
    (is_aux x y = true -> meq (K:=K) (nq r c) (pmatrix Lp) mid) /\
    (is_aux x y = false ->
       hermitian (K:=K) (nq r c) (pmatrix Lp) /\
       meq (K:=K) (nq r c) (mmul (nq r c) (pmatrix Lp) (pmatrix Lp)) mid /\
       (forall x' y' Lp', 0 <= x' < r - 1 -> 0 <= y' < c - 1 -> loop r c x' y' = Some Lp' ->
                          commM (K:=K) (nq r c) (pmatrix Lp) (pmatrix Lp'))).
Proof. intros K L. exact loop_matrices_all. Qed.
Print Assumptions C13_loop_matrices.

(** 16. clause (b), every shape: the encoded operator commutes with the loop product around every face *)
Theorem C13_encoded_commutes_with_loops : forall (K : Scalar) (L : ScalarLaws K) r c,
  forall (half : K) isz symb (hs : list (coeffs (K:=K))) op,
    encode half isz symb r c hs = Some op ->
    forall x y Lp, 0 <= x < r - 1 -> 0 <= y < c - 1 -> loop r c x y = Some Lp ->
      commM (K:=K) (nq r c) (opmatrix op) (pmatrix Lp).
Proof. intros K L. exact encoded_commutes_with_loops_all. Qed.
Print Assumptions C13_encoded_commutes_with_loops.

(** 17. the string-level decision procedure for the relation set R and the loop statements (the one
    CompactBounded evaluates for r, c <= 6) is true on every shape *)
Theorem C13_shape_ok_all : forall r c, 1 <= r -> 1 <= c -> rel_ok r c = true /\ loops_ok r c = true.
Proof. intros r c Hr Hc. split; [apply rel_ok_all; assumption|apply loops_ok_all]. Qed.
Print Assumptions C13_shape_ok_all.

(** 18. (a) + (b) + (c) together for EVERY shape.  PARTIAL only because clause (d) (spectrum on the code
    space) is the Derby-Klassen theorem and is not proved. *)
Theorem C13_compact_encoding_partial : forall (K : Scalar) (L : ScalarLaws K) (half : K) isz symb,
  sconj half = half ->
  forall r c (hs : list (coeffs (K:=K))) op,
    (forall h, In h hs -> forall i j, sconj (h i j) = h i j) ->
    encode half isz symb r c hs = Some op ->
    hermitian (nq r c) (opmatrix op) /\
    forall x y, 0 <= x < r - 1 -> 0 <= y < c - 1 ->
      exists Lp, loop r c x y = Some Lp /\
        commM (K:=K) (nq r c) (opmatrix op) (pmatrix Lp) /\
        (is_aux x y = true -> meq (K:=K) (nq r c) (pmatrix Lp) mid) /\
        (is_aux x y = false ->
           hermitian (K:=K) (nq r c) (pmatrix Lp) /\
           meq (K:=K) (nq r c) (mmul (nq r c) (pmatrix Lp) (pmatrix Lp)) mid /\
           (forall x' y' Lp', 0 <= x' < r - 1 -> 0 <= y' < c - 1 -> loop r c x' y' = Some Lp' ->
                              commM (K:=K) (nq r c) (pmatrix Lp) (pmatrix Lp'))).
Proof.
  intros K L half isz symb Hh r c hs op Hreal H. split.
  - apply (encode_hermitian half isz symb Hh r c hs op Hreal H).
  - intros x y Hx Hy.
    destruct (loop_matrices_all (K:=K) r c x y Hx Hy) as [Lp [HL [A B]]].
    exists Lp. split; [exact HL|]. split; [|split; assumption].
    apply (encoded_commutes_with_loops_all (K:=K) r c half isz symb hs op H x y Lp Hx Hy HL).
Qed.
Print Assumptions C13_compact_encoding_partial.

(* ------------------------------------------------------------------------------------------- *)
(** non-vacuity: a concrete non-trivial instance (3 x 3 lattice, 11 qubits, Gaussian-rational weights) *)
Example C13_instance :
  let h : coeffs (K:=QI) := fun i j =>
      if Nat.eqb i j then ((3 # 2)%Q, 0%Q)
      else if (Nat.eqb (i + 1) j && negb (Nat.eqb (Nat.modulo j 3) 0)) || Nat.eqb (i + 3) j
           || (Nat.eqb (j + 1) i && negb (Nat.eqb (Nat.modulo i 3) 0)) || Nat.eqb (j + 3) i
           then ((-1 # 1)%Q, 0%Q) else (0%Q, 0%Q) in
  (exists E, code_edge 3 3 1 2 1 1 = Some E /\ pq E = 2 /\ nth 10 (pz E) false = true) /\
  (exists Lp, loop 3 3 1 0 = Some Lp /\ nontrivial Lp = true /\ is_aux 1 0 = false) /\
  (* a shape outside the bounded sweep: 8 x 9, 100 qubits *)
  (exists Lp, loop 8 9 6 7 = Some Lp /\ nontrivial Lp = true /\ is_aux 6 7 = false) /\
  (exists Lp, loop 8 9 6 6 = Some Lp /\ Lp = pidentity (m_nsites 8 9) /\ is_aux 6 6 = true) /\
  option_map (@length _) (encode (K:=QI) ((1 # 2)%Q, 0%Q) (fun w => qi_eqb w (0%Q, 0%Q)) qi_eqb 3 3 [h]) = Some 34%nat.
Proof.
  cbv zeta. split; [|split; [|split; [|split]]].
  - eexists. split; [vm_compute; reflexivity|]. split; vm_compute; reflexivity.
  - eexists. split; [vm_compute; reflexivity|]. split; vm_compute; reflexivity.
  - eexists. split; [vm_compute; reflexivity|]. split; vm_compute; reflexivity.
  - eexists. split; [vm_compute; reflexivity|]. split; vm_compute; reflexivity.
  - vm_compute. reflexivity.
Qed.
