(** C03 - inverse() really inverts and acts on the same particles (elementary classes).
    [Run.GenGates] (regenerated from gates.py on every run) contains, per class, the form of
    inverse() - `return self`, a constructor call with its argument expressions, optionally
    followed by `if ...: g.on(...)` - and the form of particles().
    Part 1 (any commutative *-ring): matrix(inverse) * matrix = 1 under the algebraic relation
    between the atoms of the constructed gate and the atoms of the gate (negated angle =>
    (c, -s) resp. conj x; `return self` => the matrix is an involution; partner class;
    adjoint handed to GeneralGate => unitarity).
    Part 2 (all real parameters): the atoms of the constructed gate are computed from the
    generated argument expressions and the target class's atom specifications.
    Part 3: particles(inverse g) = particles g for every attribute environment.
    Composite gates and circuits: coq/props/C03c.v. *)
From Coq Require Import Reals Lra.
From Coquelicot Require Import Complex.
From Qib Require Import Gates.ElemSpec Gates.ElemReal.
From Run Require Import GenGates.

(** ------------------------------------------------------------------ part 1: any *-ring *)
Section C03.
Context {K : Scalar} {L : ScalarLaws K}.
Local Open Scope K_scope.
Add Ring KringC03 : (s_ring K L).

(** `return self`: involutions *)
Theorem C03_IdentityGate_involution : meq 1 (mmul 1 (mxl (IdentityGate_mat (K:=K))) (mxl IdentityGate_mat)) mid.
Proof. unfold IdentityGate_mat. mx_meq []. Qed.
Theorem C03_PauliXGate_involution : meq 1 (mmul 1 (mxl (PauliXGate_mat (K:=K))) (mxl PauliXGate_mat)) mid.
Proof. unfold PauliXGate_mat. mx_meq []. Qed.
Theorem C03_PauliYGate_involution : meq 1 (mmul 1 (mxl (PauliYGate_mat (K:=K))) (mxl PauliYGate_mat)) mid.
Proof. unfold PauliYGate_mat. mx_meq []. Qed.
Theorem C03_PauliZGate_involution : meq 1 (mmul 1 (mxl (PauliZGate_mat (K:=K))) (mxl PauliZGate_mat)) mid.
Proof. unfold PauliZGate_mat. mx_meq []. Qed.
Theorem C03_HadamardGate_involution : forall r h : K, h_ok r h ->
  meq 1 (mmul 1 (mxl (HadamardGate_mat r h)) (mxl (HadamardGate_mat r h))) mid.
Proof. intros r h H. h_hyps H M. unfold HadamardGate_mat. mx_meq [M]. Qed.

(** partner classes *)
Theorem C03_SGate_inverse : meq 1 (mmul 1 (mxl (SAdjGate_mat (K:=K))) (mxl SGate_mat)) mid.
Proof. unfold SGate_mat, SAdjGate_mat. mx_meq []. Qed.
Theorem C03_SAdjGate_inverse : meq 1 (mmul 1 (mxl (SGate_mat (K:=K))) (mxl SAdjGate_mat)) mid.
Proof. unfold SGate_mat, SAdjGate_mat. mx_meq []. Qed.
Theorem C03_TGate_inverse : forall r h : K, h_ok r h ->
  meq 1 (mmul 1 (mxl (TAdjGate_mat r h)) (mxl (TGate_mat r h))) mid.
Proof. intros r h H. h_hyps H M. unfold TGate_mat, TAdjGate_mat. mx_meq [M]. Qed.
Theorem C03_TAdjGate_inverse : forall r h : K, h_ok r h ->
  meq 1 (mmul 1 (mxl (TGate_mat r h)) (mxl (TAdjGate_mat r h))) mid.
Proof. intros r h H. h_hyps H M. unfold TGate_mat, TAdjGate_mat. mx_meq [M]. Qed.

(** negated angle: the constructed gate has atoms (c, -s) *)
Theorem C03_RxGate_inverse : forall c s c' s' : K, cs_ok c s -> c' = c -> s' = - s ->
  meq 1 (mmul 1 (mxl (RxGate_mat c' s')) (mxl (RxGate_mat c s))) mid.
Proof. intros c s c' s' H -> ->. cs_hyps H M. unfold RxGate_mat. mx_meq [M]. Qed.
Theorem C03_RyGate_inverse : forall c s c' s' : K, cs_ok c s -> c' = c -> s' = - s ->
  meq 1 (mmul 1 (mxl (RyGate_mat c' s')) (mxl (RyGate_mat c s))) mid.
Proof. intros c s c' s' H -> ->. cs_hyps H M. unfold RyGate_mat. mx_meq [M]. Qed.
Theorem C03_RxxGate_inverse : forall c s c' s' : K, cs_ok c s -> c' = c -> s' = - s ->
  meq 2 (mmul 2 (mxl (RxxGate_mat c' s')) (mxl (RxxGate_mat c s))) mid.
Proof. intros c s c' s' H -> ->. cs_hyps H M. unfold RxxGate_mat. mx_meq [M]. Qed.
Theorem C03_RyyGate_inverse : forall c s c' s' : K, cs_ok c s -> c' = c -> s' = - s ->
  meq 2 (mmul 2 (mxl (RyyGate_mat c' s')) (mxl (RyyGate_mat c s))) mid.
Proof. intros c s c' s' H -> ->. cs_hyps H M. unfold RyyGate_mat. mx_meq [M]. Qed.
(** negated angle: the exp atom is conjugated *)
Theorem C03_RzGate_inverse : forall x x' : K, unit_ok x -> x' = x^* ->
  meq 1 (mmul 1 (mxl (RzGate_mat x')) (mxl (RzGate_mat x))) mid.
Proof.
  intros x x' H ->. unfold unit_ok in H. pose proof (unit_comm x H) as H'.
  unfold RzGate_mat. mx_meq [H H'].
Qed.
Theorem C03_RzzGate_inverse : forall x x' : K, unit_ok x -> x' = x^* ->
  meq 2 (mmul 2 (mxl (RzzGate_mat x')) (mxl (RzzGate_mat x))) mid.
Proof.
  intros x x' H ->. unfold unit_ok in H. pose proof (unit_comm x H) as H'.
  unfold RzzGate_mat. mx_meq [H H'].
Qed.
(** negated rotation vector: v' = -v, same norm, same cos/sin; and the zero-vector branch *)
Theorem C03_RotationGate_inverse : forall v0 v1 v2 t it c s v0' v1' v2' : K,
  nrm_ok v0 v1 v2 t it -> cs_ok c s -> v0' = - v0 -> v1' = - v1 -> v2' = - v2 ->
  meq 1 (mmul 1 (mxl (RotationGate_mat v0' v1' v2' t it c s)) (mxl (RotationGate_mat v0 v1 v2 t it c s))) mid.
Proof.
  intros v0 v1 v2 t it c s v0' v1' v2' N H -> -> ->. nrm_hyps N M1. cs_hyps H M2.
  unfold RotationGate_mat. mx_meq [M1 M2].
Qed.
Theorem C03_RotationGate_zero_inverse : forall a0 a1 a2 a3 a4 a5 a6 b0 b1 b2 b3 b4 b5 b6 : K,
  meq 1 (mmul 1 (mxl (RotationGate_mat0 b0 b1 b2 b3 b4 b5 b6)) (mxl (RotationGate_mat0 a0 a1 a2 a3 a4 a5 a6))) mid.
Proof. intros. unfold RotationGate_mat0. mx_meq []. Qed.

(** the repaired forms (proposed_fixes/C03-*.diff) *)
(** PhaseFactorGate(-phi, nwires), any number of wires *)
Theorem C03_PhaseFactorGate_inverse : forall (n : nat) (x x' : K), unit_ok x -> x' = x^* ->
  meq (PhaseFactorGate_num_wires n)
      (mmul (PhaseFactorGate_num_wires n) (PhaseFactorGate_bmx false n [x']) (PhaseFactorGate_bmx false n [x])) mid.
Proof.
  intros n x x' H ->. unfold PhaseFactorGate_bmx, PhaseFactorGate_scalar. cbn [nth].
  apply mscid_inverse. apply unit_comm. exact H.
Qed.
(** SxGate.inverse() = RxGate(-pi/2): atoms (h, -h) *)
Theorem C03_SxGate_inverse : forall r h c' s' : K, h_ok r h -> c' = h -> s' = - h ->
  meq 1 (mmul 1 (mxl (RxGate_mat c' s')) (mxl (SxGate_mat r h))) mid.
Proof. intros r h c' s' H -> ->. h_hyps H M. unfold RxGate_mat, SxGate_mat. mx_meq [M]. Qed.
(** ISwapGate.inverse() = GeneralGate(self.as_matrix().conj().T, 2): adjoint of a unitary *)
Theorem C03_ISwapGate_inverse :
  meq 2 (mmul 2 (madj (mxl (ISwapGate_mat (K:=K)))) (mxl ISwapGate_mat)) mid.
Proof. unfold ISwapGate_mat. mx_meq []. Qed.
(** what `return self` would need and does not have: Sx*Sx = -iX and iSWAP*iSWAP = Z(x)Z are not 1 *)
Theorem C03_SxGate_ISwapGate_are_not_involutions : forall r h : K, h_ok r h ->
  meq 1 (mmul 1 (mxl (SxGate_mat r h)) (mxl (SxGate_mat r h))) (mscal (- sI) pX)
  /\ meq 2 (mmul 2 (mxl (ISwapGate_mat (K:=K))) (mxl ISwapGate_mat)) pZZ.
Proof.
  intros r h H. h_hyps H M. unfold SxGate_mat, ISwapGate_mat, pZZ, pZ, pX. split; mx_meq [M].
Qed.
End C03.
Print Assumptions C03_IdentityGate_involution.
Print Assumptions C03_PauliXGate_involution.
Print Assumptions C03_PauliYGate_involution.
Print Assumptions C03_PauliZGate_involution.
Print Assumptions C03_HadamardGate_involution.
Print Assumptions C03_SGate_inverse.
Print Assumptions C03_SAdjGate_inverse.
Print Assumptions C03_TGate_inverse.
Print Assumptions C03_TAdjGate_inverse.
Print Assumptions C03_RxGate_inverse.
Print Assumptions C03_RyGate_inverse.
Print Assumptions C03_RxxGate_inverse.
Print Assumptions C03_RzGate_inverse.
Print Assumptions C03_RzzGate_inverse.
Print Assumptions C03_RotationGate_zero_inverse.
Print Assumptions C03_SxGate_inverse.
Print Assumptions C03_ISwapGate_inverse.
Print Assumptions C03_SxGate_ISwapGate_are_not_involutions.
Print Assumptions C03_RyyGate_inverse.
Print Assumptions C03_RotationGate_inverse.
Print Assumptions C03_PhaseFactorGate_inverse.

(** ------------------------------------------------------------------ part 3: same particles, same order *)
Theorem C03_inverse_same_particles : forall (c : gcls) (e : penv), typed_env gen_db e ->
  inv_particles gen_db c e = eval_pform (db_part gen_db c) e.
Proof.
  intros c e T.
  rewrite (inv_particles_ext gen_db c e _ (env4_eta e)), (eval_pform_ext _ e _ (env4_eta e)).
  pose proof (T 0%nat) as T0; pose proof (T 1%nat) as T1; pose proof (T 2%nat) as T2; pose proof (T 3%nat) as T3.
  gen_unfold_in T0; gen_unfold_in T1; gen_unfold_in T2; gen_unfold_in T3.
  destruct (e 0%nat) as [| ? | [| ? ?]]; try discriminate T0;
  destruct (e 1%nat) as [| ? | [| ? ?]]; try discriminate T1;
  destruct (e 2%nat) as [| ? | [| ? ?]]; try discriminate T2;
  destruct (e 3%nat) as [| ? | [| ? ?]]; try discriminate T3;
  destruct c; reflexivity.
Qed.
Print Assumptions C03_inverse_same_particles.

(** ------------------------------------------------------------------ part 2: all real parameters *)
Ltac expose := expose_R1; gen_unfold; expose_R2.
Local Open Scope R_scope.

(** the statement, uniformly: for the guard bits the code would compute *)
Definition inverse_ok (c : gcls) (nw n : nat) (params : list R) : Prop :=
  forall g g' : bool,
    guard_ok gen_db c params g ->
    guard_ok gen_db (inv_cls c (db_inv gen_db c)) (inv_params gen_db c params) g' ->
    meq nw (mmul nw (inv_matrix_R gen_db c n params g g') (matrix_R gen_db c n params g)) mid.

Theorem C03_IdentityGate_inverse_R : inverse_ok cIdentityGate 1 0 [].
Proof. intros g g'. expose. intros -> ->. apply C03_IdentityGate_involution. Qed.
Theorem C03_PauliXGate_inverse_R : inverse_ok cPauliXGate 1 0 [].
Proof. intros g g'. expose. intros -> ->. apply C03_PauliXGate_involution. Qed.
Theorem C03_PauliYGate_inverse_R : inverse_ok cPauliYGate 1 0 [].
Proof. intros g g'. expose. intros -> ->. apply C03_PauliYGate_involution. Qed.
Theorem C03_PauliZGate_inverse_R : inverse_ok cPauliZGate 1 0 [].
Proof. intros g g'. expose. intros -> ->. apply C03_PauliZGate_involution. Qed.
Theorem C03_HadamardGate_inverse_R : inverse_ok cHadamardGate 1 0 [].
Proof. intros g g'. expose. intros -> ->. apply C03_HadamardGate_involution. apply h_ok_R. Qed.
Theorem C03_SGate_inverse_R : inverse_ok cSGate 1 0 [].
Proof. intros g g'. expose. intros -> ->. apply C03_SGate_inverse. Qed.
Theorem C03_SAdjGate_inverse_R : inverse_ok cSAdjGate 1 0 [].
Proof. intros g g'. expose. intros -> ->. apply C03_SAdjGate_inverse. Qed.
Theorem C03_TGate_inverse_R : inverse_ok cTGate 1 0 [].
Proof. intros g g'. expose. intros -> ->. apply C03_TGate_inverse. apply h_ok_R. Qed.
Theorem C03_TAdjGate_inverse_R : inverse_ok cTAdjGate 1 0 [].
Proof. intros g g'. expose. intros -> ->. apply C03_TAdjGate_inverse. apply h_ok_R. Qed.

Theorem C03_RxGate_inverse_R : forall theta : R, inverse_ok cRxGate 1 0 [theta].
Proof.
  intros theta g g'. expose. intros -> ->.
  apply C03_RxGate_inverse; [apply cs_ok_R | apply cos_neg_eq; lra | apply sin_neg_eq; lra].
Qed.
Print Assumptions C03_IdentityGate_inverse_R.
Print Assumptions C03_PauliXGate_inverse_R.
Print Assumptions C03_PauliYGate_inverse_R.
Print Assumptions C03_PauliZGate_inverse_R.
Print Assumptions C03_HadamardGate_inverse_R.
Print Assumptions C03_SGate_inverse_R.
Print Assumptions C03_SAdjGate_inverse_R.
Print Assumptions C03_TGate_inverse_R.
Print Assumptions C03_TAdjGate_inverse_R.
Print Assumptions C03_RxGate_inverse_R.
Theorem C03_RyGate_inverse_R : forall theta : R, inverse_ok cRyGate 1 0 [theta].
Proof.
  intros theta g g'. expose. intros -> ->.
  apply C03_RyGate_inverse; [apply cs_ok_R | apply cos_neg_eq; lra | apply sin_neg_eq; lra].
Qed.
Print Assumptions C03_RyGate_inverse_R.
Theorem C03_RzGate_inverse_R : forall theta : R, inverse_ok cRzGate 1 0 [theta].
Proof.
  intros theta g g'. expose. intros -> ->.
  apply C03_RzGate_inverse; [apply unit_ok_R | apply expi_neg_eq; lra].
Qed.
Print Assumptions C03_RzGate_inverse_R.
Theorem C03_RxxGate_inverse_R : forall theta : R, inverse_ok cRxxGate 2 0 [theta].
Proof.
  intros theta g g'. expose. intros -> ->.
  apply C03_RxxGate_inverse; [apply cs_ok_R | apply cos_neg_eq; lra | apply sin_neg_eq; lra].
Qed.
Print Assumptions C03_RxxGate_inverse_R.
Theorem C03_RyyGate_inverse_R : forall theta : R, inverse_ok cRyyGate 2 0 [theta].
Proof.
  intros theta g g'. expose. intros -> ->.
  apply C03_RyyGate_inverse; [apply cs_ok_R | apply cos_neg_eq; lra | apply sin_neg_eq; lra].
Qed.
Theorem C03_RzzGate_inverse_R : forall theta : R, inverse_ok cRzzGate 2 0 [theta].
Proof.
  intros theta g g'. expose. intros -> ->.
  apply C03_RzzGate_inverse; [apply unit_ok_R | apply expi_neg_eq; lra].
Qed.
Print Assumptions C03_RzzGate_inverse_R.
Print Assumptions C03_RyyGate_inverse_R.

Theorem C03_RotationGate_inverse_R : forall v0 v1 v2 : R, inverse_ok cRotationGate 1 0 [v0; v1; v2].
Proof.
  intros v0 v1 v2 g g'. expose. rewrite !norm_neg. intros G G'.
  assert (E : g' = g).
  { destruct g, g'; try reflexivity; exfalso.
    - destruct G as [G _], G' as [_ G']. discriminate (G' (G eq_refl)).
    - destruct G as [_ G], G' as [G' _]. discriminate (G (G' eq_refl)). }
  subst g'. destruct g.
  - apply (C03_RotationGate_zero_inverse (K:=CS)).
  - apply C03_RotationGate_inverse; try apply RtoC_opp_K; [|apply cs_ok_R].
    apply nrm_ok_R. intros Z. destruct G as [_ G]. discriminate (G Z).
Qed.
Print Assumptions C03_RotationGate_inverse_R.

(** repaired forms *)
Theorem C03_PhaseFactorGate_inverse_R : forall (n : nat) (phi : R),
  inverse_ok cPhaseFactorGate (db_nw gen_db cPhaseFactorGate n) n [phi].
Proof.
  intros n phi g g'. expose. intros -> ->.
  apply (C03_PhaseFactorGate_inverse (K:=CS)); [apply unit_ok_R | apply expi_neg_eq; lra].
Qed.
Print Assumptions C03_PhaseFactorGate_inverse_R.
Theorem C03_SxGate_inverse_R : inverse_ok cSxGate 1 0 [].
Proof.
  intros g g'. expose. intros -> ->.
  apply C03_SxGate_inverse; [apply h_ok_R | |].
  - rewrite (cos_neg_eq _ (PI / 4)) by lra. apply cos_PI4_K.
  - rewrite (sin_neg_eq _ (PI / 4)) by lra. rewrite sin_PI4_K. reflexivity.
Qed.
Theorem C03_ISwapGate_inverse_R : inverse_ok cISwapGate 2 0 [].
Proof. intros g g'. expose. intros -> ->. apply (C03_ISwapGate_inverse (K:=CS)). Qed.
Print Assumptions C03_SxGate_inverse_R.

(** non-vacuity: a non-trivial concrete instance over the Gaussian integers
    (Ryy with (c, s) = (3, 4): matrix(c, -s) * matrix(c, s) = 25 * 1), and a particle environment
    where the inverse of a bound iSWAP reports the same two qubits in the same order *)
From Qib Require Import Base.Inst.
Example C03_instance :
  dense 2 (mmul 2 (mxl (RyyGate_mat ((3, 0)%Z : ZI) (-4, 0)%Z)) (mxl (RyyGate_mat ((3, 0)%Z : ZI) (4, 0)%Z)))
  = dense 2 (mscid ((25, 0)%Z : ZI))
  /\ (let e := fun a => match a with 1%nat => VObj 7 | 2%nat => VObj 5 | 0%nat => VList [] | _ => VNone end in
      inv_particles gen_db cISwapGate e = [Some 7%nat; Some 5%nat]).
Proof. vm_compute. split; reflexivity. Qed.

Print Assumptions C03_ISwapGate_inverse_R.
