(** C16 - Hermiticity claims are sound (elementary gate classes).
    [Run.GenGates] (regenerated from gates.py on every run) contains the is_hermitian()
    constant and the closed-form template of every class.  For every class:
        is_hermitian = true  ->  for all atoms (satisfying their algebraic hypotheses)
                                 the matrix equals its conjugate transpose.
    The proof script is the same for every class: `discriminate` the flag if it is false,
    otherwise prove the template Hermitian.  Flipping a constant in the source to True turns
    the obligation into `forall atoms, hermitian (template)`, which is not provable (the check's
    oracle then reports a concrete parameter value).
    Composite gates, Pauli operators, field operators, Hamiltonians: their own property files. *)
From Coq Require Import Reals Lra.
From Coquelicot Require Import Complex.
From Qib Require Import Gates.ElemReal.
From Run Require Import GenGates.

Section C16.
Context {K : Scalar} {L : ScalarLaws K}.
Local Open Scope K_scope.
Add Ring KringC16 : (s_ring K L).

Ltac herm T := first [ discriminate | intros _; intros; unfold T; mx_hermitian [] ].

Theorem C16_IdentityGate : IdentityGate_is_hermitian = true -> hermitian 1 (mxl (IdentityGate_mat (K:=K))).
Proof. herm @IdentityGate_mat. Qed.
Theorem C16_PauliXGate : PauliXGate_is_hermitian = true -> hermitian 1 (mxl (PauliXGate_mat (K:=K))).
Proof. herm @PauliXGate_mat. Qed.
Theorem C16_PauliYGate : PauliYGate_is_hermitian = true -> hermitian 1 (mxl (PauliYGate_mat (K:=K))).
Proof. herm @PauliYGate_mat. Qed.
Theorem C16_PauliZGate : PauliZGate_is_hermitian = true -> hermitian 1 (mxl (PauliZGate_mat (K:=K))).
Proof. herm @PauliZGate_mat. Qed.
Theorem C16_HadamardGate : HadamardGate_is_hermitian = true ->
  forall r h : K, r^* = r -> h^* = h -> hermitian 1 (mxl (HadamardGate_mat r h)).
Proof. herm @HadamardGate_mat. Qed.
Theorem C16_SxGate : SxGate_is_hermitian = true ->
  forall r h : K, r^* = r -> h^* = h -> hermitian 1 (mxl (SxGate_mat r h)).
Proof. herm @SxGate_mat. Qed.
Theorem C16_RxGate : RxGate_is_hermitian = true ->
  forall c s : K, c^* = c -> s^* = s -> hermitian 1 (mxl (RxGate_mat c s)).
Proof. herm @RxGate_mat. Qed.
Theorem C16_RyGate : RyGate_is_hermitian = true ->
  forall c s : K, c^* = c -> s^* = s -> hermitian 1 (mxl (RyGate_mat c s)).
Proof. herm @RyGate_mat. Qed.
Theorem C16_RzGate : RzGate_is_hermitian = true -> forall x : K, hermitian 1 (mxl (RzGate_mat x)).
Proof. herm @RzGate_mat. Qed.
Theorem C16_RotationGate : RotationGate_is_hermitian = true ->
  forall v0 v1 v2 t it c s : K, v0^* = v0 -> v1^* = v1 -> v2^* = v2 -> t^* = t -> it^* = it -> c^* = c -> s^* = s ->
  hermitian 1 (mxl (RotationGate_mat v0 v1 v2 t it c s)).
Proof. herm @RotationGate_mat. Qed.
Theorem C16_SGate : SGate_is_hermitian = true -> hermitian 1 (mxl (SGate_mat (K:=K))).
Proof. herm @SGate_mat. Qed.
Theorem C16_SAdjGate : SAdjGate_is_hermitian = true -> hermitian 1 (mxl (SAdjGate_mat (K:=K))).
Proof. herm @SAdjGate_mat. Qed.
Theorem C16_TGate : TGate_is_hermitian = true ->
  forall r h : K, r^* = r -> h^* = h -> hermitian 1 (mxl (TGate_mat r h)).
Proof. herm @TGate_mat. Qed.
Theorem C16_TAdjGate : TAdjGate_is_hermitian = true ->
  forall r h : K, r^* = r -> h^* = h -> hermitian 1 (mxl (TAdjGate_mat r h)).
Proof. herm @TAdjGate_mat. Qed.
Theorem C16_PhaseFactorGate : PhaseFactorGate_is_hermitian = true ->
  forall (n : nat) (x : K), hermitian n (PhaseFactorGate_bmx false n [x]).
Proof. discriminate. Qed.
Theorem C16_RxxGate : RxxGate_is_hermitian = true ->
  forall c s : K, c^* = c -> s^* = s -> hermitian 2 (mxl (RxxGate_mat c s)).
Proof. herm @RxxGate_mat. Qed.
Theorem C16_RyyGate : RyyGate_is_hermitian = true ->
  forall c s : K, c^* = c -> s^* = s -> hermitian 2 (mxl (RyyGate_mat c s)).
Proof. herm @RyyGate_mat. Qed.
Theorem C16_RzzGate : RzzGate_is_hermitian = true -> forall x : K, hermitian 2 (mxl (RzzGate_mat x)).
Proof. herm @RzzGate_mat. Qed.
Theorem C16_ISwapGate : ISwapGate_is_hermitian = true -> hermitian 2 (mxl (ISwapGate_mat (K:=K))).
Proof. herm @ISwapGate_mat. Qed.
End C16.
Print Assumptions C16_IdentityGate.
Print Assumptions C16_PauliXGate.
Print Assumptions C16_PauliZGate.
Print Assumptions C16_SxGate.
Print Assumptions C16_RxGate.
Print Assumptions C16_RyGate.
Print Assumptions C16_RzGate.
Print Assumptions C16_RotationGate.
Print Assumptions C16_SGate.
Print Assumptions C16_SAdjGate.
Print Assumptions C16_TGate.
Print Assumptions C16_TAdjGate.
Print Assumptions C16_PhaseFactorGate.
Print Assumptions C16_RxxGate.
Print Assumptions C16_RyyGate.
Print Assumptions C16_ISwapGate.
Print Assumptions C16_PauliYGate.
Print Assumptions C16_HadamardGate.
Print Assumptions C16_RzzGate.

(** the claims that are made, at the complex numbers with the atoms of the generated specifications *)
Ltac expose := expose_R1; gen_unfold; expose_R2.
Theorem C16_claimed_hermitian_R :
  (db_herm gen_db cIdentityGate = true -> hermitian 1 (matrix_R gen_db cIdentityGate 0 [] false)) /\
  (db_herm gen_db cPauliXGate = true -> hermitian 1 (matrix_R gen_db cPauliXGate 0 [] false)) /\
  (db_herm gen_db cPauliYGate = true -> hermitian 1 (matrix_R gen_db cPauliYGate 0 [] false)) /\
  (db_herm gen_db cPauliZGate = true -> hermitian 1 (matrix_R gen_db cPauliZGate 0 [] false)) /\
  (db_herm gen_db cHadamardGate = true -> hermitian 1 (matrix_R gen_db cHadamardGate 0 [] false)).
Proof.
  split; [|split; [|split; [|split]]]; expose; intros H.
  - apply C16_IdentityGate; exact H.
  - apply C16_PauliXGate; exact H.
  - apply C16_PauliYGate; exact H.
  - apply C16_PauliZGate; exact H.
  - apply C16_HadamardGate; [exact H|apply real_R|apply real_R].
Qed.
Print Assumptions C16_claimed_hermitian_R.

(** the false answers are not lazy: a parametrised gate whose flag is false is in general not
    Hermitian (so `False` is the only sound constant): witness Rz with x = i over Z[i] *)
From Qib Require Import Base.Inst.
Example C16_instance :
  dense 1 (madj (mxl (RzGate_mat ((0, 1)%Z : ZI)))) <> dense 1 (mxl (RzGate_mat ((0, 1)%Z : ZI)))
  /\ dense 1 (madj (mxl (PauliYGate_mat (K:=ZI)))) = dense 1 (mxl (PauliYGate_mat (K:=ZI))).
Proof. split; [vm_compute; discriminate | vm_compute; reflexivity]. Qed.
