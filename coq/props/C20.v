(** C20 - VQE energies are true expectation values of a unitary ansatz.
    Property theorems only.  [Run.GenVqe] is regenerated on every run by gen/vqe.py from
      /repo/src/qib/algorithms/vqe/vqe.py             (measure_expectation_statevector)
      /repo/src/qib/algorithms/vqe/ansatz/ansatz.py   (qUCC.as_matrix)
    so the statements are about the expression the code contains now (which copy of the state
    is conjugated, what is done to the operator matrix; the operator kinds of the cluster terms,
    the sign in the expm argument, the product order of the sd form).
    K is any commutative *-ring with i.

    PARTIAL: the clauses "within P's spectral range for normalised psi" and "energies reported
    by the optimiser never undercut the lowest eigenvalue in the particle sector" rest on
    BACKGROUND that is not proved here and is named where used:
      (B1) exp of an anti-Hermitian matrix is unitary,
      (B2) exp(G) commutes with everything G commutes with,
      (B3) Rayleigh / variational principle: lambda_min <= psi^dagger P psi <= lambda_max for
           Hermitian P and normalised psi.  Proved here (theorems 6a, 6b): the bound for EVERY P
           that is unitarily diagonalisable with real eigenvalues, over C.  What remains
           background is the spectral theorem (every Hermitian matrix is so diagonalisable) and,
           for the "particle sector" clause, that H restricted to a sector is again Hermitian.
    Everything else is proved for every size. *)
From Qib Require Import VQE.VqeProofs VQE.VqeHistProofs Base.Inst.
From Run Require Import GenVqe.

(* ------------------------------------------------------------------ expectation values *)
(** 0. (does not depend on the regenerated definitions) the expression before the repair,
    (state.T @ M) @ state, is psi^T P psi: on Y and (1, i) it gives 0 instead of 2 = psi^dagger Y psi,
    and on Z and (1+i, 0) it is not even real although Z is Hermitian. *)
Theorem C20_expectation_unrepaired_refuted :
  (exists (P : BMx ZI) (psi : vec (K:=ZI)),
      hermitian 1 P /\ expect expect_src_unrepaired 1 P psi <> quad 1 P psi) /\
  (exists (P : BMx ZI) (psi : vec (K:=ZI)),
      hermitian 1 P /\ sconj (expect expect_src_unrepaired 1 P psi) <> expect expect_src_unrepaired 1 P psi).
Proof.
  split.
  - exists (pmatrix {| pz := [true]; px := [true]; pq := 0 |}), (vec_of_list (K:=ZI) [(1, 0)%Z; (0, 1)%Z]).
    split; [apply (pherm_sound (L:=ZI_laws)); reflexivity|vm_compute; discriminate].
  - exists (pmatrix {| pz := [true]; px := [false]; pq := 0 |}), (vec_of_list (K:=ZI) [(1, 1)%Z; (0, 0)%Z]).
    split; [apply (pherm_sound (L:=ZI_laws)); reflexivity|vm_compute; discriminate].
Qed.
Print Assumptions C20_expectation_unrepaired_refuted.

(* ------------------------------------------------------------------ the coupled-cluster ansatz *)
Lemma gen_qucc_ok : qucc_ok gen_qucc_s /\ qucc_ok gen_qucc_d /\ qucc_ok gen_qucc_sd.
Proof.
  repeat match goal with |- _ /\ _ => split end;
    cbv [gen_qucc_s gen_qucc_d gen_qucc_sd qb_kinds qb_signs];
    repeat (constructor; try (apply balancedb_ok; reflexivity); try reflexivity).
Qed.

Definition gen_branches : list qucc_branch := [gen_qucc_s; gen_qucc_d; gen_qucc_sd].

(** 7. bit-string level, every number of sites, every index tuple: each excitation term
    a_p^dag a_q / a_p^dag a_q^dag a_r a_s of every setting maps an occupation basis state to
    +- a basis state with the same particle number (or to 0) *)
Theorem C20_qucc_terms_conserve_particle_number :
  forall br, In br gen_branches -> forall kinds, In kinds (qb_kinds br) ->
  forall (idx : list nat) (b : list bool) (s : bool) (b' : list bool),
    length idx = length kinds ->
    apply_ops (combine kinds idx) b = Some (s, b') ->
    length b' = length b /\ popcount b' = popcount b.
Proof.
  intros br Hbr kinds Hk idx b s b' Hl H.
  destruct gen_qucc_ok as (Hs & Hd & Hsd).
  assert (Hok : qucc_ok br) by (destruct Hbr as [<-|[<-|[<-|[]]]]; assumption).
  destruct Hok as [Hb _]. rewrite Forall_forall in Hb.
  eapply term_conserves_number; eauto.
Qed.
Print Assumptions C20_qucc_terms_conserve_particle_number.

(** 8. the exponent T +- T^dagger handed to expm is anti-Hermitian for every parameter vector
    and commutes with the particle-number operator, for every number of sites and every
    setting s / d / sd *)
Theorem C20_qucc_exponent_antihermitian_and_number_conserving :
  forall (K : Scalar) (L : ScalarLaws K) (Lsites : nat) br, In br gen_branches ->
  forall (thetas : list (list nat -> K)) (G : BMx K), In G (generators Lsites br thetas) ->
    antiherm Lsites G /\ commutes Lsites G Nop.
Proof.
  intros K L Lsites br Hbr thetas G HG.
  destruct gen_qucc_ok as (Hs & Hd & Hsd).
  assert (Hok : qucc_ok br) by (destruct Hbr as [<-|[<-|[<-|[]]]]; assumption).
  destruct Hok as [Hk Hsg]. rewrite Forall_forall in Hk, Hsg.
  destruct (generators_spec _ _ _ _ HG) as (kinds & sg & theta & Hkin & Hs' & ->).
  split.
  - rewrite (Hsg sg Hs'). apply exponent_antiherm.
  - apply NC_commutes, exponent_NC, cluster_NC, Hk, Hkin.
Qed.
Print Assumptions C20_qucc_exponent_antihermitian_and_number_conserving.

(** 9. FULL STATEMENT (for scipy's expm) NOT PROVED: qUCC.as_matrix(params) is unitary and
    commutes with N.  Proved: it follows from (B1) and (B2), which appear as hypotheses about
    [expm]; the product form of `sd` is handled here (products of unitaries / of N-commuting
    matrices). *)
Theorem C20_qucc_unitary_and_number_conserving_partial :
  forall (K : Scalar) (L : ScalarLaws K) (expm : BMx K -> BMx K),
    (forall n G, antiherm n G -> unitary n (expm G)) ->                           (* B1 *)
    (forall n G A, commutes n G A -> commutes n (expm G) A) ->                    (* B2 *)
  forall (Lsites : nat) br, In br gen_branches -> forall thetas : list (list nat -> K),
    unitary Lsites (qucc_mx expm Lsites br thetas) /\
    commutes Lsites (qucc_mx expm Lsites br thetas) Nop.
Proof.
  intros K L expm B1 B2 Lsites br Hbr thetas.
  destruct gen_qucc_ok as (Hs & Hd & Hsd).
  assert (Hok : qucc_ok br) by (destruct Hbr as [<-|[<-|[<-|[]]]]; assumption).
  apply qucc_unitary_number; assumption.
Qed.
Print Assumptions C20_qucc_unitary_and_number_conserving_partial.

(* ------------------------------------------------------------------ expectation values, regenerated expression *)
(** 1. the measured energy is psi^dagger P psi (holds for the repaired expression
    state.conj().T @ M @ state; does not compile against (state.T @ M) @ state) *)
Theorem C20_expectation_is_psi_dagger_P_psi :
  forall (K : Scalar) (n : nat) (P : BMx K) (psi : vec),
    expect gen_expect n P psi = quad n P psi.
Proof. intros. reflexivity. Qed.
Print Assumptions C20_expectation_is_psi_dagger_P_psi.

(** 2. real for Hermitian P *)
Theorem C20_real_for_hermitian :
  forall (K : Scalar) (L : ScalarLaws K) (n : nat) (P : BMx K) (psi : vec),
    hermitian n P -> sconj (expect gen_expect n P psi) = expect gen_expect n P psi.
Proof. intros. rewrite C20_expectation_is_psi_dagger_P_psi. apply quad_real; assumption. Qed.
Print Assumptions C20_real_for_hermitian.

(** 3. in particular for a Pauli operator whose strings are Hermitian and whose weights are real
    (matrix of the operator = the C09 model) *)
Theorem C20_real_for_hermitian_pauli_operator :
  forall (K : Scalar) (L : ScalarLaws K) (n : nat) (op : list (wstr (K:=K))) (psi : vec),
    Forall (fun w => pherm (fst w) = true /\ sconj (snd w) = snd w) op ->
    sconj (expect gen_expect n (opmatrix op) psi) = expect gen_expect n (opmatrix op) psi.
Proof. intros K L n op psi H. apply (C20_real_for_hermitian K L). apply opmatrix_hermitian; assumption. Qed.
Print Assumptions C20_real_for_hermitian_pauli_operator.

(** 4. invariant under a global phase of psi *)
Theorem C20_global_phase_invariant :
  forall (K : Scalar) (L : ScalarLaws K) (n : nat) (P : BMx K) (psi : vec) (u : K),
    smul u (sconj u) = s1 ->
    expect gen_expect n P (fun b => smul u (psi b)) = expect gen_expect n P psi.
Proof. intros. rewrite !C20_expectation_is_psi_dagger_P_psi. apply quad_phase; assumption. Qed.
Print Assumptions C20_global_phase_invariant.

(** 5. equal to the eigenvalue on a normalised eigenvector *)
Theorem C20_eigenvector_gives_eigenvalue :
  forall (K : Scalar) (L : ScalarLaws K) (n : nat) (P : BMx K) (psi : vec) (lam : K),
    (forall i, length i = n -> mvec n P psi i = smul lam (psi i)) -> norm2 n psi = s1 ->
    expect gen_expect n P psi = lam.
Proof. intros. rewrite C20_expectation_is_psi_dagger_P_psi. apply quad_eigen; assumption. Qed.
Print Assumptions C20_eigenvector_gives_eigenvalue.

(** 6. FULL STATEMENT NOT PROVED: for Hermitian P and psi^dagger psi = 1,
         lambda_min(P) <= expect P psi <= lambda_max(P).
    Proved (the algebraic half of (B3)): in P's eigenbasis the energy is the combination of the
    eigenvalues d_i with the weights |psi_i|^2 (which sum to psi^dagger psi). *)
Theorem C20_spectral_range_partial :
  forall (K : Scalar) (L : ScalarLaws K) (n : nat) (d : list bool -> K) (psi : vec),
    expect gen_expect n (diag_mx d) psi = bsum n (fun i => smul (d i) (smul (sconj (psi i)) (psi i)))
    /\ norm2 n psi = bsum n (fun i => smul (sconj (psi i)) (psi i)).
Proof. intros. split; [rewrite C20_expectation_is_psi_dagger_P_psi; apply quad_diag|reflexivity]. Qed.
Print Assumptions C20_spectral_range_partial.

(** 6a. For every P = V D V^dagger (V unitary, D = diag d; any commutative *-ring): the energy is
    the combination of the eigenvalues d_k with the weights |phi_k|^2, phi = V^dagger psi, and
    the weights sum to psi^dagger psi. *)
Theorem C20_expectation_in_eigenbasis :
  forall (K : Scalar) (L : ScalarLaws K) (n : nat) (P V : BMx K) (d : list bool -> K) (psi : vec),
    unitary n V -> diagonalises n V d P ->
    expect gen_expect n P psi
      = bsum n (fun k => smul (d k) (smul (sconj (vadj n V psi k)) (vadj n V psi k)))
    /\ norm2 n (vadj n V psi) = norm2 n psi.
Proof.
  intros K L n P V d psi HV HP. split.
  - rewrite C20_expectation_is_psi_dagger_P_psi. apply quad_eigenbasis. exact HP.
  - apply vadj_norm. exact HV.
Qed.
Print Assumptions C20_expectation_in_eigenbasis.

(** (the hypotheses of 6a / 6b hold at least for every diagonal P, with V = identity; so 6a
    contains the diagonal statement 6) *)
Theorem C20_eigenbasis_hypotheses_hold_for_diagonal :
  forall (K : Scalar) (L : ScalarLaws K) (n : nat) (d : list bool -> K),
    unitary n (mid (K:=K)) /\ diagonalises n mid d (diag_mx d).
Proof. intros. split; [apply unitary_mid|apply diagonalises_diag]. Qed.
Print Assumptions C20_eigenbasis_hypotheses_hold_for_diagonal.

(** non-vacuity: Y on (1, i) over the Gaussian integers (psi^dagger psi = 2, energy 2 = 1 * 2);
    a double excitation on 4 sites moves two particles and keeps their number *)
Example C20_instance :
  let Y : BMx ZI := pmatrix {| pz := [true]; px := [true]; pq := 0 |} in
  let psi : vec (K:=ZI) := vec_of_list (K:=ZI) [(1, 0)%Z; (0, 1)%Z] in
  expect gen_expect 1 Y psi = (2, 0)%Z /\ norm2 1 psi = (2, 0)%Z /\
  map (mvec 1 Y psi) (all_bits 1) = map psi (all_bits 1) /\
  apply_ops (combine [true; true; false; false] [0; 2; 1; 3]%nat) [false; true; false; true]
  = Some (true, [true; false; true; false]) /\
  dense 2 (exponent (K:=ZI) (-1) (cluster_mx 2 [true; false] (theta_of_list (K:=ZI) 2 [(1,0); (2,0); (3,0); (4,0)]%Z)))
  = [[(0,0); (0,0); (0,0); (0,0)]; [(0,0); (0,0); (1,0); (0,0)]; [(0,0); (-1,0); (0,0); (0,0)]; [(0,0); (0,0); (0,0); (0,0)]]%Z.
Proof. vm_compute. repeat split. Qed.

(* ================================================================== histories / object lifetimes *)
(** The statements above are about ONE call.  Below: a VQE instance used over time.  The world
    contains the instance (ansatz, initial state, optimal parameters of the last run) and the
    CALLER's operator objects, which the caller may replace or change IN PLACE between runs
    (add_pauli_string, weights, ...).  [gen_run] is what gen/vqe.py reads from VQE.run: the energy
    function measures the operator object it was passed, in the state
    ansatz.as_matrix(params) @ initial_state, both read at call time; the instance keeps nothing
    else ([OpArgument]; a matrix kept on the instance is refused by the translator and is the
    [OpCachedById] of the model).  The optimiser is an ARBITRARY function [choose] from energy
    functions to parameter vectors. *)

(** 9. ANY history of replacing / changing in place the initial state, the ansatz, the operator
    objects, and of run / expectation_secondary_ops calls: at every call the inputs are what the
    caller's changes made of them (runs do not touch them), and every run reports
    psi^dagger P psi for P = the operator object passed to it AS IT IS AT THAT CALL and
    psi = ansatz(x) initial_state with the ansatz / initial state current at that call, x = the
    optimiser's choice for exactly this energy function. *)
Theorem C20_history_every_run_reports_the_current_expectation :
  forall (K : Scalar) (A : Type) (choose : (A -> K) -> A) (n : nat)
         (st0 : vstate A) (cs : list (call (vsetter A) vgetter)),
    map (fun x => inputs A (snd x)) (handed_states (vset A) (vgeff A choose gen_expect n gen_run) st0 cs)
    = inputs_trace A (inputs A st0) cs /\
    forall a st, In (VRun a, st) (handed_states (vset A) (vgeff A choose gen_expect n gen_run) st0 cs) ->
      let f := fun x => quad n (op_now A st a) (mvec n (v_ans A st x) (v_init A st)) in
      vview A choose gen_expect n gen_run (VRun a) st = VEnergy A f (choose f) (f (choose f)).
Proof.
  intros K A choose n st0 cs. split; [apply vqe_inputs_trace|].
  intros a st _ f. rewrite run_reports_current by reflexivity. reflexivity.
Qed.
Print Assumptions C20_history_every_run_reports_the_current_expectation.

(** 9a. an in-place change of the operator object is what the next run on that object measures *)
Theorem C20_history_in_place_change_is_seen :
  forall (K : Scalar) (A : Type) (choose : (A -> K) -> A) (n : nat) (st : vstate A) (a : nat) (P : BMx K),
    (a < length (v_ops A st))%nat ->
    let st' := vset A (VMutOp A a P) st in
    let f := fun x => quad n P (mvec n (v_ans A st x) (v_init A st)) in
    vview A choose gen_expect n gen_run (VRun a) st' = VEnergy A f (choose f) (f (choose f)).
Proof.
  intros K A choose n st a P H st' f. rewrite run_reports_current by reflexivity.
  unfold st'. rewrite op_now_mut by exact H. reflexivity.
Qed.
Print Assumptions C20_history_in_place_change_is_seen.

(** 9b. heap side: results (OptimizeResult objects) handed out by earlier runs are unaffected by
    later calls; compiles only if run() returns the optimiser's own result object and stores
    nothing but the optimal parameters *)
Theorem C20_history_results_keep_their_value :
  forall (K : Scalar) (A : Type) (choose : (A -> K) -> A) (n : nat)
         (st0 : vstate A) (cs cs' : list (call (vsetter A) vgetter)),
    let set := vset A in
    let view := vview A choose gen_expect n gen_run in
    let geff := vgeff A choose gen_expect n gen_run in
    let I := kind_impl set view geff gen_vqe_getters in
    let w0 := kind_start set view geff gen_vqe_getters st0 in
    observed (irun I cs w0) = map Some (handed set view geff st0 cs) /\
    observed (irun I (cs ++ cs') w0)
    = observed (irun I cs w0) ++ map Some (handed set view geff (final set geff st0 cs) cs').
Proof.
  intros K A choose n st0 cs cs' set view geff I w0. split;
    [apply kind_fresh_observed|apply kind_fresh_earlier_unaffected]; reflexivity.
Qed.
Print Assumptions C20_history_results_keep_their_value.

(** 9c. (does not depend on the regenerated definitions) with a matrix kept on the instance and
    validated by the identity of the operator object, run; change the operator in place; run
    reports the energy of the OLD operator (2 instead of 5) *)
Theorem C20_history_matrix_cached_by_identity_refuted :
  exists (st0 : vstate (K:=ZI) unit) (cs : list (call (vsetter (K:=ZI) unit) vgetter)),
    let choose := fun _ : unit -> ZI => tt in
    let ex := {| ex_left := SConj; ex_mat := MId; ex_right := SId |} in
    map (reported unit) (handed (vset unit) (vview unit choose ex 0 {| rs_op := OpCachedById |})
                                (vgeff unit choose ex 0 {| rs_op := OpCachedById |}) st0 cs)
    <> map (reported unit) (handed (vset unit) (vview unit choose ex 0 {| rs_op := OpArgument |})
                                   (vgeff unit choose ex 0 {| rs_op := OpArgument |}) st0 cs).
Proof.
  exists {| v_ans := fun _ : unit => mid (K:=ZI); v_init := fun _ => (1, 0)%Z; v_opt := None;
            v_ops := [fun _ _ => (2, 0)%Z]; v_cache := None |},
         [CGet (VRun 0); CSet (VMutOp (K:=ZI) unit 0%nat (fun _ _ => (5, 0)%Z)); CGet (VRun 0)].
  intros choose ex. destruct cached_by_id_refuted as [E1 E2].
  cbv zeta in E1, E2. unfold choose, ex. rewrite E1, E2. discriminate.
Qed.
Print Assumptions C20_history_matrix_cached_by_identity_refuted.

(** 9d. value histories: measure_expectation_statevector on ONE operator object and ONE state
    array changed in place between the calls returns, at every call, psi^dagger P psi for the
    operator and state as they are at that call *)
Theorem C20_history_expectation_of_current_operator_and_state :
  forall (K : Scalar) (n : nat) (st0 : mstate (K:=K)) (cs : list (call (msetter (K:=K)) unit)),
    handed mset (mview gen_expect n) mgeff st0 cs
    = map (fun x => quad n (m_op (snd x)) (m_psi (snd x))) (handed_states mset mgeff st0 cs).
Proof. intros. reflexivity. Qed.
Print Assumptions C20_history_expectation_of_current_operator_and_state.

(* ------------------------------------------------------------------ over the complex numbers *)
From Coq Require Import Reals.
From Coquelicot Require Import Complex.
From Qib Require Import VQE.VqeReal.

(** 6b. Spectral range over C: P = V D V^dagger with V unitary and real eigenvalues d_k in
    [lo, hi], psi^dagger psi = 1  ==>  the measured energy is real and lies in [lo, hi].
    (With the spectral theorem - background - this is the clause "within P's spectral range for
    normalised psi" for every Hermitian P; take lo = lambda_min, hi = lambda_max.) *)
Theorem C20_spectral_range_complex_diagonalisable :
  forall (n : nat) (P V : BMx CV) (d : list bool -> R) (psi : vec (K:=CV)) (lo hi : R),
    unitary n V -> diagonalises n V (fun k => RtoC (d k)) P ->
    (forall k, length k = n -> (lo <= d k <= hi)%R) -> norm2 n psi = RtoC 1 ->
    (lo <= fst (expect gen_expect n P psi) <= hi)%R /\ snd (expect gen_expect n P psi) = 0%R.
Proof.
  intros n P V d psi lo hi HV HP Hd Hn. rewrite C20_expectation_is_psi_dagger_P_psi.
  apply (rayleigh_bounds n P V d psi lo hi); assumption.
Qed.
Print Assumptions C20_spectral_range_complex_diagonalisable.
