(** C01 - every gate reports a unitary matrix of size 2^num_wires (elementary classes).
    [Run.GenGates] is regenerated from /repo/src/qib/operator/gates.py on every run
    (gen/gates.py): the closed-form templates <Class>_mat over atoms, the atom specifications,
    num_wires and the array dimension.  Part 1 proves every template unitary over an arbitrary
    commutative *-ring with i*i = -1 under the algebraic hypotheses on its atoms; part 2
    instantiates at the complex numbers with the atoms computed from the generated atom
    specifications (for all real parameters; this is where the real-number axioms enter).
    Composite gates: coq/props/C01c.v. *)
From Coq Require Import Reals Lra.
From Coquelicot Require Import Complex.
From Qib Require Import Gates.ElemReal.
From Run Require Import GenGates.

(** ------------------------------------------------------------------ part 1: any *-ring *)
Section C01.
Context {K : Scalar} {L : ScalarLaws K}.
Local Open Scope K_scope.
Add Ring KringC01 : (s_ring K L).

Theorem C01_IdentityGate_unitary : unitary 1 (mxl (IdentityGate_mat (K:=K))).
Proof. unfold IdentityGate_mat. mx_unitary []. Qed.
Theorem C01_PauliXGate_unitary : unitary 1 (mxl (PauliXGate_mat (K:=K))).
Proof. unfold PauliXGate_mat. mx_unitary []. Qed.
Theorem C01_PauliYGate_unitary : unitary 1 (mxl (PauliYGate_mat (K:=K))).
Proof. unfold PauliYGate_mat. mx_unitary []. Qed.
Theorem C01_PauliZGate_unitary : unitary 1 (mxl (PauliZGate_mat (K:=K))).
Proof. unfold PauliZGate_mat. mx_unitary []. Qed.
Theorem C01_SGate_unitary : unitary 1 (mxl (SGate_mat (K:=K))).
Proof. unfold SGate_mat. mx_unitary []. Qed.
Theorem C01_SAdjGate_unitary : unitary 1 (mxl (SAdjGate_mat (K:=K))).
Proof. unfold SAdjGate_mat. mx_unitary []. Qed.
Theorem C01_ISwapGate_unitary : unitary 2 (mxl (ISwapGate_mat (K:=K))).
Proof. unfold ISwapGate_mat. mx_unitary []. Qed.

(** r = sqrt 2, h = 1/r *)
Theorem C01_HadamardGate_unitary : forall r h : K, h_ok r h -> unitary 1 (mxl (HadamardGate_mat r h)).
Proof. intros r h H. h_hyps H M. unfold HadamardGate_mat. mx_unitary [M]. Qed.
Theorem C01_SxGate_unitary : forall r h : K, h_ok r h -> unitary 1 (mxl (SxGate_mat r h)).
Proof. intros r h H. h_hyps H M. unfold SxGate_mat. mx_unitary [M]. Qed.
Theorem C01_TGate_unitary : forall r h : K, h_ok r h -> unitary 1 (mxl (TGate_mat r h)).
Proof. intros r h H. h_hyps H M. unfold TGate_mat. mx_unitary [M]. Qed.
Theorem C01_TAdjGate_unitary : forall r h : K, h_ok r h -> unitary 1 (mxl (TAdjGate_mat r h)).
Proof. intros r h H. h_hyps H M. unfold TAdjGate_mat. mx_unitary [M]. Qed.

(** c = cos(theta/2), s = sin(theta/2) *)
Theorem C01_RxGate_unitary : forall c s : K, cs_ok c s -> unitary 1 (mxl (RxGate_mat c s)).
Proof. intros c s H. cs_hyps H M. unfold RxGate_mat. mx_unitary [M]. Qed.
Theorem C01_RyGate_unitary : forall c s : K, cs_ok c s -> unitary 1 (mxl (RyGate_mat c s)).
Proof. intros c s H. cs_hyps H M. unfold RyGate_mat. mx_unitary [M]. Qed.
Theorem C01_RxxGate_unitary : forall c s : K, cs_ok c s -> unitary 2 (mxl (RxxGate_mat c s)).
Proof. intros c s H. cs_hyps H M. unfold RxxGate_mat. mx_unitary [M]. Qed.
Theorem C01_RyyGate_unitary : forall c s : K, cs_ok c s -> unitary 2 (mxl (RyyGate_mat c s)).
Proof. intros c s H. cs_hyps H M. unfold RyyGate_mat. mx_unitary [M]. Qed.

(** x = exp(i y), |x| = 1 *)
Theorem C01_RzGate_unitary : forall x : K, unit_ok x -> unitary 1 (mxl (RzGate_mat x)).
Proof. intros x H. unfold unit_ok in H. pose proof (unit_comm x H) as H'. unfold RzGate_mat. mx_unitary [H H']. Qed.
Theorem C01_RzzGate_unitary : forall x : K, unit_ok x -> unitary 2 (mxl (RzzGate_mat x)).
Proof. intros x H. unfold unit_ok in H. pose proof (unit_comm x H) as H'. unfold RzzGate_mat. mx_unitary [H H']. Qed.
(** any number of wires *)
Theorem C01_PhaseFactorGate_unitary : forall (n : nat) (x : K), unit_ok x ->
  unitary (PhaseFactorGate_num_wires n) (PhaseFactorGate_bmx false n [x]).
Proof. intros n x H. unfold PhaseFactorGate_bmx, PhaseFactorGate_scalar. apply mscid_unitary. exact H. Qed.

(** v = ntheta, t = |v| <> 0, it = 1/t, c = cos(t/2), s = sin(t/2); and the zero-vector branch *)
Theorem C01_RotationGate_unitary : forall v0 v1 v2 t it c s : K,
  nrm_ok v0 v1 v2 t it -> cs_ok c s -> unitary 1 (mxl (RotationGate_mat v0 v1 v2 t it c s)).
Proof.
  intros v0 v1 v2 t it c s N H. nrm_hyps N M1. cs_hyps H M2.
  unfold RotationGate_mat. mx_unitary [M1 M2].
Qed.
Theorem C01_RotationGate_zero_unitary : forall v0 v1 v2 t it c s : K,
  unitary 1 (mxl (RotationGate_mat0 v0 v1 v2 t it c s)).
Proof. intros. unfold RotationGate_mat0. mx_unitary []. Qed.
End C01.
Print Assumptions C01_IdentityGate_unitary.
Print Assumptions C01_PauliXGate_unitary.
Print Assumptions C01_PauliYGate_unitary.
Print Assumptions C01_PauliZGate_unitary.
Print Assumptions C01_SGate_unitary.
Print Assumptions C01_SAdjGate_unitary.
Print Assumptions C01_ISwapGate_unitary.
Print Assumptions C01_HadamardGate_unitary.
Print Assumptions C01_SxGate_unitary.
Print Assumptions C01_TGate_unitary.
Print Assumptions C01_TAdjGate_unitary.
Print Assumptions C01_RxGate_unitary.
Print Assumptions C01_RyGate_unitary.
Print Assumptions C01_RxxGate_unitary.
Print Assumptions C01_RzGate_unitary.
Print Assumptions C01_RzzGate_unitary.
Print Assumptions C01_RotationGate_zero_unitary.

Print Assumptions C01_RyyGate_unitary.
Print Assumptions C01_RotationGate_unitary.
Print Assumptions C01_PhaseFactorGate_unitary.

(** the reported array is 2^num_wires x 2^num_wires (fixed-size literals: rows and row lengths;
    PhaseFactorGate: np.identity(2**self.nwires) with num_wires = self.nwires) *)
Theorem C01_dimension : forall (K : Scalar) (a0 a1 a2 a3 a4 a5 a6 : K) (n : nat),
  dims (IdentityGate_mat (K:=K)) (2 ^ IdentityGate_num_wires n) = true /\
  dims (PauliXGate_mat (K:=K)) (2 ^ PauliXGate_num_wires n) = true /\
  dims (PauliYGate_mat (K:=K)) (2 ^ PauliYGate_num_wires n) = true /\
  dims (PauliZGate_mat (K:=K)) (2 ^ PauliZGate_num_wires n) = true /\
  dims (HadamardGate_mat a0 a1) (2 ^ HadamardGate_num_wires n) = true /\
  dims (SxGate_mat a0 a1) (2 ^ SxGate_num_wires n) = true /\
  dims (RxGate_mat a0 a1) (2 ^ RxGate_num_wires n) = true /\
  dims (RyGate_mat a0 a1) (2 ^ RyGate_num_wires n) = true /\
  dims (RzGate_mat a0) (2 ^ RzGate_num_wires n) = true /\
  dims (RotationGate_mat a0 a1 a2 a3 a4 a5 a6) (2 ^ RotationGate_num_wires n) = true /\
  dims (RotationGate_mat0 a0 a1 a2 a3 a4 a5 a6) (2 ^ RotationGate_num_wires n) = true /\
  dims (SGate_mat (K:=K)) (2 ^ SGate_num_wires n) = true /\
  dims (SAdjGate_mat (K:=K)) (2 ^ SAdjGate_num_wires n) = true /\
  dims (TGate_mat a0 a1) (2 ^ TGate_num_wires n) = true /\
  dims (TAdjGate_mat a0 a1) (2 ^ TAdjGate_num_wires n) = true /\
  dims (RxxGate_mat a0 a1) (2 ^ RxxGate_num_wires n) = true /\
  dims (RyyGate_mat a0 a1) (2 ^ RyyGate_num_wires n) = true /\
  dims (RzzGate_mat a0) (2 ^ RzzGate_num_wires n) = true /\
  dims (ISwapGate_mat (K:=K)) (2 ^ ISwapGate_num_wires n) = true /\
  PhaseFactorGate_dim n = 2 ^ PhaseFactorGate_num_wires n /\
  (forall c, db_dim gen_db c n = 2 ^ db_nw gen_db c n).
Proof.
  intros. repeat split; try reflexivity.
  intros c. destruct c; reflexivity.
Qed.
Print Assumptions C01_dimension.

(** ------------------------------------------------------------------ part 2: all real parameters *)
Ltac expose := expose_R1; gen_unfold; expose_R2.

Theorem C01_IdentityGate_unitary_R : unitary 1 (matrix_R gen_db cIdentityGate 0 [] false).
Proof. expose. apply C01_IdentityGate_unitary. Qed.
Theorem C01_PauliXGate_unitary_R : unitary 1 (matrix_R gen_db cPauliXGate 0 [] false).
Proof. expose. apply C01_PauliXGate_unitary. Qed.
Theorem C01_PauliYGate_unitary_R : unitary 1 (matrix_R gen_db cPauliYGate 0 [] false).
Proof. expose. apply C01_PauliYGate_unitary. Qed.
Theorem C01_PauliZGate_unitary_R : unitary 1 (matrix_R gen_db cPauliZGate 0 [] false).
Proof. expose. apply C01_PauliZGate_unitary. Qed.
Theorem C01_HadamardGate_unitary_R : unitary 1 (matrix_R gen_db cHadamardGate 0 [] false).
Proof. expose. apply C01_HadamardGate_unitary. apply h_ok_R. Qed.
Theorem C01_SxGate_unitary_R : unitary 1 (matrix_R gen_db cSxGate 0 [] false).
Proof. expose. apply C01_SxGate_unitary. apply h_ok_R. Qed.
Theorem C01_SGate_unitary_R : unitary 1 (matrix_R gen_db cSGate 0 [] false).
Proof. expose. apply C01_SGate_unitary. Qed.
Theorem C01_SAdjGate_unitary_R : unitary 1 (matrix_R gen_db cSAdjGate 0 [] false).
Proof. expose. apply C01_SAdjGate_unitary. Qed.
Theorem C01_TGate_unitary_R : unitary 1 (matrix_R gen_db cTGate 0 [] false).
Proof. expose. apply C01_TGate_unitary. apply h_ok_R. Qed.
Theorem C01_TAdjGate_unitary_R : unitary 1 (matrix_R gen_db cTAdjGate 0 [] false).
Proof. expose. apply C01_TAdjGate_unitary. apply h_ok_R. Qed.
Theorem C01_ISwapGate_unitary_R : unitary 2 (matrix_R gen_db cISwapGate 0 [] false).
Proof. expose. apply C01_ISwapGate_unitary. Qed.
Print Assumptions C01_HadamardGate_unitary_R.
Print Assumptions C01_ISwapGate_unitary_R.

Theorem C01_RxGate_unitary_R : forall theta : R, unitary 1 (matrix_R gen_db cRxGate 0 [theta] false).
Proof. intros. expose. apply C01_RxGate_unitary. apply cs_ok_R. Qed.
Theorem C01_RyGate_unitary_R : forall theta : R, unitary 1 (matrix_R gen_db cRyGate 0 [theta] false).
Proof. intros. expose. apply C01_RyGate_unitary. apply cs_ok_R. Qed.
Theorem C01_RzGate_unitary_R : forall theta : R, unitary 1 (matrix_R gen_db cRzGate 0 [theta] false).
Proof. intros. expose. apply C01_RzGate_unitary. apply unit_ok_R. Qed.
Theorem C01_RxxGate_unitary_R : forall theta : R, unitary 2 (matrix_R gen_db cRxxGate 0 [theta] false).
Proof. intros. expose. apply C01_RxxGate_unitary. apply cs_ok_R. Qed.
Theorem C01_RyyGate_unitary_R : forall theta : R, unitary 2 (matrix_R gen_db cRyyGate 0 [theta] false).
Proof. intros. expose. apply C01_RyyGate_unitary. apply cs_ok_R. Qed.
Theorem C01_RzzGate_unitary_R : forall theta : R, unitary 2 (matrix_R gen_db cRzzGate 0 [theta] false).
Proof. intros. expose. apply C01_RzzGate_unitary. apply unit_ok_R. Qed.
Theorem C01_PhaseFactorGate_unitary_R : forall (n : nat) (phi : R),
  unitary (db_nw gen_db cPhaseFactorGate n) (matrix_R gen_db cPhaseFactorGate n [phi] false).
Proof. intros. expose. apply (C01_PhaseFactorGate_unitary (K:=CS)). apply unit_ok_R. Qed.
Print Assumptions C01_RyyGate_unitary_R.
Print Assumptions C01_PhaseFactorGate_unitary_R.

(** every real 3-vector, the zero vector included: g is the outcome of the code's `theta == 0` test *)
Theorem C01_RotationGate_unitary_R : forall (v0 v1 v2 : R) (g : bool),
  guard_ok gen_db cRotationGate [v0; v1; v2] g ->
  unitary 1 (matrix_R gen_db cRotationGate 0 [v0; v1; v2] g).
Proof.
  intros v0 v1 v2 g G. revert G. expose. intros G. destruct g.
  - apply C01_RotationGate_zero_unitary.
  - apply C01_RotationGate_unitary; [|apply cs_ok_R].
    apply nrm_ok_R. intros E. destruct G as [_ G]. discriminate (G E).
Qed.
Print Assumptions C01_IdentityGate_unitary_R.
Print Assumptions C01_PauliXGate_unitary_R.
Print Assumptions C01_PauliYGate_unitary_R.
Print Assumptions C01_PauliZGate_unitary_R.
Print Assumptions C01_SxGate_unitary_R.
Print Assumptions C01_SGate_unitary_R.
Print Assumptions C01_SAdjGate_unitary_R.
Print Assumptions C01_TGate_unitary_R.
Print Assumptions C01_TAdjGate_unitary_R.
Print Assumptions C01_RxGate_unitary_R.
Print Assumptions C01_RyGate_unitary_R.
Print Assumptions C01_RzGate_unitary_R.
Print Assumptions C01_RxxGate_unitary_R.
Print Assumptions C01_RzzGate_unitary_R.
Print Assumptions C01_RotationGate_unitary_R.

(** non-vacuity / sanity on a concrete non-trivial instance over the Gaussian integers:
    with (c, s) = (3, 4), c*c + s*s = 25 and the Ryy template satisfies U U^dagger = 25 * 1
    (the scaled form of the unitarity hypothesis and conclusion) *)
From Qib Require Import Base.Inst.
Example C01_instance :
  let c : ZI := (3, 0)%Z in let s : ZI := (4, 0)%Z in
  smul c c = ((9, 0)%Z : ZI) /\ sadd (smul c c) (smul s s) = ((25, 0)%Z : ZI) /\
  dense 2 (mmul 2 (mxl (RyyGate_mat c s)) (madj (mxl (RyyGate_mat c s))))
  = dense 2 (mscid ((25, 0)%Z : ZI)).
Proof. vm_compute. repeat split. Qed.
