(** C10 - second-quantised operators obey the fermionic algebra.
    Property theorems only, for EVERY number of sites n and every commutative *-ring K with
    i*i = -1 (Qib.Fermi.FermiProofs / FermiTerms have the proofs).

    What is regenerated from /repo/src/qib/operator/field_operator.py on every run
    (gen/fermi.py generate_fo, module Run.GenFieldOp): the three 2x2 site matrices I, Z, U of as_matrix, the
    rule that selects the Kronecker factor of clist[i] at site j (I before, U at, Z AFTER site i:
    the sign string on the later sites) and `alist = clist^dagger`; theorem C10_code_ladder_matrices
    shows that this is the model's [lad].  The loop over terms / coefficient tensors
    (nditer order, `fstring @ clist[j]`, `op += coeff * fstring`), adjoint(), + and @ are the
    hand-written model (Qib.Fermi.FermiModel), tied to the code by the correspondence run. *)
From Qib Require Import Fermi.FermiTerms Fermi.FermiLoop Base.Inst.
From Run Require Import GenFieldOp.

Section Bridge.
  Context {K : Scalar} {L : ScalarLaws K}.
  Local Open Scope K_scope.
  Add Ring KringC10 : (s_ring K L).

  (** 2x2 literal (list of rows) -> site factor *)
  Definition m2l (rows : list (list K)) : M2 := fun r c =>
    nth (if c then 1 else 0)%nat (nth (if r then 1 else 0)%nat rows []) 0.

  (** clist[i] as the code's loop builds it: factor [gen_fo_site i j] at site j = j0, j0+1, ... *)
  Fixpoint code_cmat (n : nat) (i j0 : Z) : BMx K :=
    match n with
    | O => nil_mat
    | Datatypes.S n' => cons_mat (m2l (gen_fo_site i j0)) (code_cmat n' i (j0 + 1)%Z)
    end.
  Definition code_lad (n : nat) (o : ifo) : BMx K :=
    if fst o then code_cmat n (Z.of_nat (snd o)) 0
    else (if gen_fo_alist_is_adjoint then madj (code_cmat n (Z.of_nat (snd o)) 0) else mzero).

  (** skipping a zero coefficient = adding zero times anything *)
  Lemma skip_ok (a x : K) : a = a + 0 * x.
  Proof. ring. Qed.

  Lemma site_I i j : (j < i)%Z -> m2eq (m2l (gen_fo_site (K:=K) i j)) sI2.
  Proof.
    intros H r c. unfold gen_fo_site.
    destruct (Z.ltb_spec j i); [|lia]. destruct r, c; reflexivity.
  Qed.
  Lemma site_U i : m2eq (m2l (gen_fo_site (K:=K) i i)) sU2.
  Proof.
    intros r c. unfold gen_fo_site. rewrite Z.ltb_irrefl, Z.eqb_refl. destruct r, c; reflexivity.
  Qed.
  Lemma site_Z i j : (i < j)%Z -> m2eq (m2l (gen_fo_site (K:=K) i j)) sZ2.
  Proof.
    intros H r c. unfold gen_fo_site.
    destruct (Z.ltb_spec j i); [lia|]. destruct (Z.eqb_spec j i); [lia|]. destruct r, c; reflexivity.
  Qed.

  Lemma code_zstring n : forall i j0, (i < j0)%Z -> meq n (code_cmat n i j0) (zstring n).
  Proof.
    induction n as [|n IH]; intros i j0 H; [reflexivity|].
    cbn [code_cmat zstring]. rewrite (site_Z i j0 H), IH by lia. reflexivity.
  Qed.
  Lemma code_cmat_ok n : forall i j0, (i < n)%nat ->
    meq n (code_cmat n (j0 + Z.of_nat i) j0) (cmat n i).
  Proof.
    induction n as [|n IH]; intros i j0 Hi; [lia|].
    destruct i as [|i]; cbn [code_cmat cmat].
    - replace (j0 + Z.of_nat 0)%Z with j0 by lia.
      rewrite site_U, code_zstring by lia. reflexivity.
    - rewrite (site_I (j0 + Z.of_nat (Datatypes.S i)) j0) by lia.
      replace (j0 + Z.of_nat (Datatypes.S i))%Z with ((j0 + 1) + Z.of_nat i)%Z by lia.
      rewrite IH by lia. reflexivity.
  Qed.
End Bridge.

(** 0. the ladder matrices the code builds (regenerated site factors and selection rule) are
       the model's: I on earlier sites, U = |1><0| on the site, Z on the LATER sites;
       annihilators are the adjoints *)
Theorem C10_code_ladder_matrices :
  forall (K : Scalar) (L : ScalarLaws K) n o, (snd o < n)%nat ->
    meq (K:=K) n (code_lad n o) (lad n o).
Proof.
  intros K L n [kind i] Hi. cbn [snd] in Hi. unfold code_lad, lad. cbn [fst snd].
  change gen_fo_alist_is_adjoint with true. cbv iota.
  pose proof (code_cmat_ok (K:=K) n i 0%Z Hi) as E. rewrite Z.add_0_l in E.
  destruct kind; rewrite E; reflexivity.
Qed.
Print Assumptions C10_code_ladder_matrices.

(** 1. canonical anticommutation relations, all n, all sites *)
Theorem C10_CAR_annihil_create :
  forall (K : Scalar) (L : ScalarLaws K) n i j, (i < n)%nat -> (j < n)%nat ->
    meq (K:=K) n (madd (mmul n (lad n (false, i)) (lad n (true, j)))
                       (mmul n (lad n (true, j)) (lad n (false, i))))
                 (if Nat.eqb i j then mid else mzero).
Proof. intros. apply CAR_annihil_create; assumption. Qed.
Print Assumptions C10_CAR_annihil_create.

Theorem C10_CAR_same_kind :
  forall (K : Scalar) (L : ScalarLaws K) n kind i j,
    meq (K:=K) n (madd (mmul n (lad n (kind, i)) (lad n (kind, j)))
                       (mmul n (lad n (kind, j)) (lad n (kind, i)))) mzero.
Proof. intros. apply CAR_same_kind. Qed.
Print Assumptions C10_CAR_same_kind.

(** 2. annihilators kill the all-empty state (its column is zero) *)
Theorem C10_annihilate_empty_state :
  forall (K : Scalar) (L : ScalarLaws K) n i r, length r = n ->
    lad (K:=K) n (false, i) r (zeros n) = s0.
Proof. intros. apply annihil_vacuum; assumption. Qed.
Print Assumptions C10_annihilate_empty_state.

(** 3. occupation-number operators are diagonal in the computational basis, entry b_i *)
Theorem C10_number_operator_diagonal :
  forall (K : Scalar) (L : ScalarLaws K) n i, (i < n)%nat ->
    meq (K:=K) n (mmul n (lad n (true, i)) (lad n (false, i)))
                 (fun r c => if beq r c then (if nth i r false then s1 else s0) else s0).
Proof. intros. apply number_operator; assumption. Qed.
Print Assumptions C10_number_operator_diagonal.

(** 4. every ladder matrix is the signed partial permutation
       c_i|b> = [b_i = 0] (-1)^(sum_{j>i} b_j) |b + e_i>,  a_i likewise with b_i = 1 *)
Theorem C10_ladder_is_signed_partial_permutation :
  forall (K : Scalar) (L : ScalarLaws K) n o r c, length r = n -> length c = n ->
    lad (K:=K) n o r c = mono (act1 (fst o) (snd o) c) r.
Proof. intros. apply lad_mono; assumption. Qed.
Print Assumptions C10_ladder_is_signed_partial_permutation.

(** 5. the matrix of a term is the coefficient-weighted sum, over all multi-indices, of the
       ordered operator products (as_matrix's accumulation `fstring @ ...` = right-nested product) *)
Theorem C10_term_matrix_is_weighted_sum_of_ordered_products :
  forall (K : Scalar) (L : ScalarLaws K) n (t : term K) r c, length r = n -> length c = n ->
    term_matrix n t r c
    = isum n (length (tpat t)) (fun idx => smul (tcf t idx) (oprod n (lad n) (combine (tpat t) idx) r c)).
Proof. intros K L n t r c Hr Hc. apply (TM_oprod n (lad n) t r c Hr Hc). Qed.
Print Assumptions C10_term_matrix_is_weighted_sum_of_ordered_products.

(** 5b. ... and THE CODE'S LOOP computes exactly that.  [gen_fo_loop] is as_matrix's accumulation loop translated
        statement by statement from the source on every run (gen/fermi.py assembly_loop): `for term in self.terms`,
        `for coeff in np.nditer(term.coeffs)`, the test `if coeff == 0: continue` (here [isz], any test that is
        only true of zero), `fstring = identity`, `fstring = fstring @ clist[j] / alist[j]` selected by the operator
        type, `op += coeff * fstring`; [code_lad] are the ladder matrices built by the translated Kronecker loop
        (theorem 0).  So the factor order, the create/annihilate selection, the skip test and the accumulation are
        re-read from the source; a test that skips NON-zero coefficients (np.isclose, abs(coeff) < eps, ...) is
        refused by the translator and, if forced through, falsifies the hypothesis on [isz]. *)
Theorem C10_code_loop_is_weighted_sum_of_ordered_products :
  forall (K : Scalar) (L : ScalarLaws K) (isz : K -> bool) n (op : list (term K)),
    (forall c, isz c = true -> c = s0) ->
    meq n (gen_fo_loop n isz (fun j => code_lad n (true, j)) (fun j => code_lad n (false, j)) op)
          (op_matrix n op).
Proof.
  intros K L isz n op Hz. unfold gen_fo_loop, op_matrix.
  apply (loop_is_op_matrix n (lad n) (fun o => code_lad n o)).
  - intros o Ho. apply C10_code_ladder_matrices; assumption.
  - intros acc t r c Hr Hc.
    apply (fold_left_madd _ (fun idx => mscal (tcf t idx)
             (oprod_from n (fun o => code_lad n o) mid (combine (tpat t) idx)))).
    intros acc' idx _. cbv zeta.
    rewrite (fold_left_oprod n _ (fun o => code_lad n o)) by (intros a [[|] j]; reflexivity).
    destruct (isz (tcf t idx)) eqn:E; [|reflexivity].
    apply Hz in E. rewrite E. unfold mscal. apply skip_ok.
Qed.
Print Assumptions C10_code_loop_is_weighted_sum_of_ordered_products.

(** 6. adjoint() has the adjoint matrix, A + B the sum, A @ B the product *)
Theorem C10_adjoint :
  forall (K : Scalar) (L : ScalarLaws K) n (op : list (term K)),
    meq n (op_matrix n (op_adj op)) (madj (op_matrix n op)).
Proof. intros. apply ref_op_adjoint. Qed.
Print Assumptions C10_adjoint.

Theorem C10_sum :
  forall (K : Scalar) (L : ScalarLaws K) n (a b : list (term K)),
    meq n (op_matrix n (op_add a b)) (madd (op_matrix n a) (op_matrix n b)).
Proof. intros. apply ref_op_sum. Qed.
Print Assumptions C10_sum.

Theorem C10_product :
  forall (K : Scalar) (L : ScalarLaws K) n (a b : list (term K)),
    meq n (op_matrix n (op_mul a b)) (mmul n (op_matrix n a) (op_matrix n b)).
Proof. intros. apply ref_op_product. Qed.
Print Assumptions C10_product.

(** 7. a term flagged Hermitian has a Hermitian matrix - for the EXACT flag.  The code compares
       coeffs with coeffs.conj().T by np.allclose (rtol 1e-5, atol 1e-8), so its flag is
       approximate: it guarantees  |M - M^dagger|  small, not zero.  [close] is the entry
       comparison; the hypothesis says it is exact equality. *)
Theorem C10_hermitian_flag_exact :
  forall (K : Scalar) (L : ScalarLaws K) n (close : K -> K -> bool) (t : term K),
    (forall a b, close a b = true -> a = b) ->
    herm_flag close n t = true -> hermitian n (term_matrix n t).
Proof. intros K L n close t. apply ref_herm_flag. Qed.
Print Assumptions C10_hermitian_flag_exact.

(** 8. the evaluator used by the correspondence run (composition of signed partial
       permutations) computes the model's matrix *)
Theorem C10_fast_evaluator_is_the_model :
  forall (K : Scalar) (L : ScalarLaws K) n (op : list (term K)),
    meq n (op_matrix n op) (op_matrix_gen fast_oprod n op).
Proof. intros. apply fast_op_matrix. Qed.
Print Assumptions C10_fast_evaluator_is_the_model.

(** non-vacuity: concrete instance over the Gaussian integers, 3 sites *)
Example C10_instance :
  let a1 := lad (K:=ZI) 3 (false, 1%nat) in
  let c1 := lad (K:=ZI) 3 (true, 1%nat) in
  let c2 := lad (K:=ZI) 3 (true, 2%nat) in
  dense 3 (madd (mmul 3 a1 c1) (mmul 3 c1 a1)) = dense 3 mid /\
  dense 3 (madd (mmul 3 a1 c2) (mmul 3 c2 a1)) = dense 3 mzero /\
  dense 3 (mmul 3 a1 c2) <> dense 3 mzero /\
  dense 3 (code_lad (K:=ZI) 3 (false, 1%nat)) = dense 3 a1.
Proof. vm_compute. repeat split; discriminate. Qed.
