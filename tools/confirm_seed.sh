#!/bin/sh
# usage: tools/confirm_seed.sh <dir with patch.diff and demo.py> [pytest args...]
# Confirms in a scratch copy of /repo: demo passes without the patch, fails with it, and the
# repository's test-suite (or the given test files) still passes with the patch.
d="$1"; shift
dir="/tmp/confirm_$$"
rm -rf "$dir"; mkdir -p "$dir"
(cd /repo && git archive HEAD) | tar -x -C "$dir"
cd "$dir" && git init -q .
run() { (cd "$dir" && OMP_NUM_THREADS=2 PYTHONPATH="$dir/src" PYTHONWARNINGS=ignore timeout 900 /venv/bin/python "$d/demo.py" >/dev/null 2>&1); echo $?; }
a=$(run)
git apply "$d/patch.diff" || { echo "patch does not apply"; rm -rf "$dir"; exit 2; }
b=$(run)
t=$(cd "$dir" && OMP_NUM_THREADS=2 OPENBLAS_NUM_THREADS=2 PYTHONPATH="$dir/src" timeout 2400 /venv/bin/python -m pytest -q -p no:cacheprovider --timeout=900 "$@" 2>&1 | tail -1)
echo "demo_without_patch_exit=$a demo_with_patch_exit=$b tests_with_patch: $t"
rm -rf "$dir"
