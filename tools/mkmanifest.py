#!/usr/bin/env python3
"""Regenerates MANIFEST.json from the table below (keeps it schema-valid at all times)."""
import json, os
HERE = os.path.dirname(os.path.dirname(os.path.abspath(__file__)))

CLAIMED = {}
for fn in sorted(os.listdir(os.path.join(HERE, "claims"))):
    if fn.endswith(".json"):
        CLAIMED[fn[:-5]] = json.load(open(os.path.join(HERE, "claims", fn)))

TITLES = {}
for l in open(os.path.join(HERE, "properties.jsonl")):
    p = json.loads(l)
    TITLES[p["id"]] = p["title"]

NA_REASON = "check not built yet in this session (work in progress; see DESIGN.md section 8 for the order of work)"

def main():
    checks, na = [], []
    for pid in sorted(TITLES):
        if pid in CLAIMED:
            c = CLAIMED[pid]
            checks.append({
                "property_id": pid,
                "quick_cmd": "./check %s --tier quick" % pid,
                "thorough_cmd": "./check %s --tier thorough" % pid,
                "evidence_file": "/verif/evidence/%s.json" % pid,
                "replay_cmd_template": "./check %s --replay {path}" % pid,
                "engine": "coq-proof+tie",
                "level_claimed": {"category": "proof", "text": c["text"], "design_ref": c["design"]},
                "level_note": c["note"],
                "technique": c["technique"],
            })
        else:
            na.append({"property_id": pid, "reason": NA_REASON})
    m = {
        "version": 1,
        "setup_cmd": "./setup.sh",
        "hooks": {"guard": "QIB_VERIF", "enable": "no hooks are needed: every property is observed through the public API; "
                  "requests/time/asyncio are patched inside the harness process", "baseline_off_cmd":
                  "cd /repo && /venv/bin/python -m pytest -q -p no:cacheprovider --timeout=900", "source_commits": [], "add_only": True},
        "engines": [{"name": "coq-proof+tie", "path": "check", "serves_properties": sorted(CLAIMED),
                     "kind_free_text": "Coq 8.16 theorems about executable Gallina models; models tied to /repo on every run by "
                     "ast translators (gen/) and vm_compute correspondence runs (checks/)"}],
        "checks": checks,
        "not_applicable": na,
        "notes": "See DESIGN.md. Fix commits in /repo are listed in known_findings.json ('fixed').",
    }
    json.dump(m, open(os.path.join(HERE, "MANIFEST.json"), "w"), indent=1)

if __name__ == "__main__":
    main()
