#!/bin/sh
# usage: tools/run_all.sh [quick|thorough]   -- runs every claimed check, prints one verdict line each
cd "$(dirname "$0")/.."
tier="${1:-quick}"
for id in $(python3 -c "import json; print(' '.join(c['property_id'] for c in json.load(open('MANIFEST.json'))['checks']))"); do
  s=$(date +%s)
  out=$(./check "$id" --tier "$tier" 2>&1); rc=$?
  e=$(date +%s)
  echo "$id rc=$rc $((e-s))s $(echo "$out" | grep -cE '^KNOWN-FINDING') known; $(echo "$out" | grep -E '^VIOLATION' | head -3 | tr '\n' ' ') $(echo "$out" | tail -1 | cut -c1-110)"
done
