#!/usr/bin/env python3
"""prints the prompt for an independent seeded-change agent for property <ID> (worktree /tmp/mut_<ID>)"""
import json, sys
pid = sys.argv[1]
rnd = sys.argv[2] if len(sys.argv) > 2 else ""
for l in open('/verif/properties.jsonl'):
    p = json.loads(l)
    if p['id'] == pid:
        break
wt = "/tmp/mut%s_%s" % (rnd, pid)
files = ", ".join(p['anchors']['files'])
print(f"""You are testing how robust a Python library is against subtle regressions. The library is qc-tum/qib (quantum circuits; pure Python over numpy/scipy). You have your own scratch git worktree of it at {wt} (work ONLY there; never touch /repo or /verif, and do not read anything under /verif). Run Python as `cd {wt} && OMP_NUM_THREADS=2 PYTHONPATH={wt}/src /venv/bin/python ...` and tests as `cd {wt} && OMP_NUM_THREADS=2 OPENBLAS_NUM_THREADS=2 PYTHONPATH={wt}/src /venv/bin/python -m pytest -q -p no:cacheprovider tests/<file>` (ALWAYS set the two thread variables: the machine is shared; with them the full suite `tests/` takes 1-3 minutes; all 61 tests pass on the unchanged tree — record the baseline for the files you rely on first).

The semantic property under attack ({pid}: {p['title']}):
"{p['statement']}"
Quantified over: {p['quantifier']['text']}
Code mainly in: {files}.

TASK: produce THREE different source changes (each a separate small patch against the unchanged tree) that each BREAK this property while the package still imports and EVERY test of the full suite that passed before still passes (run the full suite once per final patch). Prefer changes that need something specific to manifest — an unusual input (sizes/parameters/shapes outside what the tests use, particular combinations), a multi-step sequence of operations or history, or two cooperating sites that each look fine alone — NOT ones that ordinary use exposes at once. Make them realistic: the kind of slip a maintainer could make in a refactoring or "optimisation" (caching, vectorising, simplifying a formula, changing a loop bound or direction, an in-place update that aliases, a special case for small sizes), not sabotage with magic constants. Spread the three changes over different clauses of the property / different functions.
For each change deliver, in {wt}/out/<k>/ (k = 1,2,3): `patch.diff` (from `git diff` in the worktree), `demo.py` (a small program that exits non-zero / fails an assertion WITH the change and exits 0 WITHOUT it; only the public API and numpy/scipy), and `meta.json` {{"property":"{pid}","what":"<one paragraph: what breaks>","needs":"<what is needed to manifest>","tests_run":"<command and result summary>"}}. Verify both directions of each demo yourself (apply patch -> demo fails and tests pass; `git checkout -- .` -> demo passes). Leave the worktree clean (`git checkout -- .`) at the end, keeping only the out/ directory. Final message: a short list of the three changes. Never use `git stash` (it is shared between worktrees); use `git diff > file`, `git checkout -- .`, `git apply file`.""")
