#!/usr/bin/env python3
"""usage: tools/import_seeds.py <ID> ...   copies /tmp/mut_<ID>/out/<k>/ into seeded/<ID>-<k>/ when
/tmp/confirm_results.txt holds a passing confirmation for it (demo 0 without / non-zero with the
patch, test-suite passed with the patch)."""
import sys, os, json, re, shutil
res = {}
for l in open('/tmp/confirm_results.txt'):
    m = re.match(r"(\S+) :: demo_without_patch_exit=(\d+) demo_with_patch_exit=(\d+) tests_with_patch: (.*)", l.strip())
    if m:
        res[m.group(1)] = (int(m.group(2)), int(m.group(3)), m.group(4))
rnd = ""
args = sys.argv[1:]
if args and args[0].startswith("--round="):
    rnd = args[0].split("=")[1]; args = args[1:]
off = 3 * (int(rnd) - 1) if rnd else 0
for pid in args:
    for k in (1, 2, 3):
        src = "/tmp/mut%s_%s/out/%d" % (rnd, pid, k)
        if src not in res:
            print("no confirmation for", src); continue
        a, b, t = res[src]
        ok = a == 0 and b != 0 and re.search(r"\b61 passed", t) and "failed" not in t
        if not ok:
            print("NOT confirmed:", src, res[src]); continue
        dst = "/verif/seeded/%s-%d" % (pid, k + off)
        os.makedirs(dst, exist_ok=True)
        for f in ("patch.diff", "demo.py"):
            shutil.copy(os.path.join(src, f), dst)
        meta = json.load(open(os.path.join(src, "meta.json")))
        meta["confirmed_by_coordinator"] = ("tools/confirm_seed.sh on a scratch copy of /repo HEAD: demo exit %d without the patch, "
                                            "%d with it; full test-suite with the patch: %s" % (a, b, t))
        json.dump(meta, open(os.path.join(dst, "meta.json"), "w"), indent=1)
        print("imported", dst)
