#!/usr/bin/env python3
"""usage: tools/seed_rerow.py <ID>-<k> ...   re-runs the named seeded changes (tools/seedtest.sh, scratch copy of /repo)
and replaces their rows in seeded/RESULTS.md, then recomputes the totals line."""
import sys, re, json, subprocess
path = "/verif/seeded/RESULTS.md"
lines = open(path).read().split("\n")
for s in sys.argv[1:]:
    pid = s.rsplit("-", 1)[0]
    r = subprocess.run(["/verif/tools/seedtest.sh", "/verif/seeded/%s/patch.diff" % s, pid], capture_output=True, text=True).stdout
    if "patch does not apply" in r:
        v = "stale-patch"
    elif re.search(r"^VIOLATION.*replay=\S*_\d+\.json", r, re.M):
        v = "caught"
    elif "no-failing-input-found" in r:
        v = "abstract"
    elif "] ok:" in r:
        v = "**missed**"
    else:
        v = "?"
    needs = json.load(open("/verif/seeded/%s/meta.json" % s)).get("needs", "").replace("|", "/").replace("\n", " ")[:170]
    det = ([l for l in r.split("\n") if re.search(r"\] (ok|FAIL)", l)] or [""])[-1][:80]
    row = "| %s | %s | %s | %s |" % (s, needs, v, det)
    for i, l in enumerate(lines):
        if l.startswith("| %s |" % s):
            lines[i] = row
            break
    else:
        raise SystemExit("no row for " + s)
    print(s, v)
rows = [l for l in lines if re.match(r"\| C\d\d-\d+ \|", l)]
tot = "Totals: %d caught, %d abstract, %d missed, %d stale, of %d." % (
    sum("| caught |" in l for l in rows), sum("| abstract |" in l for l in rows), sum("missed" in l.split("|")[3] for l in rows),
    sum("stale-patch" in l for l in rows), len(rows))
lines = [tot if l.startswith("Totals:") else l for l in lines]
open(path, "w").write("\n".join(lines))
print(tot)
