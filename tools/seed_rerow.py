#!/usr/bin/env python3
"""usage: tools/seed_rerow.py [--jobs=N] <ID>-<k> ...   re-runs the named seeded changes (tools/seedtest.sh, scratch copy
of /repo), replaces (or adds) their rows in seeded/RESULTS.md, then recomputes the totals line."""
import sys, re, json, subprocess
from concurrent.futures import ThreadPoolExecutor
path = "/verif/seeded/RESULTS.md"
args = sys.argv[1:]
jobs = 1
if args and args[0].startswith("--jobs="):
    jobs = int(args[0].split("=")[1]); args = args[1:]


def one(s):
    pid = s.rsplit("-", 1)[0]
    r = subprocess.run(["/verif/tools/seedtest.sh", "/verif/seeded/%s/patch.diff" % s, pid], capture_output=True, text=True).stdout
    if "patch does not apply" in r:
        v = "stale-patch"
    elif re.search(r"^VIOLATION.*replay=\S*_\d+\.json", r, re.M):
        v = "caught"
    elif "no-failing-input-found" in r:
        v = "abstract"
    elif "] ok:" in r:
        v = "**missed**"
    else:
        v = "?"
    needs = json.load(open("/verif/seeded/%s/meta.json" % s)).get("needs", "").replace("|", "/").replace("\n", " ")[:170]
    det = ([l for l in r.split("\n") if re.search(r"\] (ok|FAIL)", l)] or [""])[-1][:80]
    print(s, v, flush=True)
    return s, "| %s | %s | %s | %s |" % (s, needs, v, det)


with ThreadPoolExecutor(jobs) as ex:
    rows_new = dict(ex.map(one, args))
lines = open(path).read().split("\n")
isrow = lambda l: re.match(r"\| (C\d\d)-(\d+) \|", l)
rows = {isrow(l).group(0)[2:-2]: l for l in lines if isrow(l)}
rows.update(rows_new)
first = next(i for i, l in enumerate(lines) if isrow(l))
last = max(i for i, l in enumerate(lines) if isrow(l))
key = lambda s: (s.split("-")[0], int(s.split("-")[1]))
body = [rows[s] for s in sorted(rows, key=key)]
lines[first:last + 1] = body
tot = "Totals: %d caught, %d abstract, %d missed, %d stale, of %d." % (
    sum("| caught |" in l for l in body), sum("| abstract |" in l for l in body), sum("missed" in l.split("|")[3] for l in body),
    sum("stale-patch" in l for l in body), len(body))
lines = [tot if l.startswith("Totals:") else l for l in lines]
open(path, "w").write("\n".join(lines))
print(tot)
