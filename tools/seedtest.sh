#!/bin/sh
# usage: tools/seedtest.sh <patch.diff> <ID> [<ID> ...]
# Applies a seeded change to a scratch copy of /repo (never /repo itself), runs the given checks
# against it with separate build/evidence dirs, prints their verdict lines, removes the copy.
patch="$(readlink -f "$1")"; shift
tag="seed$$"
dir="/tmp/seedrepo_$tag"
rm -rf "$dir"; mkdir -p "$dir"
(cd /repo && git archive HEAD) | tar -x -C "$dir"
(cd "$dir" && git init -q . && { git apply "$patch" 2>/dev/null || patch -p1 -F3 -s < "$patch"; }) || { echo "patch does not apply"; rm -rf "$dir"; exit 2; }
cd "$(dirname "$0")/.."
for id in "$@"; do
  QIB_REPO="$dir" VERIF_SCRATCH="$tag" ./check "$id" 2>&1 | grep -E "VIOLATION|KNOWN-FINDING|^\[$id\] (ok|FAIL)|BROKEN" | cut -c1-400
  rm -rf "build/$id@$tag"
done
rm -rf "$dir"
