"""C05 - All views of a circuit agree: matrix, tensor network, both simulators."""
import itertools, sys, os, copy as pycopy
import numpy as np
from vlib import coqterm as ct
import checks.C04 as C04mod
from checks.C04 import (dense, is_gauss_int, zlist, natlist, mk_fields, qubit, build_gate, spec_particles,
                        wire_of, ref_embed, rand_phase_perm, mat_spec, reach, follow, apply_mutation,
                        fidx, field_mode, rand_fmode, rand_layout, share_patterns, orders_with_repeats, jcopy,
                        rand_dense_unitary, ref_mode, seq as mkseq)

sys.path.insert(0, os.path.join(os.path.dirname(os.path.dirname(os.path.abspath(__file__))), "gen"))

HEADER = ("From Qib Require Import Embed.CircCheck.\nFrom Run Require Import GenCirc.\n"
          "Definition bad_cases := bad_cases_with gen_ctor_copies gen_copy_deep.\n")

SIG_WRAP = "as_tensornet:two-qubit-gate-wrapped-without-reshape"
SIG_EINSUM = "contract_einsum:label-position-slip-on-idle-wire"
SIG_CTOR = "Circuit.__init__:gates-captured-by-reference"
SIG_ARRAY = "by-value:array-attribute-shared-with-circuit-copy"
SIG_PREP = "as_tensornet:prepare-gate-is-the-rank-one-map-not-the-unitary-of-as_matrix"
SIG_ROTNAME = "as_tensornet:rotation-gates-with-nearly-equal-angles-share-a-tensor-name"


def jsonable(x):
    if isinstance(x, (list, tuple)):
        return [jsonable(y) for y in x]
    return x


# ----------------------------------------------------------------------------- programs
def rand_particles(rng, sizes, k):
    allp = [(fi, i) for fi, n in enumerate(sizes) for i in range(n)]
    return rng.sample(allp, k)


def rand_spec(rng, sizes, exact, pool=None):
    """one gate spec on particles of `sizes`; pool = preferred control particles (shared controls)"""
    total = sum(sizes)
    kinds = ["X", "Y", "Z", "S", "Gen1", "Gen2", "C1", "C1", "C2", "iSwap", "Mux", "CC", "I", "Sdg"]
    if not exact:
        kinds += ["H", "T", "Rx", "Ry", "Rz", "Rxx", "Ryy", "Rzz", "Phase", "Sx", "CH", "CRz", "Tdg", "Rot", "Prep2", "CRot", "GenD2"]
    need_of = {"GenD2": 2, "Gen2": 2, "C1": 2, "C2": 3, "iSwap": 2, "Mux": 2, "CC": 3, "Rxx": 2, "Ryy": 2, "Rzz": 2,
               "Phase": 2, "CH": 2, "CRz": 2, "Prep2": 2, "CRot": 2}
    while True:
        k = rng.choice(kinds)
        need = need_of.get(k, 1)
        if need > total:
            continue
        ps = rand_particles(rng, sizes, need)
        if pool and need >= 2 and rng.random() < 0.6:      # shared control wire
            c = rng.choice(pool)
            ps = [c] + [p for p in ps if p != c][:need - 1]
            if len(ps) < need:
                continue
        th = rng.randint(-16, 16) / 8.0
        if k in ("X", "Y", "Z", "S", "H", "T", "Sx", "I", "Sdg", "Tdg"):
            return [k, ps[0]]
        if k in ("Rx", "Ry", "Rz"):
            return [k, th, ps[0]]
        if k == "Rot":
            return ["Rot", [rng.randint(-8, 8) / 8.0 for _ in range(3)], ps[0]]
        if k == "CRot":
            return ["C", [rng.randint(0, 1)], [ps[0]], ["Rot", [rng.randint(-8, 8) / 8.0 for _ in range(3)], ps[1]]]
        if k == "Prep2":
            return ["Prep", [rng.randint(1, 8) / 8.0 * rng.choice([-1, 1]) for _ in range(4)], ps]
        if k in ("Rxx", "Ryy", "Rzz"):
            return [k, th, ps[0], ps[1]]
        if k == "Phase":
            return ["Phase", th, ps]
        if k.startswith("GenD"):
            return ["Gen", mat_spec(rand_dense_unitary(rng, 2 ** need)), ps, rand_layout(rng)]
        if k.startswith("Gen"):
            return ["Gen", mat_spec(rand_phase_perm(rng, 2 ** need)), ps, rand_layout(rng)]
        if k == "iSwap":
            return ["iSwap", ps[0], ps[1]]
        if k == "C1":
            return ["C", [rng.randint(0, 1)], [ps[0]], [rng.choice(["X", "Y", "Z", "S"]), ps[1]]]
        if k == "CH":
            return ["C", [rng.randint(0, 1)], [ps[0]], ["H", ps[1]]]
        if k == "CRz":
            return ["C", [rng.randint(0, 1)], [ps[0]], ["Rz", th, ps[1]]]
        if k == "C2":
            return ["C", [rng.randint(0, 1), rng.randint(0, 1)], [ps[0], ps[1]], [rng.choice(["X", "Y", "Z"]), ps[2]]]
        if k == "CC":
            return ["C", [rng.randint(0, 1)], [ps[0]], ["C", [rng.randint(0, 1)], [ps[1]], ["Y", ps[2]]]]
        if k == "Mux":
            return ["Mux", [ps[0]], [[rng.choice(["X", "Y"]), ps[1]], [rng.choice(["Z", "S"]), ps[1]]]]


def rand_program(rng, sizes, exact, maxlen=10):
    n = rng.randint(1, maxlen)
    pool = rand_particles(rng, sizes, min(2, sum(sizes)))
    return [rand_spec(rng, sizes, exact, pool) for _ in range(n)]


def fields_of_program(specs):
    """Circuit.fields(): fields in order of first appearance (gate.fields() lists controls first)"""
    out = []
    for s in specs:
        for p in spec_particles_fields(s):
            if p not in out:
                out.append(p)
    return out


def spec_particles_fields(spec):
    k = spec[0]
    if k in ("Rxx", "Ryy", "Rzz"):          # fields(): q1.field then q2.field
        return [spec[2][0], spec[3][0]]
    return [p[0] for p in spec_particles(spec)]


def ref_circuit(sizes, order, specs, tn_prepare=False):
    """independent reference: product of independently embedded gate matrices, first gate first.
    tn_prepare: a PrepareGate enters as the rank-one map |x><0..0| its as_tensornet() is (by design, pinned by
    tests/test_gates.py) instead of the unitary completion as_matrix() returns"""
    with ref_mode():
        return _ref_circuit(sizes, order, specs, tn_prepare)


def _ref_circuit(sizes, order, specs, tn_prepare):
    F = mk_fields(sizes)
    nw = sum(sizes[i] for i in order)
    M = np.identity(2 ** nw, dtype=complex)
    for s in specs:
        g = build_gate(s, F)
        ws = [wire_of(sizes, order, p) for p in spec_particles(s)]
        gm = g.as_matrix()
        if tn_prepare and s[0] == "Prep":
            x = np.sign(g.vec) * np.sqrt(np.abs(g.vec))
            e0 = np.zeros(len(x))
            e0[0] = 1
            gm = np.outer(x, e0)
        M = ref_embed(nw, ws, gm) @ M
    return M


def gate_z_term(sizes, order, spec, F):
    g = build_gate(spec, F)
    ws = [wire_of(sizes, order, p) for p in spec_particles(spec)]
    return ct.pair(ct.zimat(g.as_matrix()), natlist(ws))


def prog_exact(sizes, specs):
    F = mk_fields(sizes)
    return all(is_gauss_int(build_gate(s, F).as_matrix()) for s in specs)


def classify_tn_error(e, specs):
    kinds = set()

    def walk(s):
        kinds.add(s[0])
        if s[0] == "C":
            walk(s[3])
        if s[0] == "Mux":
            for t in s[2]:
                walk(t)
    for s in specs:
        walk(s)
    if isinstance(e, AssertionError) and kinds & {"Rxx", "Ryy", "Rzz", "iSwap"}:
        return SIG_WRAP
    if isinstance(e, ValueError) and "is not in list" in str(e):
        return SIG_EINSUM
    if isinstance(e, ValueError) and "tensor data entries for Rn(" in str(e) and "Rot" in kinds:
        return SIG_ROTNAME
    return "tensornet:crash:" + type(e).__name__


BUILD_MODES = ("append", "append-shared", "ctor", "ctor-shared", "prepend", "circuits")


def build_circuit(specs, F, mode):
    """the circuit of a program, put together in one of the ways the API offers; "-shared": gates that are equal as
    VALUES are one and the same object (appended / listed twice), otherwise every gate is its own object"""
    import qib, json
    gates, cache = [], {}
    for s_ in specs:
        key = json.dumps(s_)
        if mode.endswith("-shared") and key in cache:
            gates.append(cache[key])
        else:
            cache[key] = build_gate(s_, F)
            gates.append(cache[key])
    if mode.startswith("ctor"):
        return qib.Circuit(mkseq(gates)), gates
    circ = qib.Circuit()
    if mode == "prepend":
        for g in reversed(gates):
            circ.prepend_gate(g)
    elif mode == "circuits":
        h = len(gates) // 2
        a, b = qib.Circuit(), qib.Circuit(gates[h:])
        for g in gates[:h]:
            a.append_gate(g)
        circ.append_circuit(b)
        circ.prepend_circuit(a)
    else:
        for g in gates:
            circ.append_gate(g)
    return circ, gates


class Sims:
    """simulator INSTANCES used for several circuits one after the other (state kept on the instance across runs shows)"""

    def __init__(self):
        import qib
        self.sv = qib.simulator.StatevectorSimulator()
        self.tn = qib.simulator.TensorNetworkSimulator()
        self.hist = []          # descriptors of the programs run so far
        self.F = {}

    def fields(self, sizes):
        """ONE list of field objects per (sizes, mode): the circuits run on these instances are built over the same
        fields (several circuits on one register)"""
        import json
        key = json.dumps([sizes, dict(C04mod.FMODE)], sort_keys=True)
        if key not in self.F:
            self.F[key] = mk_fields(sizes)
        return self.F[key]


def oracle_program_seq(ctx, progs):
    sims = Sims()
    for d in progs:
        oracle_program(ctx, d["sizes"], d["specs"], d, other_order=d.get("order"), sims=sims)


def oracle_program(ctx, sizes, specs, desc, other_order=None, sims=None):
    """all four views of one program; returns (M over circ.fields(), psi) or None.
    desc["fmode"]: how fields / lattices / qubit objects / parameters are made; desc["build"]: how the circuit is put
    together; other_order may list a field twice or list fields the circuit does not use"""
    with field_mode(desc.get("fmode")):
        return _oracle_program(ctx, sizes, specs, desc, other_order, sims)


def _oracle_program(ctx, sizes, specs, desc, other_order, sims):
    import qib
    from qib.tensor_network.tensor_network import to_full_tensor
    F = sims.fields(sizes) if sims is not None else mk_fields(sizes)
    circ, gates = build_circuit(specs, F, desc.get("build", "append"))
    order = fields_of_program(specs)
    if [fidx(F, f) for f in circ.fields()] != order:
        ctx.fail("Circuit.fields:order-of-first-appearance", desc, order, [fidx(F, f) for f in circ.fields()])
        return None
    fl = mkseq([F[i] for i in order])
    nw = sum(sizes[i] for i in order)
    exact = all(is_gauss_int(g.as_matrix()) for g in gates)

    def same(a, b):
        return a.shape == b.shape and (np.array_equal(a, b) if exact else np.allclose(a, b, rtol=0, atol=1e-12))
    try:
        M = dense(circ.as_matrix(fl))
    except Exception as e:
        ctx.fail("as_matrix:crash:" + type(e).__name__, desc, "matrix", repr(e))
        return None
    R = ref_circuit(sizes, order, specs)
    if not same(M, R):
        ctx.fail("as_matrix:not-product-of-embedded-gates-in-application-order", desc, "E(g_n)...E(g_1)", "differs")
    if other_order is not None and other_order != order:
        try:
            M2 = dense(circ.as_matrix(mkseq([F[i] for i in other_order])))
            if not same(M2, ref_circuit(sizes, other_order, specs)):
                ctx.fail("as_matrix:not-product-of-embedded-gates-in-application-order", dict(desc, order=other_order),
                         "E(g_n)...E(g_1)", "differs")
            # and the first field list once more (the same query after a different one)
            if not same(dense(circ.as_matrix(fl)), R):
                ctx.fail("as_matrix:repeated-query-differs", dict(desc, order=other_order), "the matrix of the first query", "differs")
        except Exception as e:
            ctx.fail("as_matrix:crash:" + type(e).__name__, dict(desc, order=other_order), "matrix", repr(e)[:200])
    if not np.allclose(M @ M.conj().T, np.identity(2 ** nw), atol=1e-10):
        ctx.fail("as_matrix:not-unitary", desc)
    # statevector simulator
    psi = None
    try:
        psi = np.asarray(qib.simulator.StatevectorSimulator().run(circ), dtype=complex).reshape(-1)
        if not same(psi, M[:, 0]):
            ctx.fail("statevector:not-first-column", desc, "column 0 of as_matrix", "differs")
        elif not same(psi, R[:, 0]):
            ctx.fail("statevector:not-first-column", desc, "column 0 of E(g_n)...E(g_1)", "differs")
        if abs(np.vdot(psi, psi) - 1) > 1e-10:
            ctx.fail("statevector:not-unit-norm", desc, 1, float(abs(np.vdot(psi, psi))))
    except Exception as e:
        ctx.fail("statevector:crash:" + type(e).__name__, desc, "state", repr(e))
    plain = {k_: v_ for k_, v_ in desc.items() if k_ != "progs"}
    if other_order is not None:
        plain = dict(plain, order=other_order)
    if sims is not None:
        sims.hist.append(plain)
        try:
            psi2 = np.asarray(sims.sv.run(circ), dtype=complex).reshape(-1)
            if not same(psi2, R[:, 0]):
                ctx.fail("statevector:simulator-instance-used-before:not-first-column",
                         {"kind": "program_seq", "progs": list(sims.hist)}, "column 0 of the LAST program's matrix", "differs")
        except Exception as e:
            ctx.fail("statevector:simulator-instance-used-before:crash:" + type(e).__name__,
                     {"kind": "program_seq", "progs": list(sims.hist)}, "state", repr(e)[:200])
    # tensor network view.  Programs with a (top-level) PrepareGate: its network is the rank-one map |x><0..0|, not the
    # unitary of as_matrix() (known finding SIG_PREP, reported when the two differ); the network machinery is still
    # checked exactly, against the product in which that gate enters as the rank-one map
    has_prep = any(s_[0] == "Prep" for s_ in specs)
    Mtn = ref_circuit(sizes, order, specs, tn_prepare=True) if has_prep else M
    if nw <= 6:
        try:
            net = circ.as_tensornet()
            if net.num_open_axes != 2 * nw:
                ctx.fail("as_tensornet:open-axes", desc, 2 * nw, net.num_open_axes)
            elif tuple(net.shape) != (2,) * (2 * nw):
                ctx.fail("as_tensornet:open-axis-dimensions", desc, (2,) * (2 * nw), tuple(net.shape))
            else:
                t, am = net.contract_einsum()
                T = np.asarray(to_full_tensor(t, am), dtype=complex).reshape(2 ** nw, 2 ** nw)
                ctx.count("tensornet_ran")
                if has_prep:
                    ctx.count("tensornet_ran_with_prepare")
                    if not np.allclose(T, M, rtol=0, atol=1e-10):
                        ctx.fail(SIG_PREP, {"kind": "program", "sizes": sizes, "specs": specs}, "as_matrix", "differs")
                if not np.allclose(T, Mtn, rtol=0, atol=1e-10):
                    ctx.fail("as_tensornet:contraction-differs-from-matrix", desc, "as_matrix", "differs")
        except Exception as e:
            ctx.fail(classify_tn_error(e, specs), desc, "network contracting to as_matrix", repr(e)[:200])
        tn_ok = False
        try:
            out = np.asarray(qib.simulator.TensorNetworkSimulator().run(circ), dtype=complex).reshape(-1)
            ctx.count("tn_simulator_ran")
            if has_prep and not np.allclose(out, M[:, 0], rtol=0, atol=1e-10):
                ctx.fail(SIG_PREP, {"kind": "program", "sizes": sizes, "specs": specs}, "column 0 of as_matrix", "differs")
            if not np.allclose(out, Mtn[:, 0], rtol=0, atol=1e-10):
                ctx.fail("tn_simulator:not-first-column", desc, "column 0 of as_matrix", "differs")
            else:
                tn_ok = True
            if not has_prep and abs(np.vdot(out, out) - 1) > 1e-9:
                ctx.fail("tn_simulator:not-unit-norm", desc)
        except Exception as e:
            ctx.fail(classify_tn_error(e, specs).replace("as_tensornet:", "as_tensornet:").replace("tensornet:crash", "tn_simulator:crash"),
                     desc, "state", repr(e)[:200])
        if sims is not None and tn_ok:
            try:
                out2 = np.asarray(sims.tn.run(circ), dtype=complex).reshape(-1)
                if not np.allclose(out2, Mtn[:, 0], rtol=0, atol=1e-10):
                    ctx.fail("tn_simulator:simulator-instance-used-before:not-first-column",
                             {"kind": "program_seq", "progs": list(sims.hist)}, "column 0 of the LAST program's matrix", "differs")
            except Exception as e:
                ctx.fail("tn_simulator:simulator-instance-used-before:crash:" + type(e).__name__,
                         {"kind": "program_seq", "progs": list(sims.hist)}, "state", repr(e)[:200])
    return M, psi, order


# ----------------------------------------------------------------------------- registers of 7..12 wires (numpy-only references)
def apply_to_state(psi, nw, ws, gm):
    """numpy-only application of a gate matrix on wires ws (first = most significant gate index) to a state vector"""
    m = len(ws)
    t = np.tensordot(np.asarray(gm, dtype=complex).reshape((2,) * (2 * m)), psi.reshape((2,) * nw),
                     axes=(list(range(m, 2 * m)), list(ws)))
    return np.moveaxis(t, list(range(m)), list(ws)).reshape(-1)


def oracle_program_large(ctx, sizes, specs, desc):
    """views of a program on a register too large for dense matrices: statevector simulator, the sparse as_matrix applied
    to e_0 and to a fixed integer vector, TensorNetworkSimulator (when the network stays small); reference = the gates'
    own matrices applied to the state tensor by tensordot"""
    with field_mode(desc.get("fmode")):
        return _oracle_program_large(ctx, sizes, specs, desc)


def _oracle_program_large(ctx, sizes, specs, desc):
    import qib
    F = mk_fields(sizes)
    circ, gates = build_circuit(specs, F, desc.get("build", "append"))
    order = fields_of_program(specs)
    if [fidx(F, f) for f in circ.fields()] != order:
        ctx.fail("Circuit.fields:order-of-first-appearance", desc, order, [fidx(F, f) for f in circ.fields()])
        return
    nw = sum(sizes[i] for i in order)
    N = 2 ** nw
    e0 = np.zeros(N, dtype=complex)
    e0[0] = 1
    v = ((np.arange(N) * 7 + 3) % 11 - 5) + 1j * ((np.arange(N) * 5 + 1) % 7 - 3)      # fixed, no symmetry
    r0, rv = e0, v.astype(complex)
    with ref_mode():
        ref_gates = [build_gate(s_, mk_fields(sizes)) for s_ in specs]
    for s_, g in zip(specs, ref_gates):
        ws = [wire_of(sizes, order, p) for p in spec_particles(s_)]
        r0, rv = apply_to_state(r0, nw, ws, g.as_matrix()), apply_to_state(rv, nw, ws, g.as_matrix())
    scale = max(1.0, float(np.max(np.abs(rv))))
    try:
        psi = np.asarray(qib.simulator.StatevectorSimulator().run(circ), dtype=complex).reshape(-1)
        if psi.shape != r0.shape or not np.allclose(psi, r0, rtol=0, atol=1e-12):
            ctx.fail("statevector:not-first-column", desc, "gates applied to |0..0> in list order", "differs")
    except Exception as e:
        ctx.fail("statevector:crash:" + type(e).__name__, desc, "state", repr(e)[:200])
    try:
        M = circ.as_matrix([F[i] for i in order])
        if tuple(M.shape) != (N, N) or not np.allclose(M @ e0, r0, rtol=0, atol=1e-12) \
                or not np.allclose(M @ v, rv, rtol=0, atol=1e-11 * scale):
            ctx.fail("as_matrix:not-product-of-embedded-gates-in-application-order", desc, "E(g_n)...E(g_1) applied to two vectors", "differs")
    except Exception as e:
        ctx.fail("as_matrix:crash:" + type(e).__name__, desc, "matrix", repr(e)[:200])
    nidx = nw + sum(len(spec_particles(s_)) for s_ in specs)
    tops = set(s_[0] for s_ in specs)
    if nidx <= 40 and not tops & {"Rxx", "Ryy", "Rzz", "iSwap", "Prep"}:
        try:
            out = np.asarray(qib.simulator.TensorNetworkSimulator().run(circ), dtype=complex).reshape(-1)
            ctx.count("tn_simulator_ran_large")
            if out.shape != r0.shape or not np.allclose(out, r0, rtol=0, atol=1e-10):
                ctx.fail("tn_simulator:not-first-column", desc, "gates applied to |0..0> in list order", "differs")
        except Exception as e:
            ctx.fail(classify_tn_error(e, specs).replace("tensornet:crash", "tn_simulator:crash"), desc, "state", repr(e)[:200])


# ----------------------------------------------------------------------------- histories
ONE = ("I", "X", "Y", "Z", "H", "S", "Sdg", "T", "Tdg", "Sx")


def pid(q, F):
    if q is None:
        return -1
    return fidx(F, q.field) * 16 + q.index


def thc(x):
    return int(round(float(x) * 8))


def value_of(g, F, codes):
    """value tree (class code, params, kids) of a live gate object; independent of object identity"""
    name = type(g).__name__
    cls = codes.index(name)
    if name in ("RotationGate", "PrepareGate"):
        raise ValueError(name + ": not in the history alphabet (array-valued attributes)")
    if hasattr(g, "qubit"):
        ps = ([thc(g.theta)] if hasattr(g, "theta") else []) + [pid(g.qubit, F)]
        return (cls, tuple(ps), ())
    if name in ("RxxGate", "RyyGate", "RzzGate"):
        return (cls, (thc(g.theta), pid(g.q1, F), pid(g.q2, F)), ())
    if name == "ISwapGate":
        return (cls, (pid(g.q1, F), pid(g.q2, F)), ())
    if name == "PhaseFactorGate":
        return (cls, (thc(g.phi), g.nwires) + tuple(pid(q, F) for q in g.prtcl), ())
    if name == "GeneralGate":
        m = np.asarray(g.mat, dtype=complex).reshape(-1)
        return (cls, (g.nwires,) + tuple(int(v) for e in m for v in (e.real, e.imag)) + tuple(pid(q, F) for q in g.prtcl), ())
    if name == "ControlledGate":
        return (cls, (g.ncontrols,) + tuple(int(b) for b in g.ctrl_state) + tuple(pid(q, F) for q in g.control_qubits),
                (value_of(g.tgate, F, codes),))
    if name == "MultiplexedGate":
        return (cls, (g.ncontrols,) + tuple(pid(q, F) for q in g.control_qubits),
                tuple(value_of(t, F, codes) for t in g.tgates))
    raise ValueError(name)


def gval_term(v):
    return "(GVal %s %s %s)" % (ct.nat(v[0]), zlist(v[1]), ct.lst([gval_term(k) for k in v[2]]))


# ----------------------------------------------------------------------------- by-value reference of a history
def unpid(x):
    return (x // 16, x % 16)


def gate_from_value(v, F, codes):
    """a FRESH gate object (no history) denoting the value tree v (inverse of value_of)"""
    import qib.operator.gates as QG
    cls, ps, kids = v
    name = codes[cls]
    G = getattr(QG, name)
    q = lambda x: qubit(F, unpid(x))
    if name in ("RxxGate", "RyyGate", "RzzGate"):
        return G(ps[0] / 8.0, q(ps[1]), q(ps[2]))
    if name == "ISwapGate":
        return G(q(ps[0]), q(ps[1]))
    if name == "PhaseFactorGate":
        return G(ps[0] / 8.0, ps[1]).on([q(x) for x in ps[2:]])
    if name == "GeneralGate":
        n = ps[0]
        d = 2 ** n
        flat = ps[1:1 + 2 * d * d]
        m = np.array([complex(flat[2 * i], flat[2 * i + 1]) for i in range(d * d)]).reshape(d, d)
        return G(m, n).on([q(x) for x in ps[1 + 2 * d * d:]])
    if name == "ControlledGate":
        n = ps[0]
        return G(gate_from_value(kids[0], F, codes), n, list(ps[1:1 + n])).set_control([q(x) for x in ps[1 + n:]])
    if name == "MultiplexedGate":
        return G([gate_from_value(k, F, codes) for k in kids], ps[0]).set_control([q(x) for x in ps[1:]])
    if len(ps) == 2:
        return G(ps[0] / 8.0, q(ps[1]))
    return G(q(ps[0]))


def value_particles(v, codes):
    """particles (as pids) in the order particles() must list them; None = a multiplexer below has differing targets"""
    cls, ps, kids = v
    name = codes[cls]
    if name in ("RxxGate", "RyyGate", "RzzGate"):
        return [ps[2], ps[1]]
    if name == "ISwapGate":
        return [ps[0], ps[1]]
    if name == "PhaseFactorGate":
        return list(ps[2:])
    if name == "GeneralGate":
        return list(ps[1 + 2 * 4 ** ps[0]:])
    if name == "ControlledGate":
        t = value_particles(kids[0], codes)
        return None if t is None else list(ps[1 + ps[0]:]) + t
    if name == "MultiplexedGate":
        ts = [value_particles(k, codes) for k in kids]
        if any(t is None or t != ts[0] for t in ts):
            return None
        return list(ps[1:]) + ts[0]
    return [ps[-1]]


def value_fields(v, codes):
    """gate.fields(): field indices in the order the gate lists them"""
    cls, ps, kids = v
    name = codes[cls]
    if name in ("RxxGate", "RyyGate", "RzzGate"):
        pl = [ps[1], ps[2]]
    elif name == "ControlledGate":
        pl = list(ps[1 + ps[0]:])
    elif name == "MultiplexedGate":
        pl = list(ps[1:])
    else:
        pl = value_particles(v, codes)
    out = []
    for x in pl:
        if x // 16 not in out:
            out.append(x // 16)
    for k in kids[:1]:
        for f in value_fields(k, codes):
            if f not in out:
                out.append(f)
    return out


WRAP_CLASSES = ("RxxGate", "RyyGate", "RzzGate", "ISwapGate")


class ValueRef:
    """by-value reference of the views of a circuit given as a list of value trees; memoised on the values (the
    IMPLEMENTATION is re-queried every time, the reference for an unchanged gate list is not recomputed)"""

    def __init__(self, sizes, codes):
        self.sizes, self.codes = sizes, codes
        self.F = mk_fields(sizes)          # fields of the reference gates: never seen by the objects under test
        self.memo = {}

    def matrix(self, values, order):
        """("ok", dense matrix, exact?) or ("AssertionError", None, None) for a gate list as_matrix must refuse"""
        key = (tuple(values), tuple(order))
        if key not in self.memo:
            self.memo[key] = self._matrix(values, order)
        return self.memo[key]

    def _matrix(self, values, order):
        nw = sum(self.sizes[i] for i in order)
        M = np.identity(2 ** nw, dtype=complex)
        exact = True
        for v in values:
            pl = value_particles(v, self.codes)
            if pl is None:
                return "AssertionError", None, None
            ws = [wire_of(self.sizes, order, unpid(x)) for x in pl]
            if len(set(ws)) != len(ws):
                return "AssertionError", None, None
            gm = gate_from_value(v, self.F, self.codes).as_matrix()
            exact = exact and is_gauss_int(gm)
            M = ref_embed(nw, ws, gm) @ M
        return "ok", M, exact

    def fields(self, values):
        out = []
        for v in values:
            for f in value_fields(v, self.codes):
                if f not in out:
                    out.append(f)
        return out

    def tn_runs(self, values):
        """the tensor-network views are exercised unless a top-level gate is of a class whose as_tensornet is the known
        finding SIG_WRAP (reported from the fixed inputs)"""
        return not any(self.codes[v[0]] in WRAP_CLASSES for v in values)


class Observer:
    """re-queries ALL views of ALL circuits (as_matrix under every field order incl. a repeated query with the order
    used last, statevector simulator, tensor network and its simulator) and compares them with the by-value
    reference; matrices handed out earlier must keep their entries; every third round the caller overwrites the
    matrix it got back (the next query must not be affected)."""

    def __init__(self, ctx, sizes, codes, F, tn=True):
        self.ctx, self.sizes, self.F, self.codes = ctx, sizes, F, codes
        self.ref = ValueRef(sizes, codes)
        nf = len(sizes)
        self.orders = [list(o) for o in itertools.permutations(range(nf))][:4]
        self.last = {}        # circuit index -> order of its most recent as_matrix query
        self.handed = {}      # circuit index -> [[returned object, dense snapshot]] (most recent few)
        self.round = 0
        self.tn = tn
        self.scribbled = []   # matrices the caller has overwritten

    def intact(self, d):
        for c, hs in self.handed.items():
            for out, snap in hs:
                now = dense(out)
                if now.shape != snap.shape or not np.array_equal(now, snap):
                    self.ctx.fail("as_matrix:matrix-returned-earlier-changed-by-later-call", d,
                                  "a matrix handed out by as_matrix keeps its entries", "changed (circuit %d)" % c)
                    return False
        return True

    def observe(self, circs, ghost, d):
        """False = a view disagrees (reported)"""
        import qib
        from qib.tensor_network.tensor_network import to_full_tensor
        ctx, F, sizes = self.ctx, self.F, self.sizes
        self.round += 1
        if not self.intact(d):
            return False
        for c, circ in enumerate(circs):
            values = ghost[c]
            if not values:
                try:
                    circ.as_matrix(F)
                    ctx.fail("as_matrix:empty-circuit-accepted", dict(d, circuit=c), "RuntimeError", "a matrix")
                    return False
                except RuntimeError:
                    continue
            r = self.round % len(self.orders)
            seq = ([self.last[c]] if c in self.last else []) + self.orders[r:] + self.orders[:r]
            if len(seq) == 1:
                seq = seq * 2
            bad = False
            for order in seq:
                kind, R, exact = self.ref.matrix(values, order)
                try:
                    out = circ.as_matrix(mkseq([F[i] for i in order]))
                    got = "ok"
                except AssertionError:
                    out, got = None, "AssertionError"
                except Exception as e:
                    ctx.fail("as_matrix:crash-in-history:" + type(e).__name__, dict(d, circuit=c, order=order), kind, repr(e)[:200])
                    return False
                ctx.count("history_view_as_matrix")
                if got != kind:
                    ctx.fail("history:as_matrix:%s-where-%s-expected" % (got, kind), dict(d, circuit=c, order=order), kind, got)
                    return False
                if got != "ok":
                    bad = True
                    continue
                D = dense(out)
                if D.shape != R.shape or not (np.array_equal(D, R) if exact else np.allclose(D, R, rtol=0, atol=1e-12)):
                    if any(out is o or np.shares_memory(out.data, o.data) for o in self.scribbled):
                        ctx.fail("history:as_matrix-returns-storage-of-a-matrix-handed-out-before-and-overwritten-by-the-caller",
                                 dict(d, circuit=c, order=order), "a matrix the caller owns (writing into it affects nothing)",
                                 "the next as_matrix call returns the overwritten entries")
                    else:
                        ctx.fail("history:as_matrix-differs-from-product-of-the-current-gates", dict(d, circuit=c, order=order),
                                 "E(g_n)...E(g_1) of the gates the circuit holds now (by value)", "differs")
                    return False
                if not self.intact(d):
                    return False
                self.handed.setdefault(c, []).append([out, D])
                self.handed[c] = self.handed[c][-3:]
                self.last[c] = order
            if bad:
                continue
            if (self.round + c) % 3 == 0 and self.handed.get(c):
                out = self.handed[c][-1][0]
                out.data[:] = 7                       # the caller owns the matrix it got back
                self.scribbled = self.scribbled[-5:] + [out]
                for hs in self.handed.values():       # the same object may have been handed out more than once
                    for h in hs:
                        if h[0] is out:
                            h[1] = dense(out)
            # simulators and tensor network: over circ.fields()
            forder = self.ref.fields(values)
            try:
                cf = [fidx(F, f) for f in circ.fields()]
            except Exception as e:
                ctx.fail("Circuit.fields:crash:" + type(e).__name__, dict(d, circuit=c), forder, repr(e)[:200])
                return False
            if cf != forder:
                ctx.fail("Circuit.fields:order-of-first-appearance", dict(d, circuit=c), forder, cf)
                return False
            kind, R, exact = self.ref.matrix(values, forder)
            nw = sum(sizes[i] for i in forder)
            try:
                psi = np.asarray(qib.simulator.StatevectorSimulator().run(circ), dtype=complex).reshape(-1)
            except Exception as e:
                ctx.fail("statevector:crash-in-history:" + type(e).__name__, dict(d, circuit=c), "state", repr(e)[:200])
                return False
            ctx.count("history_view_statevector")
            if psi.shape != (2 ** nw,) or not np.allclose(psi, R[:, 0], rtol=0, atol=1e-12):
                ctx.fail("history:statevector-differs-from-first-column-of-the-current-gates", dict(d, circuit=c),
                         "column 0 of E(g_n)...E(g_1)", "differs")
                return False
            if not self.tn or nw > 6 or not self.ref.tn_runs(values):
                continue
            try:
                net = circ.as_tensornet()
                t, am = net.contract_einsum()
                T = np.asarray(to_full_tensor(t, am), dtype=complex).reshape(2 ** nw, 2 ** nw)
                out = np.asarray(qib.simulator.TensorNetworkSimulator().run(circ), dtype=complex).reshape(-1)
            except Exception as e:
                ctx.fail("tensornet:crash-in-history:" + type(e).__name__, dict(d, circuit=c), "network", repr(e)[:200])
                return False
            ctx.count("history_view_tensornet")
            if not np.allclose(T, R, rtol=0, atol=1e-10):
                ctx.fail("history:tensornet-differs-from-product-of-the-current-gates", dict(d, circuit=c),
                         "contraction = E(g_n)...E(g_1)", "differs")
                return False
            if not np.allclose(out, R[:, 0], rtol=0, atol=1e-10):
                ctx.fail("history:tn_simulator-differs-from-first-column-of-the-current-gates", dict(d, circuit=c),
                         "column 0", "differs")
                return False
        return True


def rand_mutation(rng, obj, sizes):
    name = type(obj).__name__
    p = lambda k=1: rand_particles(rng, sizes, k)
    if hasattr(obj, "qubit"):
        opts = [["on1", p()[0]], ["attr_qubit", p()[0]]]
        if hasattr(obj, "theta"):
            opts.append(["theta", rng.randint(-16, 16) / 8.0])
        return rng.choice(opts)
    if name in ("RxxGate", "RyyGate", "RzzGate"):
        return rng.choice([["theta", rng.randint(-16, 16) / 8.0], ["q1", p()[0]]])
    if name == "ISwapGate":
        if sum(sizes) < 2:
            return None
        a = p(2)
        return ["on2", a[0], a[1]]
    if name == "PhaseFactorGate":
        return rng.choice([["phi", rng.randint(-16, 16) / 8.0], ["prtcl_inplace", rng.randrange(obj.nwires), p()[0]]]
                          + ([["onlist", p(obj.nwires)]] if obj.nwires <= sum(sizes) else []))
    if name == "GeneralGate":
        return rng.choice([["prtcl_inplace", rng.randrange(obj.nwires), p()[0]]]
                          + ([["onlist", p(obj.nwires)]] if obj.nwires <= sum(sizes) else []))
    if name == "ControlledGate":
        n = obj.ncontrols
        opts = [["ctrl_state", [rng.randint(0, 1) for _ in range(n)]], ["ctrl_state_inplace", rng.randrange(n)],
                ["control_qubits_inplace", rng.randrange(n), p()[0]]]
        if n <= sum(sizes):
            opts.append(["set_control", p(n)])
        return rng.choice(opts)
    if name == "MultiplexedGate":
        n = obj.ncontrols
        opts = [["control_qubits_inplace", rng.randrange(n), p()[0]]]
        if n <= sum(sizes):
            opts.append(["set_control", p(n)])
        return rng.choice(opts)
    return None


def rand_history(rng, sizes, length, want=None):
    """JSON-able event list; executed (and extended with chosen mutations) by run_history"""
    evs = [["circ"]]
    nh, nc = 0, 1
    kids_of = []          # per handle: number of gate-valued children (for paths)
    kinds = []
    for _ in range(length):
        r = rng.random()
        if nh == 0 or r < 0.30:
            k = rng.choice(["leaf", "leaf", "C", "Mux"] if nh else ["leaf"])
            if want and nh >= 1 and rng.random() < 0.5:
                k = want
            if k == "leaf" or sum(sizes) < 2:
                sp = rand_spec(rng, sizes, True)
                while sp[0] in ("C", "Mux"):
                    sp = rand_spec(rng, sizes, True)
                evs.append(["new", sp])
                kids_of.append(0)
                kinds.append("leaf")
            elif k == "C":
                evs.append(["newC", [rng.randint(0, 1)], [rand_particles(rng, sizes, 1)[0]], rng.randrange(nh)])
                kids_of.append(1)
                kinds.append("C")
            else:
                a, b = rng.randrange(nh), rng.randrange(nh)
                evs.append(["newMux", [rand_particles(rng, sizes, 1)[0]], [a, b]])
                kids_of.append(2)
                kinds.append("Mux")
            nh += 1
        elif r < 0.34:
            evs.append(["circ"])
            nc += 1
        elif r < 0.39:
            # other = Circuit([g1, ...]) from the caller's objects (kept by reference: known finding for `other` itself)
            evs.append(["circL", [rng.randrange(nh) for _ in range(rng.randint(1, 2))]])
            nc += 1
        elif r < 0.56:
            evs.append(["mut", rng.randrange(nh), rng.randint(0, 2)])     # path depth chosen at run time
        elif r < 0.64:
            evs.append(["mutG", rng.randrange(nc), rng.randrange(8), rng.randint(0, 2)])   # circ.gates[j % len] (skipped if empty)
        elif r < 0.69:
            evs.append(["setkid", rng.randrange(nh), rng.randrange(nh), rng.choice(["attr", "inplace"])])
        elif r < 0.83:
            evs.append([rng.choice(["append_gate", "prepend_gate"]), rng.randrange(nc), rng.randrange(nh)])
        else:
            c, c2 = rng.randrange(nc), rng.randrange(nc)
            op = rng.choice(["append_circuit", "prepend_circuit"])
            if c == c2 and op == "append_circuit":
                op = "prepend_circuit"      # c.append_circuit(c) never terminates (list grows while iterated): excluded
            evs.append([op, c, c2])
    return evs


CTOR_INPUT = {"kind": "ctor", "program": "x = PauliXGate(q1); c = Circuit([x]); x.on(q2)"}
BUILDER_OPS = ("append_gate", "prepend_gate", "append_circuit", "prepend_circuit")


def run_history(ctx, rng, sizes, evs, desc, check=True, tn=True):
    """desc["fmode"]: how fields / lattices / qubit objects / parameters are made (see checks.C04.FMODE)"""
    with field_mode(desc.get("fmode")):
        return _run_history(ctx, rng, sizes, evs, desc, check, tn)


def _run_history(ctx, rng, sizes, evs, desc, check=True, tn=True):
    """execute a history on the implementation; returns (model events or None, final circuit values, final handle values).
    evs entries "mut"/"mutG"/"setkid" with symbolic choices are resolved here (deterministically from rng) and the
    resolved event list is returned in desc['events'] for replay.
    After EVERY event: (1) every circuit holds, by value, the gates it had when they were added (ghost); a circuit made by
    the list constructor Circuit([...]) that follows its caller's objects instead is the known finding SIG_CTOR - reported
    for that circuit only, its ghost re-synchronised, the history goes on; (2) after every builder call and every
    mutation ALL views of ALL circuits are re-queried and compared with the by-value reference (Observer)."""
    import qib
    import embed as gen_embed
    codes = gen_embed.class_codes()
    F = mk_fields(sizes)
    handles, circs = [], []
    ghost = []                # by-value reference: per circuit the list of value trees
    origin = []               # per circuit, per position: index of the caller's handle the list constructor was given, else None
    model = []                # Coq events; None once an event outside the modelled alphabet occurred
    resolved = []
    obs = Observer(ctx, sizes, codes, F, tn=tn) if check else None
    for ev in evs:
        k = ev[0]
        what = None           # None: nothing to observe; else the kind of event for the report
        if k == "new":
            g = build_gate(ev[1], F)
            handles.append(g)
            v = value_of(g, F, codes)
            model.append("ENew %s %s []" % (ct.nat(v[0]), zlist(v[1])))
            resolved.append(ev)
        elif k == "newC":
            g = qib.ControlledGate(handles[ev[3]], len(ev[1]), list(ev[1])).set_control([qubit(F, p) for p in ev[2]])
            handles.append(g)
            v = value_of(g, F, codes)
            model.append("ENew %s %s %s" % (ct.nat(v[0]), zlist(v[1]), natlist([ev[3]])))
            resolved.append(ev)
        elif k == "newMux":
            # the constructor requires targets of one width: re-target the later choices onto handles of the
            # width of the first one (deterministic; possibly the same object twice - shared targets)
            w0 = handles[ev[2][0]].num_wires
            cands = [i for i, hd in enumerate(handles) if hd.num_wires == w0]
            ev = [ev[0], ev[1], [a if handles[a].num_wires == w0 else cands[a % len(cands)] for a in ev[2]]]
            g = qib.MultiplexedGate([handles[a] for a in ev[2]], len(ev[1])).set_control([qubit(F, p) for p in ev[1]])
            handles.append(g)
            v = value_of(g, F, codes)
            model.append("ENew %s %s %s" % (ct.nat(v[0]), zlist(v[1]), natlist(ev[2])))
            resolved.append(ev)
        elif k == "circ":
            circs.append(qib.Circuit())
            ghost.append([])
            origin.append([])
            model.append("ENewCircuit")
            resolved.append(ev)
        elif k == "circL":
            # the list constructor: other = Circuit([g1, g2, ...]) from the caller's objects
            hs = [h for h in ev[1] if h < len(handles)]
            circs.append(qib.Circuit([handles[h] for h in hs]))
            ghost.append([value_of(handles[h], F, codes) for h in hs])
            origin.append(list(hs))
            model.append("ENewCircuitOf %s" % natlist(hs))
            resolved.append(["circL", hs])
            what = "builder-call"
        elif k in ("mut", "mutR"):
            h = ev[1]
            if k == "mut":
                path, obj = [], handles[h]
                for _ in range(ev[2]):
                    if hasattr(obj, "tgate"):
                        path.append(0)
                        obj = obj.target_gate()
                    elif hasattr(obj, "tgates") and obj.tgates:
                        i = rng.randrange(len(obj.tgates))
                        path.append(i)
                        obj = obj.target_gates()[i]
                mut = rand_mutation(rng, obj, sizes)
                if mut is None:
                    continue
            else:
                path, mut = ev[2], ev[3]
                obj = follow(handles[h], path)
            apply_mutation(obj, mut, F)
            v = value_of(obj, F, codes)
            model.append("EMutate %s %s %s" % (ct.nat(h), natlist(path), zlist(v[1])))
            resolved.append(["mutR", h, path, mut])
            what = "mutation"
        elif k in ("mutG", "mutGR"):
            # mutation THROUGH a circuit's gate list: other.gates[j] (or a target reached from it)
            c = ev[1]
            if c >= len(circs) or not circs[c].gates:
                continue
            j = ev[2] % len(circs[c].gates)
            if k == "mutG":
                path, obj = [], circs[c].gates[j]
                for _ in range(ev[3]):
                    if hasattr(obj, "tgate"):
                        path.append(0)
                        obj = obj.target_gate()
                    elif hasattr(obj, "tgates") and obj.tgates:
                        i = rng.randrange(len(obj.tgates))
                        path.append(i)
                        obj = obj.target_gates()[i]
                mut = rand_mutation(rng, obj, sizes)
                if mut is None:
                    continue
            else:
                path, mut = ev[3], ev[4]
                obj = follow(circs[c].gates[j], path)
            hv_before = [value_of(g, F, codes) for g in handles]
            apply_mutation(obj, mut, F)
            v = value_of(obj, F, codes)
            # the circuit whose own gate was mutated changes accordingly; nothing else may
            ghost[c] = ghost[c][:j] + [value_of(circs[c].gates[j], F, codes)] + ghost[c][j + 1:]
            model.append("EMutateGate %s %s %s %s" % (ct.nat(c), ct.nat(j), natlist(path), zlist(v[1])))
            resolved.append(["mutGR", c, j, path, mut])
            what = "gate-list-mutation"
            if check and origin[c][j] is None and hv_before != [value_of(g, F, codes) for g in handles]:
                ctx.fail("by-value:caller-object-changed-by-mutating-a-gate-of-a-circuit", dict(desc, events=resolved),
                         "the caller's gate objects are not touched by mutating the circuit's copy", "changed")
                return None
        elif k in ("setkid", "setkidR"):
            h, h2, mode = ev[1], ev[2], ev[3]
            if k == "setkid":
                obj, path = handles[h], []
                if not (hasattr(obj, "tgate") or hasattr(obj, "tgates")):
                    continue
                i = 0 if hasattr(obj, "tgate") else rng.randrange(len(obj.tgates))
            else:
                path, i = ev[4], ev[5]
                obj = follow(handles[h], path)
            new = handles[h2]
            if any(o is obj for o in reach(new)):
                continue                                   # would tie a knot (RecursionError in copy/as_matrix)
            # an assignment that leaves some multiplexer with targets of unequal width makes an object the
            # constructor (hence copy()/append_gate) refuses: not a gate of the property, skipped
            old_w = (obj.tgate if hasattr(obj, "tgate") else obj.tgates[i]).num_wires
            if new.num_wires != old_w:
                continue
            if hasattr(obj, "tgate"):
                obj.tgate = new
            elif mode == "inplace":
                obj.tgates[i] = new
            else:
                t = list(obj.tgates)
                t[i] = new
                obj.tgates = t
            model.append("ESetKid %s %s %s %s" % (ct.nat(h), natlist(path), ct.nat(i), ct.nat(h2)))
            resolved.append(["setkidR", h, h2, mode, path, i])
            what = "mutation"
        elif k in ("append_gate", "prepend_gate"):
            c, h = ev[1], ev[2]
            v = value_of(handles[h], F, codes)
            try:
                getattr(circs[c], k)(handles[h])
            except Exception as e:
                ctx.fail("%s:crash:%s" % (k, type(e).__name__), desc, "gate copied into the circuit", repr(e)[:200])
                return None
            ghost[c] = ghost[c] + [v] if k == "append_gate" else [v] + ghost[c]
            origin[c] = origin[c] + [None] if k == "append_gate" else [None] + origin[c]
            model.append("%s %s %s" % ("EAppendGate" if k == "append_gate" else "EPrependGate", ct.nat(c), ct.nat(h)))
            resolved.append(ev)
            what = "builder-call"
        elif k in ("append_circuit", "prepend_circuit"):
            c, c2 = ev[1], ev[2]
            try:
                getattr(circs[c], k)(circs[c2])
            except Exception as e:
                ctx.fail("%s:crash:%s" % (k, type(e).__name__), desc, "gates copied into the circuit", repr(e)[:200])
                return None
            # the receiving circuit takes the gates `other` holds NOW, by value (ghost[c2] is what it holds now: checked
            # after the previous event)
            taken = list(ghost[c2])
            ghost[c] = ghost[c] + taken if k == "append_circuit" else taken + ghost[c]
            origin[c] = origin[c] + [None] * len(taken) if k == "append_circuit" else [None] * len(taken) + origin[c]
            model.append("%s %s %s" % ("EAppendCircuit" if k == "append_circuit" else "EPrependCircuit", ct.nat(c), ct.nat(c2)))
            resolved.append(ev)
            what = "builder-call"
        else:
            raise ValueError(ev)
        # ---- oracle after every event: circuits hold the values their gates had when added
        if check:
            d = dict(desc, events=list(resolved))
            for c, circ in enumerate(circs):
                now = [value_of(g, F, codes) for g in circ.gates]
                if now == ghost[c]:
                    continue
                byref = [value_of(handles[o], F, codes) if o is not None else gv for o, gv in zip(origin[c], ghost[c])]
                if what != "builder-call" and any(o is not None for o in origin[c]) and now == byref:
                    # Circuit([...]) kept the caller's objects: the known finding, for the constructed circuit itself
                    ctx.fail(SIG_CTOR, CTOR_INPUT, "c.as_matrix unchanged", "changed")
                    ctx.count("history_ctor_by_reference_observed")
                    ghost[c] = now
                    continue
                if what == "builder-call":
                    ctx.fail("builder:%s-not-the-list-operation" % k, d, "gate list composed by value", "differs")
                elif what == "gate-list-mutation":
                    ctx.fail("by-value:circuit-changed-by-mutating-a-gate-of-another-circuit", dict(d, circuit=c),
                             "only the circuit whose own gate was mutated changes", "circuit %d changed" % c)
                else:
                    ctx.fail("by-value:circuit-changed-by-mutating-caller-object", dict(d, circuit=c),
                             "circuit gates unchanged by a later mutation of the caller's objects", "changed")
                return None
            if what is not None and not obs.observe(circs, ghost, d):
                return None
    desc["events"] = resolved
    return model, [[value_of(g, F, codes) for g in c.gates] for c in circs], [value_of(g, F, codes) for g in handles]


def oracle_builders(ctx, sizes, ops, desc):
    """a sequence of builder calls (gates / circuits built from gate lists) on an empty circuit"""
    with field_mode(desc.get("fmode")):
        return _oracle_builders(ctx, sizes, ops, desc)


def _oracle_builders(ctx, sizes, ops, desc):
    import qib
    F = mk_fields(sizes)
    order = list(range(len(sizes)))
    main = qib.Circuit()
    ref = []
    for k, a in ops:
        if k in ("ag", "pg"):
            g = build_gate(a, F)
            (main.append_gate if k == "ag" else main.prepend_gate)(g)
            ref = ref + [a] if k == "ag" else [a] + ref
        else:
            other = qib.Circuit([build_gate(s, F) for s in a])
            (main.append_circuit if k == "ac" else main.prepend_circuit)(other)
            ref = ref + list(a) if k == "ac" else list(a) + ref
    if not ref:
        return None
    M = dense(main.as_matrix(F))
    if not np.array_equal(M, ref_circuit(sizes, order, ref)):
        ctx.fail("builder:calls-do-not-compose-as-list-operations", desc, "product of the gates in list order", "differs")
    return M, ref


def oracle_ctor(ctx):
    """Circuit(gates) keeps the caller's objects (known finding)"""
    import qib
    F = mk_fields([3])
    x = qib.PauliXGate(qubit(F, (0, 1)))
    c = qib.Circuit([x])
    A = dense(c.as_matrix(F))
    x.on(qubit(F, (0, 2)))
    if not np.array_equal(A, dense(c.as_matrix(F))):
        ctx.fail(SIG_CTOR, {"kind": "ctor", "program": "x = PauliXGate(q1); c = Circuit([x]); x.on(q2)"},
                 "c.as_matrix unchanged", "changed")


def oracle_array_alias(ctx):
    """in-place write into the numpy array a gate object holds, after the gate was added: GeneralGate.mat and
    RotationGate.ntheta are handed to the copy's constructor as they are (np.asarray: no copy), so the circuit's copy
    and the caller's gate share the array.  PrepareGate.vec is re-created by its constructor (guarded here too)."""
    import qib
    F = mk_fields([2])
    bad = []
    g = qib.GeneralGate(np.array([[0, 1], [1, 0]], dtype=complex), 1).on(qubit(F, (0, 0)))
    c = qib.Circuit()
    c.append_gate(g)
    A = dense(c.as_matrix(F))
    try:
        g.mat[:] = np.diag([1, -1])
    except ValueError:
        pass            # read-only array: nothing the caller could write through
    if not np.array_equal(A, dense(c.as_matrix(F))):
        bad.append("GeneralGate.mat")
    r = qib.RotationGate(np.array([0.25, 0.5, -0.75]), qubit(F, (0, 1)))
    c = qib.Circuit()
    c.prepend_gate(r)
    A = dense(c.as_matrix(F))
    try:
        r.ntheta[:] = [1.0, 0.0, 0.0]
    except ValueError:
        pass
    if not np.array_equal(A, dense(c.as_matrix(F))):
        bad.append("RotationGate.ntheta")
    p = qib.PrepareGate([0.5, 0.25, 0.125, 0.125], 2).on([qubit(F, (0, 0)), qubit(F, (0, 1))])
    c = qib.Circuit()
    c.append_gate(p)
    A = dense(c.as_matrix(F))
    try:
        p.vec[:] = [0.125, 0.125, 0.25, 0.5]
    except ValueError:
        pass
    if not np.array_equal(A, dense(c.as_matrix(F))):
        bad.append("PrepareGate.vec")
    if bad:
        ctx.fail(SIG_ARRAY, {"kind": "array_alias",
                             "program": "g = GeneralGate(U, 1).on(q0); c.append_gate(g); g.mat[:] = V   (same: RotationGate.ntheta)"},
                 "c.as_matrix unchanged", "changed through " + ", ".join(bad))


# ----------------------------------------------------------------------------- gates that differ in ONE coordinate
def sibling_families(rng, sizes):
    """families of gates that agree in everything but ONE coordinate of their description - order of the particles
    (same SET: control/target swapped, the same dense matrix on permuted wires, iSWAP/Rzz with the arguments exchanged),
    one particle, the field of a particle (same site of another register), a parameter, the control state, the class of
    the gate or of its target, the memory layout of the matrix - plus identical gates.  A view that identifies gates by
    less than their full value (a cache keyed on the class and the SET of particles, on the matrix bytes, on the
    particles without the parameters, ...) confuses two members of a family.  (tag, [spec, spec, ...])"""
    allp = [[fi, i] for fi, n in enumerate(sizes) for i in range(n)]
    a, b, c = [list(x) for x in rng.sample(allp, 3)]
    th1, th2 = rng.sample([x / 8.0 for x in range(-12, 13) if x], 2)
    U2, V2 = rand_phase_perm(rng, 4), rand_phase_perm(rng, 4)
    while np.array_equal(U2, V2) or np.array_equal(U2, U2.T):
        U2 = rand_phase_perm(rng, 4)
    U3 = rand_phase_perm(rng, 8)
    u2, v2, u3 = mat_spec(U2), mat_spec(V2), mat_spec(U3)
    fam = []
    # -- particle ORDER, same set
    for T in (["X"], ["Y"], ["S"], ["H"], ["Rz", th1]):
        fam.append(("order:control<->target:" + T[0], [["C", [1], [a], T + [b]], ["C", [1], [b], T + [a]]]))
    fam.append(("order:negated-control<->target", [["C", [0], [a], ["X", b]], ["C", [0], [b], ["X", a]]]))
    fam.append(("order:two-controls", [["C", [1, 0], [a, b], ["X", c]], ["C", [1, 0], [b, a], ["X", c]],
                                       ["C", [1, 0], [c, b], ["X", a]], ["C", [1, 0], [a, c], ["X", b]]]))
    fam.append(("order:nested-controls", [["C", [1], [a], ["C", [0], [b], ["Y", c]]], ["C", [1], [b], ["C", [0], [a], ["Y", c]]],
                                          ["C", [1], [c], ["C", [0], [b], ["Y", a]]]]))
    fam.append(("order:general-2", [["Gen", u2, [a, b], rand_layout(rng)], ["Gen", u2, [b, a], rand_layout(rng)]]))
    fam.append(("order:general-3", [["Gen", u3, list(o), rand_layout(rng)] for o in itertools.permutations([a, b, c])]))
    fam.append(("order:controlled-general", [["C", [1], [o[0]], ["Gen", u2, [o[1], o[2]], rand_layout(rng)]]
                                             for o in itertools.permutations([a, b, c])]))
    d2, d3 = mat_spec(rand_dense_unitary(rng, 4)), mat_spec(rand_dense_unitary(rng, 8))
    fam.append(("order:dense-general-2", [["Gen", d2, [a, b], rand_layout(rng)], ["Gen", d2, [b, a], rand_layout(rng)]]))
    fam.append(("order:dense-general-3", [["Gen", d3, list(o), rand_layout(rng)] for o in itertools.permutations([a, b, c])]))
    fam.append(("order:iswap", [["iSwap", a, b], ["iSwap", b, a]]))
    for R in ("Rxx", "Ryy", "Rzz"):
        fam.append(("order:" + R, [[R, th1, a, b], [R, th1, b, a]]))
    fam.append(("order:phase", [["Phase", th1, [a, b]], ["Phase", th1, [b, a]]]))
    fam.append(("order:multiplexed", [["Mux", [a], [["X", b], ["S", b]]], ["Mux", [b], [["X", a], ["S", a]]]]))
    fam.append(("order:prepare", [["Prep", [0.5, 0.25, -0.125, 0.125], [a, b]], ["Prep", [0.5, 0.25, -0.125, 0.125], [b, a]]]))
    # -- one particle replaced
    fam.append(("particle:target", [["C", [1], [a], ["X", b]], ["C", [1], [a], ["X", c]]]))
    fam.append(("particle:control", [["C", [1], [a], ["Y", b]], ["C", [1], [c], ["Y", b]]]))
    fam.append(("particle:general", [["Gen", u2, [a, b], rand_layout(rng)], ["Gen", u2, [a, c], rand_layout(rng)]]))
    fam.append(("particle:one-qubit", [["S", a], ["S", b]]))
    # -- the same site of another register (fields of equal size)
    twins = [(p, q) for p in allp for q in allp if p[0] != q[0] and p[1] == q[1]]
    if twins:
        p_, q_ = rng.choice(twins)
        r_ = rng.choice([x for x in allp if x != p_ and x != q_])
        fam.append(("field:one-qubit", [["Y", p_], ["Y", q_]]))
        fam.append(("field:control", [["C", [1], [p_], ["X", r_]], ["C", [1], [q_], ["X", r_]]]))
        fam.append(("field:same-site-control-and-target", [["C", [1], [p_], ["X", q_]], ["C", [1], [q_], ["X", p_]]]))
        fam.append(("field:general", [["Gen", u2, [p_, r_], rand_layout(rng)], ["Gen", u2, [q_, r_], rand_layout(rng)]]))
    # -- a parameter
    for R in ("Rx", "Ry", "Rz"):
        fam.append(("parameter:" + R, [[R, th1, a], [R, th2, a], [R, -th1, a]]))
    # parameters that agree to eight printed digits (a view naming / caching gates by a rounded or printed parameter)
    eps = 2.0 ** -28
    for R in ("Rx", "Ry", "Rz"):
        fam.append(("parameter:nearly-equal:" + R, [[R, th1, a], [R, th1 + eps, b]]))
    fam.append(("parameter:nearly-equal:phase", [["Phase", th1, [a, b]], ["Phase", th1 + eps, [a, b]]]))
    fam.append(("parameter:nearly-equal:controlled-rz", [["C", [1], [a], ["Rz", th1, b]], ["C", [1], [a], ["Rz", th1 + eps, b]]]))
    fam.append(("parameter:nearly-equal:rotation", [["Rot", [0.5, 0.25, 0.125], a], ["Rot", [0.5, 0.25, 0.125 + eps], b]]))
    fam.append(("parameter:Rzz", [["Rzz", th1, a, b], ["Rzz", th2, a, b]]))
    fam.append(("parameter:phase", [["Phase", th1, [a, b]], ["Phase", th2, [a, b]]]))
    fam.append(("parameter:rotation", [["Rot", [0.25, -0.5, 0.75], a], ["Rot", [0.25, 0.5, 0.75], a]]))
    fam.append(("parameter:controlled-rz", [["C", [1], [a], ["Rz", th1, b]], ["C", [1], [a], ["Rz", th2, b]]]))
    fam.append(("parameter:general-matrix", [["Gen", u2, [a, b], rand_layout(rng)], ["Gen", v2, [a, b], rand_layout(rng)]]))
    fam.append(("parameter:general-matrix-transposed-same-memory", [["Gen", u2, [a, b], "C"], ["Gen", mat_spec(U2.T), [a, b], "T"]]))
    fam.append(("parameter:prepare", [["Prep", [0.5, 0.25, -0.125, 0.125], [a, b]], ["Prep", [0.125, 0.25, -0.5, 0.125], [a, b]]]))
    # -- control state
    fam.append(("ctrl_state:1", [["C", [1], [a], ["X", b]], ["C", [0], [a], ["X", b]]]))
    fam.append(("ctrl_state:2", [["C", [1, 0], [a, b], ["Z", c]], ["C", [0, 1], [a, b], ["Z", c]], ["C", [1, 1], [a, b], ["Z", c]]]))
    # -- class of the gate / of the target
    fam.append(("class:one-qubit", [["X", a], ["Y", a], ["Z", a], ["H", a], ["S", a], ["Sdg", a], ["T", a], ["Tdg", a], ["Sx", a]]))
    fam.append(("class:rotation-axis", [["Rx", th1, a], ["Ry", th1, a], ["Rz", th1, a]]))
    fam.append(("class:two-qubit-rotation", [["Rxx", th1, a, b], ["Ryy", th1, a, b], ["Rzz", th1, a, b]]))
    fam.append(("class:target", [["C", [1], [a], ["X", b]], ["C", [1], [a], ["Y", b]], ["C", [1], [a], ["Z", b]]]))
    fam.append(("class:multiplexed-targets", [["Mux", [a], [["X", b], ["Z", b]]], ["Mux", [a], [["Z", b], ["X", b]]]]))
    fam.append(("class:general-vs-named", [["Gen", mat_spec(np.array([[0, 1], [1, 0]])), [a], rand_layout(rng)], ["X", a]]))
    # -- same value, different memory layout / identical
    fam.append(("layout:general", [["Gen", u2, [a, b], "C"], ["Gen", u2, [a, b], "F"], ["Gen", u2, [a, b], "c64"]]))
    fam.append(("identical:controlled", [["C", [1], [a], ["X", b]], ["C", [1], [a], ["X", b]]]))
    fam.append(("identical:hadamard", [["H", a], ["H", a]]))
    return fam


def sibling_programs(rng, sizes, fam):
    """programs around one family: a layer that makes |0..0> generic (so that the first column sees every member), then
    the members in several interleavings"""
    allp = [[fi, i] for fi, n in enumerate(sizes) for i in range(n)]
    tag, gs = fam
    pre = [["Ry", (3 + 2 * i) / 8.0, p] for i, p in enumerate(allp)] + [["Rz", (1 + i) / 8.0, p] for i, p in enumerate(allp)]
    g0, g1 = gs[0], gs[1]
    bodies = [list(gs) + [g0], [g1, g0], [g0, g1, g0, g1], [g0, g0, g1]]
    if len(gs) > 2:
        r = list(gs)
        rng.shuffle(r)
        bodies.append(r + r[:1])
    out = []
    for i, body in enumerate(bodies):
        if i % 3 == 0:
            head = pre
        elif i % 3 == 1:        # a basis state (exact programs: also compared with the Coq model)
            head = [["X", p] for p in rng.sample(allp, rng.randint(1, len(allp)))]
        else:
            head = [["X", p] for p in rng.sample(allp, 1)] + [["Ry", 0.375, p] for p in allp[1:]]
        out.append(jcopy(head) + jcopy(body))
    return out


# ----------------------------------------------------------------------------- structured-matrix gates (round 3)
# Gates whose matrix has STRUCTURE a view may exploit with a special path (permutation -> gather rows, diagonal -> scale
# rows, monomial -> both, identity -> skip, few entries -> sparse kernel): non-symmetric permutations, signed / phased
# permutations, diagonal gates, sparse non-monomial unitaries, the identity; as GeneralGate in int / float / complex
# dtype and through the built-in gates; at every position of the circuit; on wires in non-ascending order.  The
# reference never asks the library for a matrix: plain numpy matrices written down from the definitions.
_SQ = np.sqrt(0.5)
_W_REAL = np.array([[0.6, -0.8], [0.8, 0.6]], dtype=complex)
_W_CPLX = np.array([[0.6, 0.8j], [0.8j, 0.6]], dtype=complex)
_W_HAD = np.array([[_SQ, _SQ], [_SQ, -_SQ]], dtype=complex)
_PLAIN_ONE = {
    "I": [[1, 0], [0, 1]], "X": [[0, 1], [1, 0]], "Y": [[0, -1j], [1j, 0]], "Z": [[1, 0], [0, -1]],
    "H": [[_SQ, _SQ], [_SQ, -_SQ]], "S": [[1, 0], [0, 1j]], "Sdg": [[1, 0], [0, -1j]],
    "T": [[1, 0], [0, np.exp(0.25j * np.pi)]], "Tdg": [[1, 0], [0, np.exp(-0.25j * np.pi)]],
}


def plain_matrix(spec):
    """numpy-only matrix of a gate spec over its own particles (spec_particles order: controls first, first = most
    significant), from the textbook definitions; never built from a library object"""
    k = spec[0]
    if k in _PLAIN_ONE:
        return np.array(_PLAIN_ONE[k], dtype=complex)
    if k in ("Rx", "Ry", "Rz"):
        c, s = np.cos(spec[1] / 2.0), np.sin(spec[1] / 2.0)
        if k == "Rx":
            return np.array([[c, -1j * s], [-1j * s, c]], dtype=complex)
        if k == "Ry":
            return np.array([[c, -s], [s, c]], dtype=complex)
        return np.array([[c - 1j * s, 0], [0, c + 1j * s]], dtype=complex)
    if k == "Gen":
        return np.array([[complex(*e) for e in row] for row in spec[1]], dtype=complex)
    if k == "C":
        U = plain_matrix(spec[3])
        d = U.shape[0]
        ic = 0
        for b in spec[1]:                       # first control = most significant bit of the control index
            ic = 2 * ic + int(b)
        M = np.identity(d * 2 ** len(spec[1]), dtype=complex)
        M[ic * d:(ic + 1) * d, ic * d:(ic + 1) * d] = U
        return M
    if k == "Mux":
        Us = [plain_matrix(t) for t in spec[2]]
        d = Us[0].shape[0]
        M = np.zeros((d * len(Us), d * len(Us)), dtype=complex)
        for i, U in enumerate(Us):               # control value i selects target i
            M[i * d:(i + 1) * d, i * d:(i + 1) * d] = U
        return M
    raise ValueError("no plain matrix for " + repr(spec[0]))


def perm_matrix(p):
    """the permutation |x> -> |p[x]> of the basis states: entry (p[x], x) = 1"""
    P = np.zeros((len(p), len(p)), dtype=complex)
    for x, y in enumerate(p):
        P[y, x] = 1
    return P


def nonsym_perm(rng, dim):
    """a permutation that is not its own inverse (dim >= 3); the exchange for dim 2"""
    if dim < 3:
        return [1, 0][:dim]
    while True:
        p = list(range(dim))
        rng.shuffle(p)
        if any(p[p[x]] != x for x in range(dim)):
            return p


def structured_matrices(rng, m):
    """(tag, plain unitary on m qubits) for every class of structure; the non-diagonal ones are non-symmetric whenever
    the dimension allows it (U != U^T, U != U^-1: a path that applies the inverse / the transpose shows)"""
    dim = 2 ** m
    out = [("identity", np.identity(dim, dtype=complex))]
    if dim == 2:
        out.append(("permutation:exchange", perm_matrix([1, 0])))
    else:
        out.append(("permutation:cyclic-shift+1", perm_matrix([(x + 1) % dim for x in range(dim)])))
        out.append(("permutation:cyclic-shift-1", perm_matrix([(x - 1) % dim for x in range(dim)])))
        if dim >= 8:
            out.append(("permutation:cyclic-shift+3", perm_matrix([(x + 3) % dim for x in range(dim)])))
        a, b, c = rng.sample(range(dim), 3)
        p = list(range(dim))
        p[a], p[b], p[c] = b, c, a
        out.append(("permutation:3-cycle", perm_matrix(p)))
        out.append(("permutation:random", perm_matrix(nonsym_perm(rng, dim))))
    P = perm_matrix(nonsym_perm(rng, dim))
    signs = [1, -1] + [rng.choice([1, -1]) for _ in range(dim - 2)]
    rng.shuffle(signs)
    out.append(("monomial:signed-permutation", P * np.array(signs)))
    Q = P.copy()
    Q[dim - 1, :] *= -1
    out.append(("monomial:all-ones-but-the-last-row", Q))
    Q = P.copy()
    Q[0, :] *= 1j
    out.append(("monomial:all-ones-but-the-first-row", Q))
    out.append(("monomial:phases-i^k", P * np.array([1j ** rng.randrange(4) for _ in range(dim)])))
    out.append(("monomial:phases-8th-roots", P * np.exp(0.25j * np.pi * np.array([rng.randrange(8) for _ in range(dim)]))))
    out.append(("monomial:permutation-times-i", 1j * P))
    out.append(("monomial:permutation-times-minus-1", -P))
    sg = [1, -1] + [rng.choice([1, -1]) for _ in range(dim - 2)]
    rng.shuffle(sg)
    out.append(("diagonal:+-1", np.diag(np.array(sg, dtype=complex))))
    out.append(("diagonal:one-entry-minus-1", np.diag(np.array([1] * (dim - 1) + [-1], dtype=complex))))
    out.append(("diagonal:i^k", np.diag(np.array([1j ** k for k in [1] + [rng.randrange(4) for _ in range(dim - 1)]]))))
    out.append(("diagonal:8th-roots", np.diag(np.exp(0.25j * np.pi * np.array([1] + [rng.randrange(8) for _ in range(dim - 1)])))))
    out.append(("diagonal:minus-identity", -np.identity(dim, dtype=complex)))
    if dim >= 4:
        Qh = perm_matrix(nonsym_perm(rng, dim // 2))
        out.append(("sparse:block-permutation(x)dense-block", np.kron(Qh, _W_REAL)))
        out.append(("sparse:dense-block(x)permutation", np.kron(_W_CPLX, Qh)))
        a, b = sorted(rng.sample(range(dim), 2))
        B = np.identity(dim, dtype=complex)
        B[np.ix_([a, b], [a, b])] = _W_REAL
        out.append(("sparse:identity-with-one-dense-block", B))
        out.append(("sparse:permutation.identity-with-one-dense-block", P @ B))
        B = np.identity(dim, dtype=complex)
        B[np.ix_([a, b], [a, b])] = _W_HAD
        out.append(("sparse:signed-permutation.identity-with-hadamard-block", (P * np.array(signs)) @ B))
    return out


def layouts_for(U):
    """dtypes / memory layouts (checks.C04.relayout) that hold U exactly"""
    if np.all(U.imag == 0) and np.all(U.real == np.round(U.real)):
        return ("int", "C", "real", "i8", "Fint", "c64", "list", "Freal", "F")
    if np.all(U.imag == 0):
        return ("real", "C", "Freal", "list")
    return ("C", "F", "c64", "list", "T")


def _unsorted(rng, allp, m):
    """m particles, NOT in ascending order when m >= 2"""
    while True:
        ps = [list(p) for p in rng.sample(allp, m)]
        if m < 2 or ps != sorted(ps):
            return ps


def _generic_layer(allp):
    """a product layer that makes |0..0> a state without zero amplitudes and without symmetry between the wires"""
    return [["Ry", (3 + 2 * i) / 8.0, p] for i, p in enumerate(allp)] + [["Rz", 0.625, allp[0]], ["Rz", -0.375, allp[-1]]]


def structured_programs(rng, sizes, thorough):
    """(class tag, position tag, specs): every structured matrix as a GeneralGate on 1..3 wires in non-ascending order,
    as the only gate, first, last, in the middle, between dense gates, twice in a row, next to ANOTHER structured gate,
    and inside a circuit of permutation gates acting on a basis state"""
    allp = [[fi, i] for fi, n in enumerate(sizes) for i in range(n)]
    pre = _generic_layer(allp)
    dense2 = mat_spec(rand_dense_unitary(rng, 4))
    prev = ["C", [1], [allp[-1]], ["X", allp[0]]]
    nlay = 0
    for m in (1, 2, 3):
        if m > len(allp):
            continue
        for tag, U in structured_matrices(rng, m):
            lays = layouts_for(U)
            if thorough and m >= 2:
                base = _unsorted(rng, allp, m)
                others = [list(o) for o in itertools.permutations(base) if list(o) != base]
                orders = [base] + rng.sample(others, min(len(others), 2))
            else:
                orders = [_unsorted(rng, allp, m)]
            for ps in orders:
                S = ["Gen", mat_spec(U), ps, lays[nlay % len(lays)]]
                nlay += 1
                x = ps[-1]
                rest = [p for p in allp if p not in ps]
                y = rng.choice(rest) if rest else ps[0]
                Dd = ["Gen", dense2, [y, x], "C"] if y != x else ["H", x]
                Hx = ["H", ps[0]]
                CXg = ["C", [rng.randint(0, 1)], [x], ["X", y]] if y != x else ["X", x]
                basis = [["X", p] for p in rng.sample(allp, rng.randint(1, len(allp)))]
                shapes = [("only", [S]),                       # short programs first: the first failure per signature is kept
                          ("twice-only", [S, S]),
                          ("two-structured-gates-only", [prev, S]),
                          ("first", [S, Dd, Hx]),
                          ("between-dense", [Hx, Dd, S, Dd]),
                          ("twice", [Dd, S, S, Hx]),
                          ("last", pre + [Dd, S]),
                          ("middle", pre + [S, Dd]),
                          ("basis-state-permutation-circuit", basis + [S, CXg, S]),
                          ("after-another-structured-gate", pre + [prev, S, Dd])]
                if thorough:
                    shapes.append(("three-times", [Hx, S, S, S]))
                for pos, specs in shapes:
                    yield tag, pos, jsonable(jcopy(specs))
                prev = S


def builtin_structured_programs(rng, sizes, thorough):
    """(class tag, position tag, specs): structure reached through the BUILT-IN gates - controlled-X under every control
    state and wire assignment, SWAP-like and cyclic composites of them (each factor is symmetric, the product is not),
    controlled / multiplexed GeneralGates holding permutations and monomial matrices, diagonal gates, random reversible
    circuits"""
    allp = [[fi, i] for fi, n in enumerate(sizes) for i in range(n)]
    pre = _generic_layer(allp)
    a, b, c = _unsorted(rng, allp, 3)
    dense2 = mat_spec(rand_dense_unitary(rng, 4))
    Dd = ["Gen", dense2, [c, a], "C"]
    cyc = perm_matrix([1, 2, 3, 0])
    cx = lambda s, p, q: ["C", [s], [p], ["X", q]]
    ccx = lambda s, t, p, q, r: ["C", [s, t], [p, q], ["X", r]]
    blocks = []
    perms3 = list(itertools.permutations([a, b, c]))
    if not thorough:
        perms3 = rng.sample(perms3, 3)
    for o in perms3:
        for s in (1, 0):
            blocks.append(("controlled-X:ctrl_state=%d" % s, [cx(s, o[0], o[1])]))
        for s, t in itertools.product((0, 1), (0, 1)):
            blocks.append(("controlled-X:ctrl_state=%d%d" % (s, t), [ccx(s, t, o[0], o[1], o[2])]))
    blocks += [
        ("composite:swap", [cx(1, a, b), cx(1, b, a), cx(1, a, b)]),
        ("composite:two-cnots-cyclic", [cx(1, a, b), cx(1, b, a)]),
        ("composite:three-cnots-cyclic", [cx(1, a, b), cx(1, b, c), cx(0, c, a)]),
        ("composite:toffoli-cnot", [ccx(1, 0, a, b, c), cx(1, c, a), cx(0, b, c)]),
        ("composite:fredkin", [cx(1, c, b), ccx(1, 1, a, b, c), cx(1, c, b)]),
        ("composite:nested-controls", [["C", [1], [a], ["C", [0], [b], ["X", c]]], cx(1, c, b)]),
        ("controlled-general:cyclic-shift", [["C", [1], [a], ["Gen", mat_spec(cyc), [b, c], "int"]]]),
        ("controlled-general:cyclic-shift:negated-control", [["C", [0], [c], ["Gen", mat_spec(cyc.T), [b, a], "C"]]]),
        ("controlled-general:monomial", [["C", [1], [b], ["Gen", mat_spec(cyc * np.array([1, 1j, -1, 1])), [c, a], "c64"]]]),
        ("controlled-general:nested", [["C", [0], [b], ["C", [1], [a], ["Gen", mat_spec(perm_matrix([1, 0])), [c], "i8"]]]]),
        ("multiplexed:cyclic-shift-and-inverse", [["Mux", [a], [["Gen", mat_spec(cyc), [b, c], "real"], ["Gen", mat_spec(cyc.T), [b, c], "int"]]]]),
        ("multiplexed:X-and-identity", [["Mux", [b], [["X", a], ["I", a]]], ["Mux", [c], [["I", b], ["X", b]]]]),
        ("multiplexed:diagonal", [["Mux", [c], [["Z", a], ["S", a]]]]),
        ("diagonal:built-in-layer", [["Z", a], ["S", b], ["T", c], ["Sdg", a], ["Tdg", b], ["Rz", 0.625, c]]),
        ("diagonal:controlled", [["C", [1], [c], ["Z", a]], ["C", [0], [a], ["S", b]], ["C", [1, 0], [b, c], ["Z", a]],
                                 ["C", [1], [a], ["Rz", -0.375, c]], ["C", [0], [b], ["T", c]]]),
        ("identity:built-in", [["I", a], ["I", c]]),
    ]
    for t in range(12 if thorough else 4):
        body = []
        for _ in range(rng.randint(4, 8)):
            r = rng.randrange(4)
            o = rng.sample([a, b, c], 3)
            if r == 0:
                body.append(["X", o[0]])
            elif r == 1:
                body.append(cx(rng.randint(0, 1), o[0], o[1]))
            elif r == 2:
                body.append(ccx(rng.randint(0, 1), rng.randint(0, 1), o[0], o[1], o[2]))
            else:
                body.append(["Gen", mat_spec(perm_matrix(nonsym_perm(rng, 4))), [o[0], o[1]], rng.choice(["int", "C", "real", "i8"])])
        blocks.append(("reversible:random", body))
    for t in range(6 if thorough else 2):
        body = []
        for _ in range(rng.randint(4, 8)):
            r = rng.randrange(5)
            o = rng.sample([a, b, c], 3)
            if r == 0:
                body.append([rng.choice(["Z", "S", "T", "X"]), o[0]])
            elif r == 1:
                body.append(["C", [rng.randint(0, 1)], [o[0]], [rng.choice(["Z", "S", "X"]), o[1]]])
            elif r == 2:
                body.append(["Gen", mat_spec(np.diag([1j ** rng.randrange(4) for _ in range(4)])), [o[0], o[1]], "C"])
            elif r == 3:
                body.append(["Gen", mat_spec(perm_matrix(nonsym_perm(rng, 4)) * np.array([rng.choice([1, -1]) for _ in range(4)])),
                             [o[0], o[1]], rng.choice(["int", "real", "C"])])
            else:
                body.append(["Rz", rng.randint(-8, 8) / 8.0, o[0]])
        blocks.append(("monomial:random-circuit", body))
    for tag, body in blocks:
        basis = [["X", p] for p in rng.sample(allp, rng.randint(1, len(allp)))]
        shapes = [("only", body), ("middle", pre + body + [Dd]), ("twice", [Dd] + body + body), ("basis-state", basis + body)]
        if thorough:
            shapes += [("last", pre + [Dd] + body), ("first", body + [Dd, ["H", b]])]
        for pos, specs in shapes:
            yield tag, pos, jsonable(jcopy(specs))


def _ncontrols(spec):
    if spec[0] == "C":
        return len(spec[1]) + _ncontrols(spec[3])
    if spec[0] == "Mux":
        return len(spec[1]) + max(_ncontrols(t) for t in spec[2])
    return 0


def oracle_structured(ctx, sizes, specs, desc):
    """all views of one program against the ordered product of PLAIN numpy matrices (plain_matrix + einsum embedding):
    as_matrix over circ.fields() (and over desc["order"] if given), statevector simulator, tensor-network contraction,
    tensor-network simulator; then for every cut in desc["cuts"]: head / tail circuits on their own, append_circuit(head);
    append_circuit(tail) and append_circuit(tail); prepend_circuit(head) must have the matrix tail @ head"""
    with field_mode(desc.get("fmode")):
        return _oracle_structured(ctx, sizes, specs, desc)


def _oracle_structured(ctx, sizes, specs, desc):
    import qib
    from qib.tensor_network.tensor_network import to_full_tensor
    F = mk_fields(sizes)
    order = fields_of_program(specs)
    nw = sum(sizes[i] for i in order)
    mats = [plain_matrix(s_) for s_ in specs]
    exact = all(is_gauss_int(m_) for m_ in mats)

    def product(o, lo, hi):
        n_ = sum(sizes[i] for i in o)
        R_ = np.identity(2 ** n_, dtype=complex)
        for s_, m_ in zip(specs[lo:hi], mats[lo:hi]):
            R_ = ref_embed(n_, [wire_of(sizes, o, p) for p in spec_particles(s_)], m_) @ R_
        return R_

    def same(A, B, tol=1e-12):
        return A.shape == B.shape and (np.array_equal(A, B) if exact else np.allclose(A, B, rtol=0, atol=tol))
    try:
        circ, gates = build_circuit(specs, F, desc.get("build", "append"))
    except Exception as e:
        ctx.fail("structured-gates:building-the-circuit:crash:" + type(e).__name__, desc, "circuit", repr(e)[:200])
        return
    if [fidx(F, f) for f in circ.fields()] != order:
        ctx.fail("Circuit.fields:order-of-first-appearance", desc, order, [fidx(F, f) for f in circ.fields()])
        return
    fl = mkseq([F[i] for i in order])
    R = product(order, 0, len(specs))
    # (a) matrix
    try:
        M = dense(circ.as_matrix(fl))
        if not same(M, R):
            ctx.fail("as_matrix:structured-gates:not-the-ordered-product-of-the-plain-gate-matrices", desc,
                     "E(g_n)...E(g_1) from plain numpy matrices", "differs (max dev %.3g)" % (float(np.abs(M - R).max()) if M.shape == R.shape else -1))
        oo = desc.get("order")
        if oo is not None and oo != order:
            if not same(dense(circ.as_matrix(mkseq([F[i] for i in oo]))), product(oo, 0, len(specs))):
                ctx.fail("as_matrix:structured-gates:not-the-ordered-product-of-the-plain-gate-matrices:other-field-order", desc,
                         "E(g_n)...E(g_1) from plain numpy matrices", "differs")
            if not same(dense(circ.as_matrix(fl)), M):
                ctx.fail("as_matrix:structured-gates:repeated-query-differs", desc, "the matrix of the first query", "differs")
    except Exception as e:
        ctx.fail("as_matrix:structured-gates:crash:" + type(e).__name__, desc, "matrix", repr(e)[:200])
    # (b),(c) statevector simulator
    try:
        psi = np.asarray(qib.simulator.StatevectorSimulator().run(circ), dtype=complex).reshape(-1)
        if not same(psi, R[:, 0]):
            ctx.fail("statevector:structured-gates:not-first-column-of-the-ordered-product", desc,
                     "column 0 of E(g_n)...E(g_1) from plain numpy matrices", "differs")
        elif abs(np.vdot(psi, psi) - 1) > 1e-10:
            ctx.fail("statevector:structured-gates:not-unit-norm", desc, 1, float(abs(np.vdot(psi, psi))))
    except Exception as e:
        ctx.fail("statevector:structured-gates:crash:" + type(e).__name__, desc, "state", repr(e)[:200])
    # (d),(e) tensor network and its simulator
    # contract_einsum needs one einsum letter per bond (numpy: 52; beyond: the known finding of C07, not a subject here).
    # Bonds of a circuit network: one per wire, one per particle of every gate, one more per control (upper bound, tight)
    nbonds = nw + sum(len(spec_particles(s_)) + _ncontrols(s_) for s_ in specs)
    if nbonds > 50:
        ctx.count("structured_tensornet_skipped_more_than_50_bonds")
    if nw <= 6 and nbonds <= 50 and desc.get("tn", True):
        try:
            net = circ.as_tensornet()
            t, am = net.contract_einsum()
            T = np.asarray(to_full_tensor(t, am), dtype=complex)
            ctx.count("structured_tensornet_ran")
            if T.size != R.size or not np.allclose(T.reshape(R.shape), R, rtol=0, atol=1e-10):
                ctx.fail("as_tensornet:structured-gates:contraction-differs-from-the-ordered-product", desc,
                         "E(g_n)...E(g_1) from plain numpy matrices", "differs")
        except Exception as e:
            ctx.fail("as_tensornet:structured-gates:crash:" + type(e).__name__, desc, "network contracting to the product", repr(e)[:200])
        try:
            out = np.asarray(qib.simulator.TensorNetworkSimulator().run(circ), dtype=complex).reshape(-1)
            if out.shape != R[:, 0].shape or not np.allclose(out, R[:, 0], rtol=0, atol=1e-10):
                ctx.fail("tn_simulator:structured-gates:not-first-column-of-the-ordered-product", desc,
                         "column 0 of E(g_n)...E(g_1) from plain numpy matrices", "differs")
        except Exception as e:
            ctx.fail("tn_simulator:structured-gates:crash:" + type(e).__name__, desc, "state", repr(e)[:200])
    # composition: circuits made of circuits
    for k in desc.get("cuts", []):
        if not 0 < k < len(specs):
            continue
        try:
            head, tail = qib.Circuit(), qib.Circuit()
            for s_ in specs[:k]:
                head.append_gate(build_gate(s_, F))
            for s_ in specs[k:]:
                tail.append_gate(build_gate(s_, F))
            Hm, Tm = dense(head.as_matrix(fl)), dense(tail.as_matrix(fl))
            if not same(Hm, product(order, 0, k)) or not same(Tm, product(order, k, len(specs))):
                ctx.fail("as_matrix:structured-gates:not-the-ordered-product-of-the-plain-gate-matrices:part-of-the-program", desc,
                         "product of the gates before / after cut %d" % k, "differs")
            both = qib.Circuit()
            both.append_circuit(head)
            both.append_circuit(tail)
            Bm = dense(both.as_matrix(fl))
            if not same(Bm, R) or not same(Bm, Tm @ Hm, 1e-11):
                ctx.fail("append_circuit:structured-gates:matrix-is-not-tail-times-head", desc,
                         "as_matrix(tail) @ as_matrix(head) = ordered product (cut %d)" % k, "differs")
            pre = qib.Circuit()
            pre.append_circuit(tail)
            pre.prepend_circuit(head)
            if not same(dense(pre.as_matrix(fl)), R):
                ctx.fail("prepend_circuit:structured-gates:matrix-is-not-tail-times-head", desc,
                         "as_matrix(tail) @ as_matrix(head) = ordered product (cut %d)" % k, "differs")
            psi = np.asarray(qib.simulator.StatevectorSimulator().run(both), dtype=complex).reshape(-1)
            if not same(psi, R[:, 0]):
                ctx.fail("statevector:structured-gates:appended-circuits:not-first-column-of-the-ordered-product", desc,
                         "column 0 of the ordered product (cut %d)" % k, "differs")
        except Exception as e:
            ctx.fail("append_circuit:structured-gates:crash:" + type(e).__name__, desc, "composed circuit", repr(e)[:200])


def structured_sweep(ctx):
    """the round-3 class sweep: structured_programs + builtin_structured_programs on each register, circuits put
    together in every build mode in turn, cuts for the composition oracle"""
    rng = ctx.rng
    cfgs = [([3], {}), ([2, 2], {"lat": [0, 0], "intern": True})]
    if ctx.thorough:
        cfgs += [([4], {"intern": True}), ([2, 1, 2], {"seq": "tuple"}), ([2, 2, 2], {"lat": [0, 1, 0]})]
    n = 0
    for ci, (sizes, fm) in enumerate(cfgs):
        for gen, src in ((structured_programs, "general"), (builtin_structured_programs, "built-in")):
            for gi, (tag, pos, specs) in enumerate(gen(rng, sizes, ctx.thorough)):
                if ci >= (2 if ctx.thorough else 1) and gi % 2 == (gi // 10) % 2:
                    continue            # the first register (thorough: two) runs everything, the others every second program
                desc = {"kind": "structured", "sizes": sizes, "specs": specs, "class": tag, "position": pos,
                        "build": BUILD_MODES[n % len(BUILD_MODES)]}
                if fm:
                    desc["fmode"] = fm
                if len(specs) >= 2:
                    desc["cuts"] = sorted({1, len(specs) // 2, len(specs) - 1}) if ctx.thorough else [1 + (n // 3) % (len(specs) - 1)]
                used = fields_of_program(specs)
                if len(sizes) >= 2 and n % 2:
                    desc["order"] = list(reversed(range(len(sizes)))) if len(used) == len(sizes) else \
                        used[::-1] + [i for i in range(len(sizes)) if i not in used]
                if sum(sizes[i] for i in used) > 4 and not ctx.thorough and n % 2:
                    desc["tn"] = False
                n += 1
                oracle_structured(ctx, sizes, specs, desc)
                ctx.count("structured_program")
                ctx.count("structured_source_" + src)
                ctx.count("structured_class_" + tag.split(":")[0])
                ctx.count("structured_position_" + pos)
                ctx.count("structured_build_" + desc["build"])
                for s_ in specs:
                    if s_[0] == "Gen" and len(s_) > 3:
                        ctx.count("structured_general_gate_layout_" + s_[3])
                if len(specs) >= 2:
                    ctx.nontriv({"kind": "structured", "class": tag, "position": pos, "sizes": sizes, "n": len(specs)})


# ----------------------------------------------------------------------------- round 4: control instructions, special angles
import math as _math, io as _io, contextlib as _contextlib

CTRL_KINDS = ("Barrier", "Measure", "Delay")
R4_PREFIX = {"ctrl_program": "circuit-with-control-instructions", "special_angles": "special-angles"}
# StatevectorSimulator.run used to call as_circuit_matrix on EVERY element of circ.gates and raised AttributeError for a
# circuit holding a control instruction, while as_matrix / as_tensornet / the TN simulator skip control instructions: a
# circuit whose statevector simulation is not column 0 of its matrix.  Repaired in /repo (fix: statevector simulator
# skips control instructions); reported under this name if it ever returns
SV_ON_CTRL = "circuit-with-control-instructions:statevector:raises-AttributeError-on-the-instruction"
_TWO_PI = 2 * _math.pi
SPECIAL_ANGLES = sorted(set(float(x) for x in [0.0, _math.pi, -_math.pi] + [_TWO_PI * k for k in range(-3, 4)]
                            + [_math.pi * k for k in range(-6, 7)] + [2 * np.pi, -2 * np.pi, 4 * np.pi, -4 * np.pi, 6 * np.pi, -6 * np.pi]))
_XX = np.kron(np.array(_PLAIN_ONE["X"]), np.array(_PLAIN_ONE["X"]))
_YY = np.kron(np.array(_PLAIN_ONE["Y"]), np.array(_PLAIN_ONE["Y"]))
_ZZ = np.kron(np.array(_PLAIN_ONE["Z"]), np.array(_PLAIN_ONE["Z"]))


def is_ctrl(spec):
    return spec[0] in CTRL_KINDS


def element_particles(spec):
    if spec[0] in ("Barrier", "Measure"):
        return [tuple(p) for p in spec[1]]
    if spec[0] == "Delay":
        return [tuple(p) for p in spec[2]]
    return spec_particles(spec)


def element_fields(spec):
    """fields() of a circuit element, in the order the element lists them"""
    if is_ctrl(spec):
        return [p[0] for p in element_particles(spec)]
    return spec_particles_fields(spec)


def build_element(spec, F):
    import qib
    k = spec[0]
    if k == "Barrier":
        return qib.BarrierInstruction([qubit(F, p) for p in spec[1]])
    if k == "Measure":
        qs = [qubit(F, p) for p in spec[1]]
        return qib.MeasureInstruction(qs, list(spec[2])) if len(spec) > 2 and spec[2] is not None else qib.MeasureInstruction(qs)
    if k == "Delay":
        return qib.DelayInstruction(spec[1], [qubit(F, p) for p in spec[2]])
    return build_gate(spec, F)


def plain_matrix4(spec):
    """plain_matrix, and the two-qubit rotations / the rotation about an axis (also as targets of controlled gates)"""
    k = spec[0]
    if k in ("Rxx", "Ryy", "Rzz"):
        P = {"Rxx": _XX, "Ryy": _YY, "Rzz": _ZZ}[k]
        return _math.cos(spec[1] / 2.0) * np.identity(4, dtype=complex) - 1j * _math.sin(spec[1] / 2.0) * P
    if k == "Rot":
        v = np.array(spec[1], dtype=float)
        th = float(np.sqrt(np.sum(v * v)))
        if th == 0:
            return np.identity(2, dtype=complex)
        n = v / th
        S = n[0] * np.array(_PLAIN_ONE["X"]) + n[1] * np.array(_PLAIN_ONE["Y"]) + n[2] * np.array(_PLAIN_ONE["Z"])
        return _math.cos(th / 2.0) * np.identity(2, dtype=complex) - 1j * _math.sin(th / 2.0) * S
    if k == "Sx":
        return 0.5 * np.array([[1 + 1j, 1 - 1j], [1 - 1j, 1 + 1j]], dtype=complex)
    if k == "C":
        U = plain_matrix4(spec[3])
        d = U.shape[0]
        ic = 0
        for b in spec[1]:
            ic = 2 * ic + int(b)
        M = np.identity(d * 2 ** len(spec[1]), dtype=complex)
        M[ic * d:(ic + 1) * d, ic * d:(ic + 1) * d] = U
        return M
    return plain_matrix(spec)


def _spec_kinds(spec, out):
    out.add(spec[0])
    if spec[0] == "C":
        _spec_kinds(spec[3], out)
    if spec[0] == "Mux":
        for t in spec[2]:
            _spec_kinds(t, out)
    return out


def oracle_r4(ctx, sizes, specs, desc):
    """views of one circuit given as a list of elements (gate specs and control instructions ["Barrier", particles] /
    ["Measure", particles, clbits or None] / ["Delay", duration, particles]) against the ordered product of the PLAIN numpy
    matrices of its gates over circ.fields() (= fields in order of first appearance in ANY element): as_matrix,
    contracted as_tensornet, TensorNetworkSimulator, StatevectorSimulator, and the two simulators against each other.
    The library's notice about control instructions goes to a string"""
    with _contextlib.redirect_stdout(_io.StringIO()):
        with field_mode(desc.get("fmode")):
            return _oracle_r4(ctx, sizes, specs, desc)


def _oracle_r4(ctx, sizes, specs, desc):
    import qib
    from qib.tensor_network.tensor_network import to_full_tensor
    pre = R4_PREFIX[desc["kind"]]
    tol = 1e-9
    F = mk_fields(sizes)
    order = []
    for s_ in specs:
        for fi in element_fields(s_):
            if fi not in order:
                order.append(fi)
    nw = sum(sizes[i] for i in order)
    gate_specs = [s_ for s_ in specs if not is_ctrl(s_)]
    has_ctrl = len(gate_specs) != len(specs)
    R = np.identity(2 ** nw, dtype=complex)
    for s_ in gate_specs:
        R = ref_embed(nw, [wire_of(sizes, order, p) for p in spec_particles(s_)], plain_matrix4(s_)) @ R
    try:
        elems = [build_element(s_, F) for s_ in specs]
        build = desc.get("build", "append")
        if build == "ctor":
            circ = qib.Circuit(elems)
        else:
            circ = qib.Circuit()
            for e_ in (reversed(elems) if build == "prepend" else elems):
                (circ.prepend_gate if build == "prepend" else circ.append_gate)(e_)
    except Exception as e:
        ctx.fail(pre + ":building-the-circuit:crash:" + type(e).__name__, desc, "circuit", repr(e)[:200])
        return
    got = [fidx(F, f) for f in circ.fields()]
    if got != order:
        ctx.fail(pre + ":fields!=order-of-first-appearance-in-any-element", desc, order, got)
        return
    fl = [F[i] for i in order]
    # matrix
    M = None
    try:
        M = dense(circ.as_matrix(fl))
        if M.shape != R.shape or not np.allclose(M, R, rtol=0, atol=tol):
            ctx.fail(pre + ":matrix!=ordered-product-of-the-plain-gate-matrices", desc,
                     "E(g_n)...E(g_1) over circ.fields(), control instructions skipped", "differs")
            M = None
    except Exception as e:
        ctx.fail(pre + ":matrix:crash:" + type(e).__name__, desc, "matrix", repr(e)[:200])
    if M is None:
        M = R
    col0 = M[:, 0]
    # statevector simulator
    psi = None
    try:
        psi = np.asarray(qib.simulator.StatevectorSimulator().run(circ), dtype=complex).reshape(-1)
    except AttributeError as e:
        if has_ctrl and "as_circuit_matrix" in str(e):
            ctx.fail(SV_ON_CTRL, desc, "column 0 of the circuit matrix (control instructions skipped, as in as_matrix)", repr(e)[:200])
        else:
            ctx.fail(pre + ":statevector:crash:AttributeError", desc, "state", repr(e)[:200])
    except Exception as e:
        ctx.fail(pre + ":statevector:crash:" + type(e).__name__, desc, "state", repr(e)[:200])
    if psi is not None:
        ctx.count(desc["kind"] + "_statevector_ran")
        if psi.shape != col0.shape or not np.allclose(psi, col0, rtol=0, atol=tol):
            ctx.fail(pre + ":statevector!=first-column", desc, "column 0 of as_matrix(circ.fields()) = of the ordered product",
                     "differs (max dev %.3g)" % (float(np.abs(psi - col0).max()) if psi.shape == col0.shape else -1))
        elif abs(np.vdot(psi, psi) - 1) > tol:
            ctx.fail(pre + ":statevector:not-unit-norm", desc, 1, float(abs(np.vdot(psi, psi))))
    # tensor network, tensor network simulator (Rxx / Ryy / Rzz / iSWAP: their networks are the known finding SIG_WRAP)
    kinds = set()
    for s_ in gate_specs:
        _spec_kinds(s_, kinds)
    if kinds & {"Rxx", "Ryy", "Rzz", "iSwap", "Prep"} or not desc.get("tn", True):
        return
    try:
        net = circ.as_tensornet()
        t, am = net.contract_einsum()
        T = np.asarray(to_full_tensor(t, am), dtype=complex)
        ctx.count(desc["kind"] + "_tensornet_ran")
        if net.num_open_axes != 2 * nw or T.size != M.size:
            ctx.fail(pre + ":tensornet!=matrix", desc, "%d open axes (2 per wire of circ.fields())" % (2 * nw),
                     "%d open axes" % net.num_open_axes)
        elif not np.allclose(T.reshape(M.shape), M, rtol=0, atol=tol):
            ctx.fail(pre + ":tensornet!=matrix", desc, "as_matrix(circ.fields())", "differs")
    except Exception as e:
        ctx.fail(pre + ":tensornet:crash:" + type(e).__name__, desc, "network contracting to as_matrix(circ.fields())", repr(e)[:200])
    try:
        out = np.asarray(qib.simulator.TensorNetworkSimulator().run(circ), dtype=complex).reshape(-1)
        ctx.count(desc["kind"] + "_tn_simulator_ran")
        if out.shape != col0.shape or not np.allclose(out, col0, rtol=0, atol=tol):
            ctx.fail(pre + ":tn-simulator!=first-column", desc, "column 0 of as_matrix(circ.fields())",
                     "differs" if out.shape == col0.shape else "%d entries where %d expected" % (out.size, col0.size))
        elif abs(np.vdot(out, out) - 1) > tol:
            ctx.fail(pre + ":tn-simulator:not-unit-norm", desc, 1, float(abs(np.vdot(out, out))))
        if psi is not None and out.shape == psi.shape and not np.allclose(out, psi, rtol=0, atol=tol):
            ctx.fail(pre + ":statevector!=tn-simulator", desc, "the same state from both simulators", "differs")
    except Exception as e:
        ctx.fail(pre + ":tn-simulator:crash:" + type(e).__name__, desc, "state", repr(e)[:200])


def r4_gate(rng, allp, special):
    """one gate spec on particles out of allp.  special: rotation-like gates only, angles mostly out of SPECIAL_ANGLES"""
    def angle():
        if special and rng.random() < 0.8:
            return rng.choice(SPECIAL_ANGLES)
        return rng.randint(-16, 16) / 8.0

    def rot1(p):
        k = rng.choice(["Rx", "Ry", "Rz", "Rx", "Ry", "Rz", "Rot"]) if special else rng.choice(["Rx", "Ry", "Rz"])
        if k == "Rot":
            a = angle()
            ax = rng.choice([[1.0, 0.0, 0.0], [0.0, 1.0, 0.0], [0.0, 0.0, 1.0], [0.6, 0.0, 0.8], [0.0, -1.0, 0.0]])
            return ["Rot", [a * x for x in ax], p]
        return [k, angle(), p]
    if special:
        kinds = ["R", "R", "C1R", "C1R", "C2R", "Rnn", "Rot"]
    else:
        kinds = ["one", "one", "R", "C1", "C1R", "C2", "Mux", "Rot"]
    need_of = {"C1": 2, "C1R": 2, "C2": 3, "C2R": 3, "Mux": 2, "Rnn": 2}
    while True:
        k = rng.choice(kinds)
        need = need_of.get(k, 1)
        if need > len(allp):
            continue
        ps = [list(p) for p in rng.sample(allp, need)]
        if k == "one":
            return [rng.choice(["X", "Y", "Z", "H", "H", "S", "T", "Sdg"]), ps[0]]
        if k in ("R", "Rot"):
            return rot1(ps[0])
        if k == "Rnn":
            return [rng.choice(["Rxx", "Ryy", "Rzz"]), angle(), ps[0], ps[1]]
        if k == "C1":
            return ["C", [rng.randint(0, 1)], [ps[0]], [rng.choice(["X", "Y", "Z", "H"]), ps[1]]]
        if k == "C1R":
            return ["C", [rng.randint(0, 1)], [ps[0]], rot1(ps[1])]
        if k == "C2":
            return ["C", [rng.randint(0, 1), rng.randint(0, 1)], [ps[0], ps[1]], [rng.choice(["X", "Z"]), ps[2]]]
        if k == "C2R":
            return ["C", [rng.randint(0, 1), rng.randint(0, 1)], [ps[0], ps[1]], rot1(ps[2])]
        if k == "Mux":
            return ["Mux", [ps[0]], [[rng.choice(["X", "Y"]), ps[1]], [rng.choice(["Z", "H"]), ps[1]]]]


R4_SIZES = [[1], [2], [3], [1, 1], [2, 1], [1, 2], [2, 2], [3, 1], [1, 3], [1, 1, 1], [2, 1, 1], [1, 2, 1], [1, 1, 2], [2, 1, 2], [3, 2]]


def rand_ctrl_program(rng, sizes):
    """1..4 gates on a subset of the fields, then 1..3 control instructions put first / in the middle / last, on a field
    no gate touches, on any particles, or on the particles of the gates; returns (elements, position tags)"""
    nf = len(sizes)
    gf = list(range(nf))
    if nf > 1 and rng.random() < 0.6:
        gf = sorted(rng.sample(gf, rng.randint(1, nf - 1)))
    gp = [(fi, i) for fi in gf for i in range(sizes[fi])]
    allp = [(fi, i) for fi in range(nf) for i in range(sizes[fi])]
    idle = [(fi, i) for fi in range(nf) if fi not in gf for i in range(sizes[fi])]
    elems = [r4_gate(rng, gp, False) for _ in range(rng.randint(1, 4))]
    tags = []
    for _ in range(rng.randint(1, 3)):
        where = rng.choice(["first", "middle", "last"])
        pos = {"first": 0, "last": len(elems)}.get(where, rng.randint(0, len(elems)))
        target = rng.choice(["idle", "idle", "any", "gates", "later"]) if idle else rng.choice(["any", "gates", "later"])
        # "later": particles of fields that the elements from this position on touch, but not as the first field (the
        # instruction, not a gate, is then the first element on that field whenever nothing before it touches it)
        seen = [fi for e_ in elems[:pos] for fi in element_fields(e_)]
        rest = [fi for e_ in elems[pos:] for fi in element_fields(e_) if fi not in seen]
        later = [(fi, i) for fi in sorted(set(rest[1:]) - set(rest[:1])) for i in range(sizes[fi])]
        if target == "later" and not later:
            target = "any"
        pool = {"idle": idle, "any": allp, "gates": gp, "later": later}[target]
        ps = [list(p) for p in rng.sample(pool, rng.randint(1, min(3, len(pool))))]
        k = rng.choice(["Barrier", "Barrier", "Measure", "Measure", "Delay", "BarrierAll"])
        if k == "Barrier":
            el = ["Barrier", ps]
        elif k == "BarrierAll":
            el = ["Barrier", []]
        elif k == "Measure":
            el = ["Measure", ps, rng.choice([None, rng.sample(range(8), len(ps))])]
        else:
            el = ["Delay", rng.choice([1, 16, 100]), ps]
        elems.insert(pos, el)
        tags.append(where + ":" + (target if el[1] != [] else "no-particle"))
    gate_o = []
    for e_ in elems:
        if not is_ctrl(e_):
            gate_o += [fi for fi in element_fields(e_) if fi not in gate_o]
    if len(gate_o) >= 2 and rng.random() < 0.5:
        # an instruction ahead of everything on the field the gates reach LAST: same set of fields, other order
        fi = gate_o[-1]
        ps = [[fi, i] for i in rng.sample(range(sizes[fi]), rng.randint(1, sizes[fi]))]
        elems.insert(0, rng.choice([["Barrier", ps], ["Measure", ps, None]]))
        tags.append("first:last-field-of-the-gates")
    return elems, tags


def ctrl_sweep(ctx):
    """round 4, class 1: circuits holding control instructions"""
    rng = ctx.rng
    H0, RY, CX = ["H", [0, 0]], ["Ry", 0.5, [0, 1]], ["C", [1], [[0, 0]], ["X", [1, 0]]]
    scripted = [
        ([2, 1], [["Barrier", [[1, 0]]], H0, RY, CX]),                                  # first toucher of field 1
        ([2, 1], [H0, ["C", [1], [[0, 0]], ["X", [0, 1]]], ["Measure", [[0, 0], [1, 0]], None]]),    # only toucher, last
        ([1, 1], [["X", [0, 0]], ["Barrier", [[1, 0]]]]),
        ([1, 1], [["Measure", [[1, 0]], [3]], ["H", [0, 0]]]),
        ([1, 1], [["H", [0, 0]], ["Delay", 16, [[1, 0]]], ["T", [0, 0]]]),
        ([2], [["Barrier", []], H0, ["Barrier", [[0, 1]]], RY, ["Measure", [[0, 1], [0, 0]], [0, 1]]]),
        ([1, 2, 1], [["H", [1, 1]], ["Barrier", [[2, 0], [0, 0]]], ["C", [0], [[1, 0]], ["Y", [1, 1]]]]),
        ([2, 1, 1], [["Measure", [[2, 0]], None], ["Barrier", [[1, 0]]], H0, ["C", [1], [[0, 0]], ["Ry", 0.75, [2, 0]]]]),
    ]
    progs = [(s_, e_, ["scripted"]) for s_, e_ in scripted]
    for _ in range(240 if ctx.thorough else 60):
        sizes = rng.choice(R4_SIZES)
        e_, tags = rand_ctrl_program(rng, sizes)
        progs.append((sizes, e_, tags))
    for n, (sizes, elems, tags) in enumerate(progs):
        desc = {"kind": "ctrl_program", "sizes": sizes, "specs": elems, "build": ("append", "ctor", "prepend")[n % 3]}
        oracle_r4(ctx, sizes, elems, desc)
        ctx.count("ctrl_program")
        ctx.count("ctrl_program_build_" + desc["build"])
        for t in tags:
            ctx.count("ctrl_program_instruction_" + t)
        for e_ in elems:
            if is_ctrl(e_):
                ctx.count("ctrl_program_" + e_[0])
        all_o, gate_o = [], []
        for e_ in elems:
            for fi in element_fields(e_):
                if fi not in all_o:
                    all_o.append(fi)
                if not is_ctrl(e_) and fi not in gate_o:
                    gate_o.append(fi)
        if set(all_o) != set(gate_o):
            ctx.count("ctrl_program_instruction_is_the_only_element_on_a_field")
        if [fi for fi in all_o if fi in gate_o] != gate_o:
            ctx.count("ctrl_program_instruction_is_the_first_element_on_a_field_of_a_later_gate")
        if all_o != gate_o:
            # what the sweep is after: the circuit's field list is not the field list of its gates
            ctx.nontriv({"kind": "ctrl_program", "sizes": sizes, "fields": all_o, "fields_of_gates": gate_o,
                         "elements": [e_[0] for e_ in elems]})


def rand_special_program(rng, sizes):
    """Hadamards (phases show), 1..4 rotation-like gates with angles out of SPECIAL_ANGLES (bare, as targets of gates with
    1..2 controls, two-qubit rotations, rotations about an axis) with the odd generic gate in between, Hadamards"""
    allp = [(fi, i) for fi in range(len(sizes)) for i in range(sizes[fi])]
    specs = [["H", list(p)] for p in allp if rng.random() < 0.8]
    for _ in range(rng.randint(1, 4)):
        specs.append(r4_gate(rng, allp, True))
        if rng.random() < 0.25:
            specs.append(rng.choice([["H", list(rng.choice(allp))], ["T", list(rng.choice(allp))], ["Ry", 0.375, list(rng.choice(allp))]]))
    specs += [["H", list(p)] for p in allp if rng.random() < 0.5]
    return specs


def _special_count(spec, under_control=False):
    """(number of rotation-like gates whose angle is a non-zero multiple of 2 pi, ... as target of a controlled gate)"""
    k = spec[0]
    if k == "C":
        return _special_count(spec[3], True)
    th = None
    if k in ("Rx", "Ry", "Rz", "Rxx", "Ryy", "Rzz"):
        th = spec[1]
    elif k == "Rot":
        th = float(np.sqrt(sum(x * x for x in spec[1])))
    if th is None or th == 0 or abs(_math.remainder(th, _TWO_PI)) > 1e-9:
        return (0, 0)
    odd = int(round(abs(th) / _TWO_PI)) % 2
    return (odd, odd if under_control else 0)


def special_sweep(ctx):
    """round 4, class 2: rotation gates at angles where a shortcut is tempting (multiples of pi / 2 pi, zero)"""
    rng = ctx.rng
    tp = _TWO_PI
    scripted = [
        ([2], [["H", [0, 0]], ["C", [1], [[0, 0]], ["Rz", tp, [0, 1]]], ["H", [0, 0]]]),      # = Z on the control: |0> -> |1>
        ([1], [["H", [0, 0]], ["Rx", tp, [0, 0]]]),
        ([1], [["Ry", 0.5, [0, 0]], ["Rz", -tp, [0, 0]], ["H", [0, 0]]]),
        ([2], [["H", [0, 1]], ["C", [0], [[0, 1]], ["Ry", -tp, [0, 0]]], ["H", [0, 1]]]),
        ([3], [["H", [0, 0]], ["H", [0, 2]], ["C", [1, 1], [[0, 0], [0, 2]], ["Rx", 3 * tp, [0, 1]]], ["H", [0, 0]], ["H", [0, 2]]]),
        ([1, 1], [["H", [1, 0]], ["C", [1], [[1, 0]], ["Rot", [0.0, 0.0, tp], [0, 0]]], ["H", [1, 0]]]),
        ([2], [["H", [0, 0]], ["H", [0, 1]], ["Rzz", tp, [0, 0], [0, 1]], ["Rxx", _math.pi, [0, 1], [0, 0]]]),
        ([2], [["H", [0, 0]], ["Rz", 0.0, [0, 0]], ["C", [1], [[0, 0]], ["Rx", 2 * tp, [0, 1]]], ["Rz", _math.pi, [0, 1]]]),
    ]
    progs = list(scripted)
    for _ in range(320 if ctx.thorough else 80):
        sizes = rng.choice(R4_SIZES[:9])
        progs.append((sizes, rand_special_program(rng, sizes)))
    for n, (sizes, specs) in enumerate(progs):
        desc = {"kind": "special_angles", "sizes": sizes, "specs": specs, "build": ("append", "ctor", "prepend")[n % 3]}
        oracle_r4(ctx, sizes, specs, desc)
        ctx.count("special_angles_program")
        odd = [_special_count(s_) for s_ in specs]
        n_odd, n_codd = sum(a for a, _ in odd), sum(b for _, b in odd)
        if n_odd:
            ctx.count("special_angles_program_with_rotation_by_an_odd_multiple_of_2pi")
        if n_codd:
            ctx.count("special_angles_program_with_CONTROLLED_rotation_by_an_odd_multiple_of_2pi")
        kinds = set()
        for s_ in specs:
            _spec_kinds(s_, kinds)
        for k_ in sorted(kinds & {"Rx", "Ry", "Rz", "Rxx", "Ryy", "Rzz", "Rot", "C"}):
            ctx.count("special_angles_gate_" + k_)
        if n_odd:
            ctx.nontriv({"kind": "special_angles", "sizes": sizes, "gates": [s_[0] + (":" + s_[3][0] if s_[0] == "C" else "") for s_ in specs],
                         "odd_multiples_of_2pi": n_odd, "of_them_controlled": n_codd})


# ----------------------------------------------------------------------------- the check
def run(ctx):
    import qib
    import embed as gen_embed
    ctx.trusted.append(
        "C05: circuits are modelled on the value level as lists of (gate matrix, wires); the four builder calls, the "
        "as_matrix loop, the Circuit constructor and the statevector loop are matched statement by statement by gen/embed.py "
        "(fail closed) against the shapes modelled in Qib.Embed.CircModel; every Gate.__copy__ is read for how it passes "
        "tgate/tgates (deep / shallow) -> gen_copy_deep. Python aliasing is modelled by identity-labelled trees "
        "(Qib.Embed.HeapModel): non-gate attributes are values (lists are re-created by the constructors/setters - validated by "
        "in-place list mutations in the histories), object graphs are acyclic; Circuit([...]) keeps the caller's objects "
        "(gen_ctor_copies, known finding) - such circuits are flagged 'not by value' in the model's ghost and the theorem is about "
        "all other circuits. scipy sparse @ = matrix product (modelled). "
        "The checker evaluates circuit matrices with re-materialisation after every gate; CheckProofs.cm_dense_correct proves "
        "that evaluation equal to the model's cmat. Tensor-network view and TN simulator: NOT modelled here, oracle/correspondence only.")
    ctx.trusted.append(
        "C05 histories with observations: the code recomputes every view from the current gate list (translator: as_matrix is the "
        "five-statement loop, the builders are single list operations; no attribute is assigned elsewhere) = the recomputing "
        "semantics `trace` of Qib.Embed.ObsModel; the harness re-queries the implementation after every event and compares with a "
        "reference built from VALUE trees (fresh gate objects on fresh fields, einsum embedding)")
    ctx.assumes.append("control instructions are skipped by as_matrix/as_tensornet and are not part of the modelled gate list; "
                       "in-place mutation of numpy arrays / operators / qubit objects held by a gate is outside the modelled mutation "
                       "alphabet (the arrays GeneralGate.mat / RotationGate.ntheta ARE shared by copy(): oracle + known finding "
                       "by-value:array-attribute-shared-with-circuit-copy); mutation through circuit.gates[i] (attribute assignment / "
                       "mutators on the gate or a target reached from it) IS in the alphabet, replacing list elements of circuit.gates "
                       "is not; c.append_circuit(c) does not terminate and is excluded; RotationGate / PrepareGate do not occur in "
                       "histories (programs only)")
    ctx.rules.append("random programs (I,X,Y,Z,S,Sdg,H,T,Tdg,Sx,Rx/y/z,Rotation,Rxx/yy/zz,iSwap,Phase,Prepare,General, controlled incl. negated and nested "
                     "controls, multiplexed; shared control wires; idle wires; 1-3 fields; length<=10) through as_matrix (two field "
                     "orders), StatevectorSimulator, as_tensornet().contract_einsum(), TensorNetworkSimulator; builder-call "
                     "histories over 1-4 circuits (empty or list-constructed from caller objects) with mutations of caller objects and "
                     "through circuit.gates[i] after every kind of add. After EVERY builder call, list construction and mutation ALL "
                     "views of ALL circuits are re-queried (as_matrix under every field order, the first query repeating the order "
                     "used last on that circuit; statevector; tensor network and its simulator) and compared with the by-value "
                     "reference; matrices handed out earlier must keep their entries; every third round the caller overwrites the "
                     "matrix it got back. scripted histories: every mutation of the "
                     "alphabet on every object reachable from the added gate, after append and prepend, directly and after the gate "
                     "travelled through a second circuit; circuits built from other circuits (made by builder calls / by the list "
                     "constructor) then mutated through the caller's handle or through other.gates[i], the block added again; every "
                     "ordered pair of builder calls. DIMENSIONS OF AN INPUT every generator varies: gates that differ in exactly ONE "
                     "coordinate inside one circuit (51-55 families per register: order of the particles on the same SET - control/target "
                     "swapped, two controls permuted, nested controls, the same sparse or dense matrix on every ordering of 2 / 3 wires, "
                     "iSWAP / Rxx / Ryy / Rzz / phase / multiplexer / prepare with exchanged arguments -, one particle, the field of a "
                     "particle (same site of another register), a parameter (also nearly equal ones: 2^-28 apart), the control state, "
                     "the class, the class of the target, the matrix, the memory layout of the matrix, identical gates), each family "
                     "behind three kinds of input state, through all four views; how the circuit is put together (append / prepend / "
                     "list constructor / append_circuit+prepend_circuit; equal gates as ONE object listed twice or as distinct objects); "
                     "simulator INSTANCES and field objects shared by eight consecutive programs; as_matrix with a field listed twice and "
                     "re-queried with the first list; field modes as in C04 (fields sharing a lattice object, interned qubits, lattice "
                     "flavours, parameter types) for programs and histories; GeneralGate matrices in every memory layout / dtype, sparse "
                     "and dense; registers of 7..8 wires (dense) and 9..12 wires (numpy-only state reference: statevector, as_matrix "
                     "applied to two vectors, tensor-network simulator). non-trivial = program with >=2 gates "
                     "sharing a wire or an idle wire, or builder program composing >=2 gates, or history with a mutation after a "
                     "builder call")
    ctx.lib(["Embed/CircCheck", "Embed/CircProofs", "Embed/CircCtrl", "Embed/HeapProofs", "Embed/CheckProofs", "Embed/HeapObs", "Embed/IdentProofs"])
    ok = ctx.translate("GenCirc", gen_embed.generate_circ)
    if ok:
        ctx.props()
    else:
        ctx.oblige("props:C05", "theorem", False, "not compiled: translator failed")

    rng = ctx.rng
    cases = []

    sampled = {}

    def add(term, desc, nontrivial=True):
        cases.append((term, desc))
        if nontrivial:
            ctx.nontriv(desc)
            k = (desc.get("kind"), desc.get("view"))
            if sampled.get(k, 0) < 3:
                sampled[k] = sampled.get(k, 0) + 1
                ctx.sample(desc, cap=16)


    UNMODELLED = ()

    def hist_case(res, sizes, events, nontrivial=True):
        model, cvals, hvals = res
        if any(m.startswith(UNMODELLED) for m in model) if UNMODELLED else False:
            ctx.count("history_outside_model_alphabet")
            return
        add("CHist %s %s %s" % (ct.lst(["(%s)" % m for m in model]),
                                ct.lst([ct.lst([gval_term(v) for v in c]) for c in cvals]),
                                ct.lst([gval_term(v) for v in hvals])),
            {"kind": "history", "sizes": sizes, "events": events}, nontrivial)

    def program_cases(sizes, specs, res):
        M, psi, order = res
        nw = sum(sizes[i] for i in order)
        wires = [w for s in specs for w in [wire_of(sizes, order, p) for p in spec_particles(s)]]
        nt = len(specs) >= 2 and (len(set(wires)) < len(wires) or len(set(wires)) < nw)
        if prog_exact(sizes, specs) and nw <= (5 if ctx.thorough else 4):
            F = mk_fields(sizes)
            gs = ct.lst([gate_z_term(sizes, order, s, F) for s in specs])
            short = {"kind": "program", "sizes": sizes, "order": order, "gates": [s[0] for s in specs]}
            add("CCirc %s %s %s" % (ct.nat(nw), gs, ct.zimat(M)), dict(short, view="as_matrix"), nt)
            if psi is not None:
                add("CSv %s %s %s" % (ct.nat(nw), gs, ct.lst([ct.zi(x) for x in psi])), dict(short, view="statevector"), nt)

    # ------------------------------------------------------------ fixed inputs of the known defects
    fixed = [
        ([5], [["Rzz", 0.375, (0, 0), (0, 3)]]),
        ([5], [["Rxx", 0.5, (0, 1), (0, 2)], ["H", (0, 0)]]),
        ([4], [["iSwap", (0, 0), (0, 3)]]),
        ([5], [["H", (0, 0)], ["H", (0, 1)]]),
        ([4], [["C", [1], [(0, 2)], ["X", (0, 3)]]]),
        ([2, 3], [["H", (0, 1)], ["C", [0], [(0, 1)], ["X", (1, 2)]]]),
        ([3], [["X", (0, 2)], ["Prep", [0.5, 0.25, -0.125, 0.125], [(0, 2), (0, 0)]]]),
        ([2], [["Rot", [0.5, 0.25, 0.125], (0, 0)], ["Rot", [0.5, 0.25, 0.125 + 2.0 ** -28], (0, 1)]]),
    ]
    for sizes, specs in fixed:
        specs = jsonable(specs)
        oracle_program(ctx, sizes, specs, {"kind": "program", "sizes": sizes, "specs": specs})
        ctx.count("program_fixed")

    # ------------------------------------------------------------ gates that differ in ONE coordinate, in one circuit
    # (all four views; circuits put together in every way; simulator instances shared by eight programs)
    fam_cfgs = [([3], {}), ([2, 2], {"lat": [0, 0], "intern": True})]
    if ctx.thorough:
        fam_cfgs += [([4], {"intern": True}), ([2, 2], {}), ([1, 3], {"num": "np64"}), ([2, 2, 2], {"lat": [0, 1, 0]})]
    nfam = 0
    for sizes, fm in fam_cfgs:
        for fam in sibling_families(rng, sizes):
            for specs in sibling_programs(rng, sizes, fam):
                specs = jsonable(specs)
                desc = {"kind": "program", "sizes": sizes, "specs": specs, "family": fam[0]}
                if fm:
                    desc["fmode"] = fm
                desc["build"] = rng.choice(BUILD_MODES)
                if nfam % 8 == 0:
                    sims = Sims()
                nfam += 1
                res = oracle_program(ctx, sizes, specs, desc, sims=sims)
                ctx.count("program_sibling_family")
                ctx.count("program_siblings_" + fam[0].split(":")[0])
                ctx.count("program_build_" + desc["build"])
                ctx.nontriv({"kind": "program-siblings", "family": fam[0], "sizes": sizes, "n": len(specs)})
                if res is not None:
                    with field_mode(fm):
                        program_cases(sizes, specs, res)

    # ------------------------------------------------------------ random programs, all views
    size_sets = [[2], [3], [4], [5], [2, 2], [1, 3], [3, 1], [2, 3], [1, 2, 2], [2, 1, 2], [1, 1, 1]]
    nprog = 400 if ctx.thorough else 120
    sims = Sims()
    for t in range(nprog):
        sizes = rng.choice(size_sets)
        exact = rng.random() < 0.5
        fm = rand_fmode(rng, sizes) if rng.random() < 0.5 else {}
        with field_mode(fm):
            specs = rand_program(rng, sizes, exact, 10 if rng.random() < 0.7 else 4)
        # make sure every field is used at least sometimes not: idle fields are allowed (as_matrix order may list them)
        desc = {"kind": "program", "sizes": sizes, "specs": specs}
        if fm:
            desc["fmode"] = fm
            for k_ in fm:
                ctx.count("program_fmode_" + k_)
        if rng.random() < 0.5:
            desc["build"] = rng.choice(BUILD_MODES)
        ctx.count("program_build_" + desc.get("build", "append"))
        used = fields_of_program(specs)
        oo = list(range(len(sizes)))
        rng.shuffle(oo)
        if len(sizes) >= 2 and rng.random() < 0.3:
            # a field list naming one field twice (all fields the circuit uses are listed)
            oo = rng.choice([o for o in orders_with_repeats(len(sizes)) if set(o) == set(range(len(sizes)))]
                            if sum(sizes) <= 4 else [oo])
            if len(set(oo)) < len(oo):
                ctx.count("program_as_matrix_field_listed_twice")
        if t % 8 == 0:
            sims = Sims()               # simulator instances live for eight programs
        res = oracle_program(ctx, sizes, specs, desc, other_order=oo, sims=sims)
        ctx.count("program_len=%d" % len(specs))
        ctx.count("program_fields=%d" % len(sizes))
        for s in specs:
            ctx.count("gate_" + s[0])
        if res is None:
            continue
        program_cases(sizes, specs, res)

    # ------------------------------------------------------------ registers of 7..12 wires
    big_sets = [[7], [8], [3, 5], [4, 4]]
    for t in range(24 if ctx.thorough else 8):
        sizes = rng.choice(big_sets)
        fm = rand_fmode(rng, sizes) if rng.random() < 0.5 else {}
        with field_mode(fm):
            specs = rand_program(rng, sizes, rng.random() < 0.5, 6)
        desc = {"kind": "program", "sizes": sizes, "specs": specs}
        if fm:
            desc["fmode"] = fm
        ctx.count("program_wires=%d" % sum(sizes))
        oracle_program(ctx, sizes, specs, desc)
    huge_sets = [[9], [10], [12], [5, 6], [4, 4, 4], [3, 7, 1], [11], [2, 8]]
    for t in range(30 if ctx.thorough else 10):
        sizes = rng.choice(huge_sets)
        fm = rand_fmode(rng, sizes) if rng.random() < 0.5 else {}
        with field_mode(fm):
            specs = rand_program(rng, sizes, rng.random() < 0.5, 6)
            if rng.random() < 0.5:
                fam = rng.choice(sibling_families(rng, sizes))
                specs = [["Ry", (3 + 2 * i) / 8.0, p] for i, p in enumerate(spec_particles(fam[1][0]))] + jcopy(fam[1]) + specs[:3]
        specs = jsonable(specs)
        desc = {"kind": "program_large", "sizes": sizes, "specs": specs}
        if fm:
            desc["fmode"] = fm
        if rng.random() < 0.5:
            desc["build"] = rng.choice(BUILD_MODES)
        ctx.count("program_large")
        ctx.count("program_wires=%d" % sum(sizes[i] for i in fields_of_program(specs)))
        ctx.nontriv({"kind": "program_large", "sizes": sizes, "gates": [s_[0] for s_ in specs]})
        oracle_program_large(ctx, sizes, specs, desc)

    # ------------------------------------------------------------ builder programs on the value level
    for t in range(150 if ctx.thorough else 40):
        sizes = rng.choice([[2], [3], [2, 2], [1, 2], [4]])
        ops = []
        for _ in range(rng.randint(1, 6)):
            k = rng.choice(["ag", "pg", "ac", "pc"])
            if k in ("ag", "pg"):
                ops.append([k, rand_spec(rng, sizes, True)])
            else:
                ops.append([k, [rand_spec(rng, sizes, True) for _ in range(rng.randint(0, 3))]])
        ops = jsonable(ops)
        desc = {"kind": "builders", "sizes": sizes, "ops": ops}
        ctx.count("builder_program")
        res = oracle_builders(ctx, sizes, ops, desc)
        if res is None:
            continue
        M, ref = res
        F = mk_fields(sizes)
        order = list(range(len(sizes)))
        terms = []
        for k, a in ops:
            if k in ("ag", "pg"):
                terms.append("(%s %s)" % ("OAppendGate" if k == "ag" else "OPrependGate", gate_z_term(sizes, order, a, F)))
            else:
                terms.append("(%s %s)" % ("OAppendCircuit" if k == "ac" else "OPrependCircuit",
                                          ct.lst([gate_z_term(sizes, order, s_, F) for s_ in a])))
        add("CBuild %s %s %s" % (ct.nat(sum(sizes)), ct.lst(terms), ct.zimat(M)),
            {"kind": "builders", "sizes": sizes, "ops": [[k, (a[0] if k in ("ag", "pg") else [x[0] for x in a])] for k, a in ops]},
            len(ref) >= 2)

    # scripted histories: mutate right after each kind of add, on the object and on its targets
    scripted = []
    for add_op in ("append_gate", "prepend_gate"):
        for mk in ("C", "Mux", "CC", "MuxC"):
            ev = [["circ"], ["new", ["X", [0, 1]]], ["new", ["Z", [0, 1]]]]
            if mk == "C":
                ev += [["newC", [1], [[0, 0]], 0]]
                top, paths = 2, [[], [0]]
            elif mk == "Mux":
                ev += [["newMux", [[0, 0]], [0, 1]]]
                top, paths = 2, [[], [0], [1]]
            elif mk == "CC":
                ev += [["newC", [1], [[0, 0]], 0], ["newC", [0], [[0, 2]], 2]]
                top, paths = 3, [[], [0], [0, 0]]
            else:
                ev += [["newC", [1], [[0, 2]], 0], ["newC", [1], [[0, 2]], 1], ["newMux", [[0, 0]], [2, 3]]]
                top, paths = 4, [[], [0], [1, 0]]
            ev += [[add_op, 0, top]]
            for pth in paths:
                scripted.append(ev + [["mut", top, len(pth)]])
            # mutate the caller's target objects directly (handles 0/1), then via another circuit
            scripted.append(ev + [["mutR", 0, [], ["on1", [0, 2]]], ["mutR", 1, [], ["attr_qubit", [0, 2]]]])
            scripted.append(ev + [["circ"], ["append_circuit", 1, 0], ["mutR", 0, [], ["on1", [0, 2]]],
                                  ["prepend_circuit", 0, 1], ["mutR", 1, [], ["on1", [0, 2]]]])
    # every mutation of the alphabet (attribute assignment, public mutator, in-place write into a list-valued
    # attribute), each on its own, on every object reachable from the added gate, after each kind of add; qubit
    # (0,3) is free in all of them, so every mutation changes the value of the caller's object
    free = [0, 3]
    MUT_C = lambda st: [["ctrl_state", [1 - b for b in st]], ["ctrl_state_inplace", 0],
                        ["control_qubits_inplace", 0, free], ["set_control", [free]]]
    MUT_MUX = [["control_qubits_inplace", 0, free], ["set_control", [free]]]
    MUT_ONE = [["on1", free], ["attr_qubit", free]]
    gen2 = mat_spec(np.array([[0, 1j, 0, 0], [0, 0, 0, 1], [-1, 0, 0, 0], [0, 0, -1j, 0]]))
    leaves = [(["X", [0, 1]], MUT_ONE),
              (["Rz", 0.5, [0, 1]], MUT_ONE + [["theta", -0.75]]),
              (["Rzz", 0.5, [0, 1], [0, 2]], [["theta", -0.75], ["q1", free]]),
              (["iSwap", [0, 1], [0, 2]], [["on2", [0, 2], [0, 1]], ["on2", [0, 1], free]]),
              (["Phase", 0.25, [[0, 1], [0, 2]]], [["phi", -0.5], ["onlist", [[0, 2], free]], ["prtcl_inplace", 1, free]]),
              (["Gen", gen2, [[0, 1], [0, 2]]], [["onlist", [[0, 2], [0, 1]]], ["prtcl_inplace", 0, free]])]
    scripted4 = []
    for add_op in ("append_gate", "prepend_gate"):
        for leaf, lmuts in leaves:
            base = [["circ"], ["new", ["Y", [0, 0]]], [add_op, 0, 0], ["new", leaf]]
            # the leaf itself, and as the target of a controlled gate (control qubit (0,0))
            for mt in lmuts:
                scripted4.append(base + [[add_op, 0, 1], ["mutR", 1, [], mt]])
                scripted4.append(base + [["newC", [1], [[0, 0]], 1], [add_op, 0, 2], ["mutR", 2, [0], mt]])
                scripted4.append(base + [["newC", [1], [[0, 0]], 1], [add_op, 0, 2], ["mutR", 1, [], mt]])
        pre = [["circ"], ["new", ["X", [0, 1]]], ["new", ["Z", [0, 1]]]]
        shapes = [
            (pre + [["newC", [1], [[0, 0]], 0]], 2, [([], MUT_C([1])), ([0], MUT_ONE)]),
            (pre + [["newMux", [[0, 0]], [0, 1]]], 2, [([], MUT_MUX), ([0], MUT_ONE), ([1], MUT_ONE)]),
            (pre + [["newC", [1], [[0, 0]], 0], ["newC", [0], [[0, 2]], 2]], 3,
             [([], MUT_C([0])), ([0], MUT_C([1])), ([0, 0], MUT_ONE)]),
            (pre + [["newC", [1], [[0, 2]], 0], ["newC", [1], [[0, 2]], 1], ["newMux", [[0, 0]], [2, 3]]], 4,
             [([], MUT_MUX), ([0], MUT_C([1])), ([1], MUT_C([1])), ([1, 0], MUT_ONE)]),
        ]
        for ev, top, per_path in shapes:
            for pth, muts in per_path:
                for mt in muts:
                    scripted4.append(ev + [[add_op, 0, top], ["mutR", top, pth, mt]])
                    # the same after the gate travelled through a second circuit
                    scripted4.append(ev + [[add_op, 0, top], ["circ"], ["append_circuit", 1, 0], ["prepend_circuit", 0, 1],
                                           ["mutR", top, pth, mt]])

    # circuits built FROM other circuits: `other` made by builder calls or by the list constructor, handed to
    # append_circuit / prepend_circuit, then mutated through the caller's handle or through other.gates[i] (on the gate or
    # on a target reached from it); the same block added a second time afterwards gives a different layer.  The receiving
    # circuit (0) must hold values; only a list-constructed `other` may follow the caller's object (known finding)
    scripted5 = []
    shapes5 = [
        ([["new", ["X", [0, 1]]]], 0, [([], ["on1", free]), ([], ["attr_qubit", free])]),
        ([["new", ["Rz", 0.5, [0, 1]]]], 0, [([], ["theta", -0.75]), ([], ["on1", free])]),
        ([["new", ["X", [0, 1]]], ["newC", [1], [[0, 0]], 0]], 1,
         [([], ["set_control", [free]]), ([], ["ctrl_state", [0]]), ([0], ["on1", free])]),
        ([["new", ["X", [0, 1]]], ["new", ["Z", [0, 1]]], ["newMux", [[0, 0]], [0, 1]]], 2,
         [([], ["set_control", [free]]), ([0], ["on1", [0, 2]])]),
    ]
    for op in ("append_circuit", "prepend_circuit"):
        for mk_, top, muts in shapes5:
            nh_ = len(mk_)
            for pth, mt in muts:
                head = [["circ"]] + mk_ + [["new", ["Y", [0, 0]]], ["append_gate", 0, nh_]]
                via_builder = head + [["circ"], ["append_gate", 1, top]]
                via_ctor = head + [["circL", [top]]]
                for other in (via_builder, via_ctor):
                    scripted5.append(other + [[op, 0, 1], ["mutR", top, pth, mt], [op, 0, 1]])
                    scripted5.append(other + [[op, 0, 1], ["mutGR", 1, 0, pth, mt], [op, 0, 1]])
                    scripted5.append(other + [["prepend_gate", 1, nh_], [op, 0, 1], ["mutGR", 0, 0 if op == "prepend_circuit" else 1, [], ["on1", [0, 2]]],
                                              ["mutGR", 1, 1, pth, mt]])
    # every ordered pair of builder calls on one circuit (views are queried after each: a view cached by one call and
    # not reset by another shows up), then the pair once more
    for op1 in BUILDER_OPS:
        for op2 in BUILDER_OPS:
            arg = lambda op: 1 if op.endswith("circuit") else 0
            scripted5.append([["circ"], ["new", ["X", [0, 1]]], ["new", ["S", [0, 2]]], ["append_gate", 0, 1], ["circ"],
                              ["append_gate", 1, 0], ["newC", [1], [[0, 3]], 1], ["prepend_gate", 1, 2],
                              [op1, 0, arg(op1)], [op2, 0, arg(op2)], ["mutR", 0, [], ["on1", free]], [op1, 0, arg(op1)],
                              [op2, 0, arg(op2)]])
    for n_, evs in enumerate(scripted5):
        sizes = [4]
        evs = jsonable(evs)
        desc = {"kind": "history", "sizes": sizes, "events": evs}
        if n_ % 2:
            desc["fmode"] = {"intern": True}          # one Qubit object per site, shared by all gates of the history
        res = run_history(ctx, rng, sizes, evs, desc)
        ctx.count("history_scripted_circuits_from_circuits")
        if res is None:
            continue
        hist_case(res, sizes, desc["events"])

    for n_, evs in enumerate(scripted4):
        sizes = [4]
        evs = jsonable(evs)
        desc = {"kind": "history", "sizes": sizes, "events": evs}
        if n_ % 2:
            desc["fmode"] = {"intern": True}
        res = run_history(ctx, rng, sizes, evs, desc)
        ctx.count("history_scripted_each_mutation")
        for e in evs:
            if e[0] == "mutR":
                ctx.count("scripted_mutation_" + e[3][0])
        if res is None:
            continue
        hist_case(res, sizes, desc["events"])

    for evs in scripted:
        sizes = [3]
        desc = {"kind": "history", "sizes": sizes, "events": evs}
        res = run_history(ctx, rng, sizes, evs, desc)
        ctx.count("history_scripted")
        if res is None:
            continue
        hist_case(res, sizes, desc["events"])

    # ------------------------------------------------------------ histories with mutations
    nh = 500 if ctx.thorough else 160
    for t in range(nh):
        sizes = rng.choice([[3], [4], [2, 2], [1, 3], [2, 2]])
        want = rng.choice([None, "C", "Mux", "Mux"])
        evs = rand_history(rng, sizes, rng.randint(4, 12), want)
        desc = {"kind": "history", "sizes": sizes, "events": evs}
        fm = rand_fmode(rng, sizes) if rng.random() < 0.5 else {}
        if fm:
            desc["fmode"] = fm
            for k_ in fm:
                ctx.count("history_fmode_" + k_)
        res = run_history(ctx, rng, sizes, evs, desc)
        ctx.count("history")
        if res is None:
            continue
        model, cvals, hvals = res
        for e in desc["events"]:
            ctx.count("event_" + e[0])
        has_mut_after_add = False
        seen_add = False
        for e in desc["events"]:
            if e[0] in BUILDER_OPS:
                seen_add = True
            if e[0] in ("mutR", "setkidR", "mutGR") and seen_add:
                has_mut_after_add = True
        hist_case(res, sizes, desc["events"], has_mut_after_add)
    oracle_ctor(ctx)
    oracle_array_alias(ctx)
    ctx.notes.append("observations outside the property text: c.append_circuit(c) never terminates; "
                     "copy() of a ControlledGate/PhaseFactorGate/GeneralGate without bound particles raises ValueError")
    header = HEADER
    if not ok:
        # the generated module does not exist: run the model with the copy rules read directly (or all deep)
        try:
            rules = gen_embed.copy_rules()
            shallow = [i for i, r in enumerate(rules) if r[1] and not r[2]]
        except Exception:
            shallow = []
        header = ("From Qib Require Import Embed.CircCheck.\nDefinition deep_rules (cls : nat) : bool :=\n  match cls with\n"
                  + "".join("  | %d%%nat => false\n" % i for i in shallow) + "  | _ => true\n  end.\n"
                  "Definition bad_cases := bad_cases_with false deep_rules.\n")
    dis = ctx.cases("circ", header, cases)
    for i, d in dis[:5]:
        ctx.log("model/impl disagree on", d)
    # clauses (d),(e): circuit tensor network / TN simulator theorems (coq/props/C05n.v) and their tie
    from checks import circnet_cases
    circnet_cases.run(ctx)
    # round 3: gates with structured matrices, all views against plain numpy references (last: the random streams of the
    # generators above are the ones they had before)
    ctx.rules.append("gates with STRUCTURED matrices (a view may take a special path for them): identity, non-symmetric permutations "
                     "(cyclic shifts, 3-cycles, random), signed / phased permutations (also all entries 1 but the first / last row, "
                     "permutation times i / -1), diagonal gates (+-1, i^k, 8th roots, one entry, -identity), sparse non-monomial "
                     "unitaries (block permutation (x) dense block, identity with one dense block, permutation times it) on 1..3 "
                     "wires in non-ascending order, as GeneralGate in int / int8 / float / complex / complex64 / list / Fortran "
                     "layouts, and through built-in gates (controlled-X under every control state and wire assignment, SWAP / cyclic "
                     "composites of CNOTs and Toffolis, controlled and multiplexed GeneralGates holding permutations, built-in "
                     "diagonal gates, random reversible and random monomial circuits); positions: only gate, first, last, middle, "
                     "between dense gates, twice in a row, next to another structured gate, inside a permutation circuit on a basis "
                     "state; every build mode in turn; views: as_matrix (two field orders, repeated query), statevector, tensor "
                     "network, TN simulator, and head/tail circuits joined by append_circuit / prepend_circuit at a cut (thorough: "
                     "three cuts, three wire orderings, five registers). Reference: plain numpy matrices from the definitions "
                     "(plain_matrix), einsum embedding - no library object is asked for a matrix")
    structured_sweep(ctx)
    # round 4 (last again, the streams above keep their random numbers)
    ctx.rules.append("circuits holding CONTROL INSTRUCTIONS (Barrier on particles / on nothing, Measure with and without classical bits, "
                     "Delay) among 1..4 ordinary gates, over 1..3 fields of 1..3 sites: instruction first / in the middle / last; on a "
                     "field no gate touches (the instruction is the only element on it), on a field before any gate touches it (it "
                     "fixes the field's place in circ.fields()), on the gates' own particles; built by append / constructor / prepend. "
                     "With fields = circ.fields(): as_matrix(fields) == ordered product of the plain numpy matrices of the GATES "
                     "(instructions skipped) over all those fields; as_tensornet() has two open axes per wire of those fields and "
                     "contracts to that matrix; TensorNetworkSimulator returns its column 0 with unit norm; StatevectorSimulator, "
                     "whenever it returns, returns column 0 (on /repo it raises AttributeError on the instruction: counted, see notes). "
                     "Non-trivial = the circuit's field list differs from the field list of its gates")
    ctrl_sweep(ctx)
    ctx.rules.append("rotation gates at SPECIAL ANGLES (0, +-pi, +-2pi, +-4pi, +-6pi, 2*math.pi*k for k=-3..3 exactly, math.pi*k for "
                     "k=-6..6; one in five generic): Rx / Ry / Rz / RotationGate about x, y, z, -y and a skew axis, bare and as target "
                     "of a ControlledGate with 1..2 controls in any control state, Rxx / Ryy / Rzz; between layers of Hadamards so "
                     "that a sign on one branch shows in column 0; 1..2 fields. StatevectorSimulator == column 0 of as_matrix == "
                     "column 0 of the ordered product of plain numpy matrices (cos/sin of the half angle) == TensorNetworkSimulator, "
                     "contracted as_tensornet == as_matrix (network views not for Rxx/Ryy/Rzz: known finding), atol 1e-9. "
                     "Non-trivial = a rotation by an odd multiple of 2 pi (= -identity) is present")
    special_sweep(ctx)


def replay(ctx, data):
    import random
    inp, sig = data["input"], data["sig"]
    before = len(ctx.failing)
    k = inp.get("kind")
    if k == "program":
        oracle_program(ctx, inp["sizes"], inp["specs"], inp, other_order=inp.get("order"))
    elif k == "program_seq":
        oracle_program_seq(ctx, inp["progs"])
    elif k == "program_large":
        oracle_program_large(ctx, inp["sizes"], inp["specs"], inp)
    elif k == "history":
        run_history(ctx, random.Random(0), inp["sizes"], inp["events"], dict(inp))
    elif k == "builders":
        oracle_builders(ctx, inp["sizes"], inp["ops"], inp)
    elif k == "structured":
        oracle_structured(ctx, inp["sizes"], inp["specs"], inp)
    elif k in R4_PREFIX:
        oracle_r4(ctx, inp["sizes"], inp["specs"], inp)
    elif k == "ctor":
        oracle_ctor(ctx)
    elif k == "array_alias":
        oracle_array_alias(ctx)
    # the listed known findings of /repo (e.g. the tensor network of a program containing an iSWAP) are not what a
    # replay of another signature is about
    known = set(ctx.known_sigs()) if hasattr(ctx, "known_sigs") else {SIG_WRAP, SIG_CTOR, SIG_ARRAY, SIG_PREP, SIG_ROTNAME}
    keep = [f for f in ctx.failing[before:] if f["sig"] == sig or f["sig"] not in known]
    del ctx.failing[before:]
    ctx.failing.extend(keep)
    if len(ctx.failing) > before and not any(f["sig"] == sig for f in ctx.failing):
        ctx.fail(sig, inp, data.get("expected"), "still fails (different symptom)")
