"""C04 - Embedding a gate into a register acts on exactly its wires."""
import itertools, sys, os, json
import numpy as np
from vlib import coqterm as ct

sys.path.insert(0, os.path.join(os.path.dirname(os.path.dirname(os.path.abspath(__file__))), "gen"))

HEADER = "From Qib Require Import Embed.EmbedCheck.\n"


# ----------------------------------------------------------------------------- helpers (shared with C05)
def dense(a):
    return np.asarray(a.toarray() if hasattr(a, "toarray") else a, dtype=complex)


def is_gauss_int(m):
    m = np.asarray(m, dtype=complex)
    return bool(np.all(m.real == np.round(m.real)) and np.all(m.imag == np.round(m.imag))
                and np.all(np.abs(m.real) < 2 ** 40) and np.all(np.abs(m.imag) < 2 ** 40))


def zlist(v):
    return ct.lst([ct.z(int(x)) for x in v])


def natlist(v):
    return ct.lst([ct.nat(int(x)) for x in v])


def zilist(v):
    return ct.lst([ct.zi(x) for x in v])


def pairs(v):
    return ct.lst([ct.pair(ct.z(a), ct.z(b)) for a, b in v])


def triples_term(t):
    return ct.lst([ct.pair(ct.z(r), ct.z(c), ct.zi(v)) for r, c, v in t])


# ----------------------------------------------------------------------------- object relations / parameter types
# A JSON-able MODE every generator varies (recorded as desc["fmode"], re-installed by replay).  It fixes the dimensions
# of an input that a spec (field sizes + (field index, site) pairs + numbers) does not say:
#   "lat":    per field a group label; fields with the same label AND size are built on ONE lattice object
#             (distinct Field objects sharing a lattice); default: every field has its own lattice object (fields of equal
#             size then have equal-but-distinct lattices)
#   "flavor": per field the kind of lattice ("int" 1-d open, "pbc", "2d", "full", "layer")
#   "intern": True = one Qubit object per (field, site), shared by everything built from these fields;
#             default: a fresh Qubit object at every mention (equal-but-distinct particles)
#   "num":    type of the scalar / vector parameters handed to the constructors ("np64", "np32", "int", "tuple")
#   "seq":    "tuple" = field lists and particle lists are handed over as tuples instead of lists
FMODE = {}
_INTERN = {}


class field_mode:
    def __init__(self, mode):
        self.mode = dict(mode or {})

    def __enter__(self):
        global FMODE
        self.noop = self.mode == FMODE         # nested use with the mode already installed
        if not self.noop:
            self.prev = FMODE
            FMODE = self.mode
            if not self.prev:
                _INTERN.clear()
        return self

    def __exit__(self, *a):
        global FMODE
        if not self.noop:
            FMODE = self.prev
            if not self.prev:
                _INTERN.clear()


def ref_mode():
    """the current mode, except that matrices handed to GeneralGate are plain C-ordered complex128 arrays: REFERENCE gates
    are built under it, so that the reference does not depend on the memory layout the gate under test was given"""
    return field_mode(dict(FMODE, ref=True))


_REF_MEMO = {}


def ref_gate_matrix(spec, sizes):
    """as_matrix() of a gate built AFRESH from the value `spec` (never the object under test); memoised per value, since
    the same gate is embedded under many field lists"""
    with ref_mode():
        key = json.dumps([spec, sizes, FMODE], sort_keys=True, default=str)
        if key not in _REF_MEMO:
            if len(_REF_MEMO) > 512:
                _REF_MEMO.clear()
            m = np.array(build_gate(spec, mk_fields(sizes)).as_matrix())
            m.setflags(write=False)
            _REF_MEMO[key] = m
        return _REF_MEMO[key]


def spec_tol(spec):
    """0 = compare exactly.  Gates whose matrix comes out of scipy's expm / sqrtm (time evolution, block encoding) are
    compared up to 1e-12 (entries are O(1); a misplaced wire changes entries by O(0.01..1))"""
    k = spec[0]
    if k in ("TEvo", "BEnc"):
        return 1e-12
    if k == "C":
        return spec_tol(spec[3])
    if k == "Mux":
        return max(spec_tol(t) for t in spec[2])
    return 0.0


def same(a, b, tol=0.0):
    a, b = np.asarray(a, dtype=complex), np.asarray(b, dtype=complex)
    if a.shape != b.shape:
        return False
    if tol == 0.0:
        return bool(np.array_equal(a, b))
    return bool(a.size == 0 or np.max(np.abs(a - b)) <= tol)


def make_lattice(n, flavor):
    import qib
    L = qib.lattice
    if flavor == "pbc":
        return L.IntegerLattice((n,), pbc=True)
    if flavor == "2d" and n >= 4 and n % 2 == 0:
        return L.IntegerLattice((2, n // 2))
    if flavor == "full":
        return L.FullyConnectedLattice(n)
    if flavor == "layer" and n % 2 == 0:
        return L.LayeredLattice(L.IntegerLattice((n // 2,)), 2)
    return L.IntegerLattice((n,))


def mk_fields(sizes):
    import qib
    lat, flavor = FMODE.get("lat"), FMODE.get("flavor")
    lattices, out = {}, []
    for i, n in enumerate(sizes):
        key = (lat[i] if lat and i < len(lat) else ("own", i), n)
        if key not in lattices:
            lattices[key] = make_lattice(n, flavor[i] if flavor and i < len(flavor) else None)
            assert lattices[key].nsites == n
        out.append(qib.field.Field(qib.field.ParticleType.QUBIT, lattices[key]))
    return out


def fidx(F, f):
    """position of the field OBJECT f in F (identity, never ==)"""
    for i, x in enumerate(F):
        if x is f:
            return i
    return -1


def qubit(F, p):
    import qib
    if FMODE.get("intern"):
        key = (id(F[p[0]]), p[1])
        if key not in _INTERN:
            _INTERN[key] = (F[p[0]], qib.field.Qubit(F[p[0]], p[1]))     # the field is kept alive with its id
        return _INTERN[key][1]
    return qib.field.Qubit(F[p[0]], p[1])


def seq(items):
    """a field list / particle list in the container the mode asks for"""
    return tuple(items) if FMODE.get("seq") == "tuple" else list(items)


def num(x):
    """a scalar parameter in the type the mode asks for (same value)"""
    m = FMODE.get("num")
    if m == "np64":
        return np.float64(x)
    if m == "np32" and float(np.float32(x)) == float(x):
        return np.float32(x)
    if m == "int" and float(x).is_integer():
        return int(x)
    return x


def numvec(v):
    m = FMODE.get("num")
    if m == "np64":
        return np.array(v, dtype=np.float64)
    if m == "np32" and all(float(np.float32(x)) == float(x) for x in v):
        return np.array(v, dtype=np.float32)
    if m == "tuple":
        return tuple(v)
    return list(v)


# memory layouts / dtypes of a matrix handed to the API: same VALUES, different array object
LAYOUTS = ("C", "F", "T", "adj", "strided", "offset", "neg", "ro", "c64", "Fc64", "real", "Freal", "int", "Fint", "i8", "list")


def relayout(a, name):
    """an array with the entries of `a` in the named memory layout / dtype (dtype changes only when exact)"""
    a0 = np.array(a, dtype=complex)
    a = a0.copy()
    n = a.shape[0]
    if name in ("c64", "Fc64") and np.array_equal(a.astype(np.complex64).astype(complex), a0):
        a = a.astype(np.complex64)
    if name in ("real", "Freal", "int", "Fint", "i8") and np.all(a.imag == 0):
        a = a.real.copy()
        if name in ("int", "Fint", "i8") and np.all(a == np.round(a)) and np.all(np.abs(a) < 100):
            a = a.astype(np.int8 if name == "i8" else np.int64)
    if name in ("F", "Fc64", "Freal", "Fint"):
        out = np.asfortranarray(a)
    elif name == "T":            # a transposed view of a C-ordered array
        out = np.ascontiguousarray(a.T).T
    elif name == "adj":          # the adjoint of the adjoint: what u.conj().T hands back
        out = np.ascontiguousarray(a.conj().T).conj().T
    elif name == "strided":      # every second row / column of a larger array
        big = np.zeros((2 * n + 1, 2 * n + 2), dtype=a.dtype)
        out = big[1::2, 1::2][:n, :n]
        out[...] = a
    elif name == "offset":       # a window into a larger array (rows contiguous, array not)
        big = np.zeros((n + 2, n + 3), dtype=a.dtype)
        out = big[1:n + 1, 2:n + 2]
        out[...] = a
    elif name == "neg":          # negative strides
        out = np.ascontiguousarray(a[::-1, ::-1])[::-1, ::-1]
    elif name == "ro":
        out = a.copy()
        out.setflags(write=False)
    elif name == "list":
        return [[complex(e) if e.imag else float(e.real) for e in row] for row in a0]
    else:
        out = a
    assert np.array_equal(np.asarray(out, dtype=complex), a0), name
    return out


HKINDS = ("IsingZZ", "IsingXX", "Heis", "PauliOp")
WHOLE_FIELD = ("TEvo", "BEnc", "CTEvo", "MuxTEvo", "CBEnc")      # generator kinds: gates on ALL sites of a field
KIND_HEAD = {"Prep1": "Prep", "Prep2": "Prep", "Prep3": "Prep", "Prep2T": "Prep", "Gen2": "Gen", "Gen3": "Gen", "Gen4": "Gen",
             "GenD2": "Gen", "GenD3": "Gen", "C1": "C", "C2": "C", "CC": "C", "C3": "C", "CGen2": "C", "CH": "C", "CTEvo": "C",
             "CBEnc": "C", "MuxTEvo": "Mux"}
BE_METHODS = ("Wx", "Wxi", "R")


def build_hamiltonian(hs, F):
    """hs = [kind, field index, number of sites of that field, parameters] (JSON-able).  Every Hamiltonian of /repo acts
    on ALL sites of ONE field; spectral norm < 1 by construction of the parameters (rand_hspec)"""
    import qib
    op = qib.operator
    k, fi, n, par = hs
    f = F[fi]
    assert f.lattice.nsites == n, "Hamiltonian spec names a field of %d sites, the field has %d" % (n, f.lattice.nsites)
    if k in ("IsingZZ", "IsingXX"):
        return op.IsingHamiltonian(f, par[0], par[1], par[2],
                                   op.IsingConvention.ISING_ZZ if k == "IsingZZ" else op.IsingConvention.ISING_XX)
    if k == "Heis":
        return op.HeisenbergHamiltonian(f, seq(par[0]), seq(par[1]))
    if k == "PauliOp":
        return op.PauliOperator([op.WeightedPauliString(op.PauliString.from_string(s_), w) for s_, w in par]).set_field(f)
    raise ValueError("hamiltonian spec " + repr(hs))


def rand_hspec(rng, kind, fi, n):
    """a Hamiltonian on the n sites of field fi, not invariant under site permutations, norm < 1 (<= 27/32)"""
    q = lambda den: rng.choice([-3, -2, -1, 1, 2, 3]) / float(den)
    if kind in ("IsingZZ", "IsingXX"):
        den = 32 if n <= 3 else 64
        return [kind, fi, n, [q(den), q(den), q(den)]]
    if kind == "Heis":
        den = 64 if n <= 3 else 128
        J = [q(den), q(den), q(den)]
        h = [q(den), q(den), q(den)]
        return [kind, fi, n, [J, h]]
    if kind == "PauliOp":
        strs = ["".join(t) for t in itertools.product("IXYZ", repeat=n) if set(t) != {"I"}]
        pick = rng.sample(strs, min(3, len(strs)))
        return [kind, fi, n, [[s_, q(16)] for s_ in pick]]
    raise ValueError(kind)


def build_gate(spec, F):
    """spec: JSON-able nested list; particles are (field index, lattice index) pairs"""
    import qib.operator.gates as qib
    k = spec[0]
    one = {"I": qib.IdentityGate, "X": qib.PauliXGate, "Y": qib.PauliYGate, "Z": qib.PauliZGate,
           "H": qib.HadamardGate, "S": qib.SGate, "Sdg": qib.SAdjGate, "T": qib.TGate, "Tdg": qib.TAdjGate,
           "Sx": qib.SxGate}
    if k in one:
        return one[k](qubit(F, spec[1]))
    if k in ("Rx", "Ry", "Rz"):
        return {"Rx": qib.RxGate, "Ry": qib.RyGate, "Rz": qib.RzGate}[k](num(spec[1]), qubit(F, spec[2]))
    if k in ("Rxx", "Ryy", "Rzz"):
        return {"Rxx": qib.RxxGate, "Ryy": qib.RyyGate, "Rzz": qib.RzzGate}[k](num(spec[1]), qubit(F, spec[2]), qubit(F, spec[3]))
    if k == "Rot":
        return qib.RotationGate(numvec(spec[1]), qubit(F, spec[2]))
    if k == "Prep":
        # optional 4th entry "T": the transposed (inverse) preparation gate
        if len(spec) > 3 and spec[3] == "T":
            return qib.PrepareGate(numvec(spec[1]), len(spec[2]), True).on(seq([qubit(F, p) for p in spec[2]]))
        return qib.PrepareGate(numvec(spec[1]), len(spec[2])).on(seq([qubit(F, p) for p in spec[2]]))
    if k == "TEvo":      # exp(-i t H), on every site of the Hamiltonian's field
        return qib.TimeEvolutionGate(build_hamiltonian(spec[1], F), num(spec[2]))
    if k == "BEnc":      # block encoding of H: auxiliary qubit (any particle), then every site of the Hamiltonian's field
        return qib.BlockEncodingGate(build_hamiltonian(spec[1], F), getattr(qib.BlockEncodingMethod, spec[2])) \
            .set_auxiliary_qubits(seq([qubit(F, spec[3])]))
    if k == "iSwap":
        return qib.ISwapGate(qubit(F, spec[1]), qubit(F, spec[2]))
    if k == "Phase":
        return qib.PhaseFactorGate(num(spec[1]), len(spec[2])).on(seq([qubit(F, p) for p in spec[2]]))
    if k == "Gen":
        # optional 4th entry: memory layout / dtype of the matrix handed to the constructor
        m = relayout(np.array([[complex(*e) for e in row] for row in spec[1]]),
                     spec[3] if len(spec) > 3 and not FMODE.get("ref") else "C")
        return qib.GeneralGate(m, len(spec[2])).on(seq([qubit(F, p) for p in spec[2]]))
    if k == "C":
        inner = build_gate(spec[3], F)
        return qib.ControlledGate(inner, len(spec[1]), seq(spec[1])).set_control(seq([qubit(F, p) for p in spec[2]]))
    if k == "Mux":
        inners = [build_gate(s, F) for s in spec[2]]
        return qib.MultiplexedGate(seq(inners), len(spec[1])).set_control(seq([qubit(F, p) for p in spec[1]]))
    raise ValueError("gate spec " + repr(spec))


def spec_particles(spec):
    """particles in the order gate.particles() must list them (first = most significant)"""
    k = spec[0]
    if k in ("I", "X", "Y", "Z", "H", "S", "Sdg", "T", "Tdg", "Sx"):
        return [tuple(spec[1])]
    if k in ("Rx", "Ry", "Rz", "Rot"):
        return [tuple(spec[2])]
    if k == "Prep":
        return [tuple(p) for p in spec[2]]
    if k == "TEvo":
        return [(spec[1][1], i) for i in range(spec[1][2])]
    if k == "BEnc":
        return [tuple(spec[3])] + [(spec[1][1], i) for i in range(spec[1][2])]
    if k in ("Rxx", "Ryy", "Rzz"):
        return [tuple(spec[3]), tuple(spec[2])]      # the code lists [q2, q1]
    if k == "iSwap":
        return [tuple(spec[1]), tuple(spec[2])]
    if k in ("Phase", "Gen"):
        return [tuple(p) for p in spec[2]]
    if k == "C":
        return [tuple(p) for p in spec[2]] + spec_particles(spec[3])
    if k == "Mux":
        return [tuple(p) for p in spec[1]] + spec_particles(spec[2][0])
    raise ValueError(spec)


# ----------------------------------------------------------------------------- mutation alphabet (shared with C05)
def reach(g):
    out = [g]
    if hasattr(g, "tgate"):
        out += reach(g.tgate)
    if hasattr(g, "tgates"):
        for t in g.tgates:
            out += reach(t)
    return out


def follow(g, path):
    """the object reached from g through target_gate() / target_gates()[i]"""
    for i in path:
        if hasattr(g, "tgate"):
            g = g.target_gate()
            assert i == 0
        else:
            g = g.target_gates()[i]
    return g


def apply_mutation(obj, mut, F):
    """one mutation of a live gate object: public mutators (on / set_control), attribute assignment, in-place write
    into a list-valued attribute; JSON-able descriptor"""
    k = mut[0]
    if k == "on1":
        obj.on(qubit(F, mut[1]))
    elif k == "attr_qubit":
        obj.qubit = qubit(F, mut[1])
    elif k == "theta":
        obj.theta = num(mut[1])
    elif k == "phi":
        obj.phi = num(mut[1])
    elif k == "q1":
        obj.q1 = qubit(F, mut[1])
    elif k == "q2":
        obj.q2 = qubit(F, mut[1])
    elif k == "on2":
        obj.on(qubit(F, mut[1]), qubit(F, mut[2]))
    elif k == "onlist":
        obj.on([qubit(F, p) for p in mut[1]])
    elif k == "onargs":
        obj.on(*[qubit(F, p) for p in mut[1]])
    elif k == "set_control":
        obj.set_control([qubit(F, p) for p in mut[1]])
    elif k == "set_control_args":
        obj.set_control(*[qubit(F, p) for p in mut[1]])
    elif k == "ctrl_state":
        obj.ctrl_state = list(mut[1])
    elif k == "ctrl_state_inplace":
        obj.ctrl_state[mut[1]] ^= 1
    elif k == "control_qubits_inplace":
        obj.control_qubits[mut[1]] = qubit(F, mut[2])
    elif k == "prtcl_inplace":
        obj.prtcl[mut[1]] = qubit(F, mut[2])
    elif k == "mat":
        obj.mat = np.asarray(relayout(np.array([[complex(*e) for e in row] for row in mut[1]]), mut[2] if len(mut) > 2 else "C"))
    elif k == "ntheta":
        obj.ntheta = np.array(mut[1], dtype=float)
    elif k == "tgate":
        obj.tgate = build_gate(mut[1], F)
    elif k == "tgates_k":
        obj.tgates[mut[1]] = build_gate(mut[2], F)
    elif k == "set_aux":
        obj.set_auxiliary_qubits([qubit(F, mut[1])])
    elif k == "set_aux_args":
        obj.set_auxiliary_qubits(qubit(F, mut[1]))
    elif k == "aux_inplace":
        obj.auxiliary_qubits[0] = qubit(F, mut[1])
    elif k == "method":
        import qib.operator.gates as G_
        obj.method = getattr(G_.BlockEncodingMethod, mut[1])
    elif k == "t":
        obj.t = num(mut[1])
    elif k == "h":
        obj.h = build_hamiltonian(mut[1], F)
    elif k == "h_field_strength":       # in-place change of the Hamiltonian object the gate holds
        obj.h.h = mut[1]
    else:
        raise ValueError(mut)


def jcopy(x):
    if isinstance(x, (list, tuple)):
        return [jcopy(y) for y in x]
    return x


def sub_spec(spec, path):
    for i in path:
        spec = spec[3] if spec[0] == "C" else spec[2][i]
    return spec


def spec_paths(spec):
    """paths (through target_gate()/target_gates()[i]) of all objects reachable from a gate built from spec"""
    out = [[]]
    if spec[0] == "C":
        out += [[0] + p for p in spec_paths(spec[3])]
    elif spec[0] == "Mux":
        for i, t in enumerate(spec[2]):
            out += [[i] + p for p in spec_paths(t)]
    return out


def mutate_spec(spec, path, mut):
    """the same mutation on the VALUE (the JSON spec a fresh gate is built from); returns the new spec"""
    spec = jcopy(spec)
    s = sub_spec(spec, path)
    k, kind = mut[0], s[0]
    one = kind in ("I", "X", "Y", "Z", "H", "S", "Sdg", "T", "Tdg", "Sx")
    if k in ("on1", "attr_qubit"):
        s[1 if one else 2] = jcopy(mut[1])
    elif k in ("theta", "phi"):
        s[1] = mut[1]
    elif k == "q1":
        s[2] = jcopy(mut[1])
    elif k == "q2":
        s[3] = jcopy(mut[1])
    elif k == "on2":
        s[1], s[2] = jcopy(mut[1]), jcopy(mut[2])
    elif k in ("onlist", "onargs"):
        s[2] = jcopy(mut[1])
    elif k in ("set_control", "set_control_args"):
        s[2 if kind == "C" else 1] = jcopy(mut[1])
    elif k == "ctrl_state":
        s[1] = list(mut[1])
    elif k == "ctrl_state_inplace":
        s[1][mut[1]] ^= 1
    elif k == "control_qubits_inplace":
        s[2 if kind == "C" else 1][mut[1]] = jcopy(mut[2])
    elif k == "prtcl_inplace":
        s[2][mut[1]] = jcopy(mut[2])
    elif k in ("mat", "ntheta"):
        s[1] = jcopy(mut[1])
    elif k == "tgate":
        s[3] = jcopy(mut[1])
    elif k == "tgates_k":
        s[2][mut[1]] = jcopy(mut[2])
    elif k in ("set_aux", "set_aux_args", "aux_inplace"):
        s[3] = jcopy(mut[1])
    elif k in ("method", "t"):
        s[2] = mut[1]
    elif k == "h":
        s[1] = jcopy(mut[1])
    elif k == "h_field_strength":
        assert s[1][0] in ("IsingZZ", "IsingXX")
        s[1][3][1] = mut[1]
    else:
        raise ValueError(mut)
    return spec


def spec_consistent(spec):
    """False when some multiplexer below has targets that do not list the same particles (particles() asserts)"""
    if spec[0] == "C":
        return spec_consistent(spec[3])
    if spec[0] == "Mux":
        return all(spec_consistent(t) for t in spec[2]) and \
            all(spec_particles(t) == spec_particles(spec[2][0]) for t in spec[2])
    return True


def wire_of(sizes, order, p):
    """independent reference for map_particle_to_wire: fields listed in `order` (indices into sizes)"""
    off = 0
    for fi in order:
        if fi == p[0]:
            return off + p[1]
        off += sizes[fi]
    return -1


def ref_embed(nw, ws, G):
    """independent dense reference: einsum of the gate tensor with identities on the other wires"""
    m = len(ws)
    G = np.asarray(G, dtype=complex).reshape((2,) * (2 * m)) if m else np.asarray(G, dtype=complex).reshape(())
    args = [G, [int(w) for w in ws] + [nw + int(w) for w in ws]]
    for w in range(nw):
        if w not in ws:
            args += [np.eye(2, dtype=complex), [w, nw + w]]
    args.append(list(range(2 * nw)))
    return np.einsum(*args).reshape(2 ** nw, 2 ** nw)


def ref_embed_coo(nw, ws, G):
    """independent SPARSE reference for registers too large for a dense comparison (numpy only): the sorted
    (row, col, value) entries of G on wires ws (x) identity.  Row r has the gate index a(r) = bits of r at the listed
    wires (first listed = most significant); its non-zero columns are r with those bits replaced by the bits of b"""
    m = len(ws)
    G = np.asarray(G, dtype=complex)
    r = np.arange(2 ** nw, dtype=np.int64)
    a = np.zeros_like(r)
    for t, w in enumerate(ws):
        a |= ((r >> (nw - 1 - w)) & 1) << (m - 1 - t)
    mask = sum(1 << (nw - 1 - w) for w in ws)
    rest = r & ~np.int64(mask)
    rows, cols, vals = [], [], []
    for b in range(2 ** m):
        scat = sum(((b >> (m - 1 - t)) & 1) << (nw - 1 - w) for t, w in enumerate(ws))
        v = G[a, b]
        keep = v != 0
        rows.append(r[keep])
        cols.append((rest | scat)[keep])
        vals.append(v[keep])
    rows, cols, vals = np.concatenate(rows), np.concatenate(cols), np.concatenate(vals)
    o = np.lexsort((cols, rows))
    return rows[o], cols[o], vals[o]


def coo_sorted(out):
    """sorted (row, col, value) entries of a scipy sparse matrix, duplicates summed, explicit zeros dropped"""
    c = out.tocsr().copy()
    c.sum_duplicates()
    c = c.tocoo()
    rows, cols, vals = c.row.astype(np.int64), c.col.astype(np.int64), np.asarray(c.data, dtype=complex)
    keep = vals != 0
    rows, cols, vals = rows[keep], cols[keep], vals[keep]
    o = np.lexsort((cols, rows))
    return rows[o], cols[o], vals[o]


DENSE_MAX = 9        # registers with more wires are compared entry list against entry list


def embeds_exactly(out, nw, ws, G, tol=0.0):
    """the sparse matrix `out` is exactly (tol = 0; else entrywise up to tol) G on wires ws (first = most significant)
    (x) identity on the nw-wire register"""
    if tuple(out.shape) != (2 ** nw, 2 ** nw):
        return False
    if nw <= DENSE_MAX:
        return same(dense(out), ref_embed(nw, ws, G), tol)
    got, exp = coo_sorted(out), ref_embed_coo(nw, ws, G)
    return all(x.shape == y.shape and np.array_equal(x, y) for x, y in zip(got[:2], exp[:2])) and same(got[2], exp[2], tol)


def ref_permute(u, perm):
    """independent reference for permute_gate_wires: u[sigma r, sigma c], sigma(r)[perm[t]] = r[t]"""
    n = len(perm)
    N = 2 ** n

    def sig(x):
        bits = [(x >> (n - 1 - t)) & 1 for t in range(n)]
        out = [0] * n
        for t in range(n):
            out[perm[t]] = bits[t]
        return sum(b << (n - 1 - s) for s, b in enumerate(out))
    idx = [sig(x) for x in range(N)]
    u = np.asarray(u)
    return u[np.ix_(idx, idx)]


class Spy:
    """records the (values, (rowind, colind)) handed to csr_matrix inside qib.operator.gates"""

    def __init__(self):
        import qib.operator.gates as G
        self.G, self.orig, self.last = G, G.csr_matrix, None

    def __enter__(self):
        self.G.csr_matrix = self
        return self

    def __exit__(self, *a):
        self.G.csr_matrix = self.orig

    def __call__(self, *a, **k):
        if a and isinstance(a[0], tuple) and len(a[0]) == 2 and isinstance(a[0][1], tuple):
            vals, (ri, ci) = a[0]
            self.last = [(int(r), int(c), complex(v)) for r, c, v in zip(ri, ci, vals)]
        return self.orig(*a, **k)


def rand_gauss(rng, dim, density):
    G = np.zeros((dim, dim), dtype=complex)
    for i in range(dim):
        for j in range(dim):
            if rng.random() < density:
                G[i, j] = complex(rng.randint(-3, 3), rng.randint(-3, 3))
    return G


def rand_phase_perm(rng, dim):
    """exact unitary with entries in {0, +-1, +-i}: a permutation matrix with unit phases (non-symmetric)"""
    p = list(range(dim))
    rng.shuffle(p)
    U_ = np.zeros((dim, dim), dtype=complex)
    for i, j in enumerate(p):
        U_[i, j] = [1, 1j, -1, -1j][rng.randrange(4)]
    return U_


def rand_dense_unitary(rng, dim):
    """exact DENSE non-symmetric unitary (dim >= 4): phase-permutation x (1 - 2J/dim) x phase-permutation; all entries are
    non-zero dyadic rationals times a unit phase"""
    H_ = np.identity(dim) - 2.0 * np.ones((dim, dim)) / dim
    while True:
        U_ = rand_phase_perm(rng, dim) @ H_ @ rand_phase_perm(rng, dim)
        if not np.array_equal(U_, U_.T):
            return U_


def csr_parts(G):
    from scipy.sparse import csr_matrix
    g = csr_matrix(G)
    return g, [int(x) for x in g.indptr], [int(x) for x in g.indices], [complex(x) for x in g.data]


def mat_spec(m):
    return [[[float(np.real(e)), float(np.imag(e))] for e in row] for row in np.asarray(m, dtype=complex)]


# ----------------------------------------------------------------------------- oracles
def oracle_distribute(ctx, nw, ws, G, desc):
    """run the implementation on (nw, ws, G); returns (raw triples or None, dense or None)"""
    import qib.operator.gates as gates
    from scipy.sparse import csr_matrix
    valid = len(set(ws)) == len(ws) and all(0 <= w < nw for w in ws)
    with Spy() as spy:
        try:
            # desc["gl"]: memory layout / dtype of the dense gate matrix the CSR structure is made from
            gl = desc.get("gl", "C") if isinstance(desc, dict) else "C"
            out = gates._distribute_to_wires(nw, list(ws), csr_matrix(np.asarray(relayout(G, gl)) if gl != "C" else G))
            raw = spy.last
        except AssertionError:
            out, raw = None, None
        except Exception as e:
            ctx.fail("distribute:crash:" + type(e).__name__, desc, "matrix or AssertionError", repr(e))
            return None, None
    if out is None:
        if valid:
            ctx.fail("distribute:rejects-valid-wires", desc, "a matrix", "AssertionError")
        return None, None
    if not valid:
        ctx.fail("distribute:accepts-invalid-wires", desc, "AssertionError", "a matrix")
        return raw, dense(out)
    D = dense(out) if nw <= DENSE_MAX else None
    if not embeds_exactly(out, nw, ws, G):
        ctx.fail("distribute:not-gate-on-its-wires-times-identity", desc,
                 "G on wires %s (first = most significant) (x) 1" % list(ws), "differs")
    coords = [(r, c) for r, c, _ in (raw or [])]      # raw is None when the result was not built from triples
    if len(set(coords)) != len(coords):
        ctx.fail("distribute:duplicate-coordinates", desc, "distinct (row, col)", "duplicates")
    return raw, D


def oracle_gate(ctx, sizes, order, spec, desc):
    """Gate.as_circuit_matrix on a real gate object; returns (kind, raw triples, dense).
    `order` may list a field more than once (the particle is then found at the FIRST occurrence, every listed copy
    contributes its wires); desc["fmode"] fixes how fields / lattices / qubit objects / parameters are made"""
    with field_mode(desc.get("fmode")):
        return _oracle_gate(ctx, sizes, order, spec, desc)


def _oracle_gate(ctx, sizes, order, spec, desc):
    F = mk_fields(sizes)
    g = build_gate(spec, F)
    fields = seq([F[i] for i in order])
    prt = spec_particles(spec)
    listed = [(fidx(F, p.field), p.index) for p in g.particles()]
    if listed != [(a, b) for a, b in prt]:
        ctx.fail("particles:order", desc, prt, "differs")
    ws = [wire_of(sizes, order, p) for p in prt]
    nw = sum(sizes[i] for i in order)
    with Spy() as spy:
        try:
            out = g.as_circuit_matrix(fields)
            raw = spy.last
        except RuntimeError:
            if all(w >= 0 for w in ws):
                ctx.fail("as_circuit_matrix:rejects-listed-particles", desc, "a matrix", "RuntimeError")
            return 0, None, None
        except AssertionError:
            if len(set(ws)) == len(ws):
                ctx.fail("as_circuit_matrix:rejects-distinct-particles", desc, "a matrix", "AssertionError")
            return 1, None, None
        except Exception as e:
            ctx.fail("as_circuit_matrix:crash:" + type(e).__name__, desc, "matrix", repr(e))
            return None, None, None
    if any(w < 0 for w in ws):
        ctx.fail("as_circuit_matrix:accepts-unlisted-field", desc, "RuntimeError", "a matrix")
        return 2, raw, (dense(out) if nw <= DENSE_MAX else None)
    if len(set(ws)) != len(ws):
        ctx.fail("as_circuit_matrix:accepts-a-wire-used-twice", desc, "AssertionError", "a matrix")
        return 2, raw, (dense(out) if nw <= DENSE_MAX else None)
    # wires the implementation computed
    import qib
    iw = [qib.util.map_particle_to_wire(fields, qubit(F, p)) for p in prt]
    if iw != ws:
        ctx.fail("map_particle_to_wire:not-offset-of-earlier-fields-plus-index", desc, ws, iw)
    tol = spec_tol(spec)
    gm = g.as_matrix()
    gm_ref = ref_gate_matrix(spec, sizes)         # the same gate built afresh (from a plain C-ordered matrix)
    if not same(gm, gm_ref, tol):
        ctx.fail("as_matrix:depends-on-the-memory-layout-of-the-constructor-argument", desc, "the matrix handed over", "differs")
    D = dense(out) if nw <= DENSE_MAX else None
    if not embeds_exactly(out, nw, ws, gm_ref, tol):
        ctx.fail("as_circuit_matrix:not-gate-on-its-wires-times-identity", desc,
                 "as_matrix() on wires %s (x) 1" % ws, "differs")
    # permute_gate_wires is the matching conjugation: embed = permute(G (x) 1, invperm(ws ++ rest))
    if nw <= 7:
        orderw = ws + [w for w in range(nw) if w not in ws]
        inv = [orderw.index(s) for s in range(nw)]
        P = qib.util.permute_gate_wires(np.kron(gm, np.identity(2 ** (nw - len(ws)))), inv)
        if not same(P, D, tol):
            ctx.fail("as_circuit_matrix:not-permute_gate_wires-of-kron", desc, "permute(G (x) 1, %s)" % inv, "differs")
    return 2, raw, D


def expected_query(sizes, order, cur):
    """what as_circuit_matrix must do for the gate VALUE `cur` over the fields listed in `order`:
    ("AssertionError" | "RuntimeError" | "ok", wires)"""
    if not spec_consistent(cur):
        return "AssertionError", None            # particles() of a multiplexer with differing targets
    ws = [wire_of(sizes, order, p) for p in spec_particles(cur)]
    if any(w < 0 for w in ws):
        return "RuntimeError", ws                # particle of an unlisted field
    if len(set(ws)) != len(ws):
        return "AssertionError", ws              # a wire used twice
    return "ok", ws


def oracle_gate_history(ctx, sizes, spec, steps, desc, collect=None):
    """a history on ONE gate object: as_circuit_matrix queries (["q", order]) interleaved with mutations of the object
    and of the objects reachable from it (["m", path, mut]) and with the caller overwriting a matrix it got back
    (["scribble", k]).  Every query is compared with the independent reference for the gate's CURRENT value (a gate
    built afresh from the value, embedded by einsum); every matrix handed out earlier must keep its entries.
    collect: list receiving (order, current spec, raw triples) of the successful queries"""
    with field_mode(desc.get("fmode")):
        return _oracle_gate_history(ctx, sizes, spec, steps, desc, collect)


def _oracle_gate_history(ctx, sizes, spec, steps, desc, collect=None):
    F = mk_fields(sizes)
    try:
        g = build_gate(spec, F)
    except Exception as e:
        ctx.fail("gate-history:construction-crash:" + type(e).__name__, desc, "gate", repr(e)[:200])
        return False
    cur = jcopy(spec)
    handed = []        # [returned object, dense snapshot at return time, step index]
    scribbled = []     # matrices the caller has overwritten

    def handed_intact(when):
        for out, snap, at in handed:
            try:
                now = dense(out)
            except Exception:
                now = None
            if now is None or now.shape != snap.shape or not np.array_equal(now, snap):
                ctx.fail("as_circuit_matrix:matrix-returned-earlier-changed-by-later-call", desc,
                         "the matrix returned at step %d keeps its entries" % at, "changed at step %d" % when)
                return False
        return True

    for n, st in enumerate(steps):
        if st[0] == "m":
            try:
                apply_mutation(follow(g, st[1]), st[2], F)
            except Exception as e:
                ctx.fail("gate-history:mutator-crash:" + type(e).__name__, desc, "mutation applied", repr(e)[:200])
                return False
            cur = mutate_spec(cur, st[1], st[2])
        elif st[0] == "scribble":
            if st[1] < len(handed):
                out = handed[st[1]][0]
                out.data[:] = 7            # the caller owns what it got back
                scribbled.append(out)
                for h in handed:           # the same object may have been handed out more than once
                    if h[0] is out:
                        h[1] = dense(out)
        elif st[0] == "q":
            order = st[1]
            fields = seq([F[i] for i in order])
            exp, ws = expected_query(sizes, order, cur)
            nw = sum(sizes[i] for i in order)
            with Spy() as spy:
                try:
                    out = g.as_circuit_matrix(fields)
                    raw, got = spy.last, "ok"
                except (AssertionError, RuntimeError) as e:
                    out, raw, got = None, None, type(e).__name__
                except Exception as e:
                    ctx.fail("as_circuit_matrix:crash-in-history:" + type(e).__name__, desc, exp, repr(e)[:200])
                    return False
            if got != exp:
                ctx.fail("as_circuit_matrix:history:%s-where-%s-expected" % (got, exp), desc,
                         "step %d: %s for the current particles %s" % (n, exp, [list(p) for p in spec_particles(cur)] if ws else "inconsistent"),
                         got)
                return False
            if got == "ok":
                listed = [(fidx(F, p.field), p.index) for p in g.particles()]
                if listed != [tuple(p) for p in spec_particles(cur)]:
                    ctx.fail("particles:not-current-after-rebinding", desc, [list(p) for p in spec_particles(cur)], listed)
                    return False
                R = ref_embed(nw, ws, ref_gate_matrix(cur, sizes))    # fresh object: no history; plain C-ordered matrices
                D = dense(out)
                tol = spec_tol(cur)
                if not same(D, R, tol) and \
                        any(out is o or np.shares_memory(out.data, o.data) for o in scribbled):
                    ctx.fail("as_circuit_matrix:returns-storage-of-a-matrix-handed-out-before-and-overwritten-by-the-caller", desc,
                             "step %d: a matrix the caller owns (writing into it affects nothing)" % n,
                             "the next call returns the overwritten entries")
                    return False
                if not same(D, R, tol):
                    ctx.fail("as_circuit_matrix:not-the-current-gate-on-its-current-wires", desc,
                             "step %d: as_matrix() of the gate as it is now on wires %s (x) 1" % (n, ws),
                             "differs (matches an earlier state)" if any(
                                 s_.shape == D.shape and np.array_equal(s_, D) for _, s_, _ in handed) else "differs")
                    return False
                if not handed_intact(n):
                    return False
                handed.append([out, D, n])
                if collect is not None and raw is not None:
                    collect.append((order, jcopy(cur), raw))
        else:
            raise ValueError(st)
        if st[0] != "q" and not handed_intact(n):
            return False
    return True


PERM_TYPES = ("list", "tuple", "array", "argsort", "int32")


def oracle_permute_large(ctx, n, perm, seed, layout):
    """permute_gate_wires on a 2^n x 2^n sparse-ish integer matrix regenerated from `seed` (too large for a JSON literal)"""
    N = 2 ** n
    r2 = np.random.RandomState(seed)
    u = (r2.randint(-3, 4, size=(N, N)) * (r2.random_sample((N, N)) < 0.3)).astype(complex)
    u[0, N - 1] += 1
    return oracle_permute(ctx, u, perm, {"kind": "permute_large", "n": n, "perm": perm, "seed": int(seed), "layout": layout})


def as_perm_type(perm, ptype):
    """the permutation in the container the caller may hand over (np.argsort(...) is what callers typically pass)"""
    if ptype == "tuple":
        return tuple(perm)
    if ptype == "array":
        return np.array(perm)
    if ptype == "int32":
        return np.array(perm, dtype=np.int32)
    if ptype == "argsort":
        inv = [list(perm).index(i) for i in range(len(perm))]
        return np.argsort(inv)
    return list(perm)


def oracle_permute(ctx, u, perm, desc):
    """desc["layout"]: memory layout / dtype of the matrix handed over (same values); desc["ptype"]: container of perm"""
    import qib
    layout, ptype = desc.get("layout", "C"), desc.get("ptype", "list")
    arg = np.asarray(relayout(u, layout))
    before = np.array(arg, dtype=complex)
    try:
        res = qib.util.permute_gate_wires(arg, as_perm_type(perm, ptype))
        out = np.asarray(res, dtype=complex)
    except Exception as e:
        ctx.fail("permute_gate_wires:crash:" + type(e).__name__, desc, "matrix", repr(e))
        return None
    if out.shape != before.shape or not np.array_equal(out, ref_permute(before, perm)):
        ctx.fail("permute_gate_wires:not-conjugation-by-wire-permutation", desc, "u[sigma r, sigma c]", "differs")
    if not np.array_equal(np.asarray(arg, dtype=complex), before):
        ctx.fail("permute_gate_wires:overwrites-its-argument", desc, "argument unchanged", "changed")
    return out


# ----------------------------------------------------------------------------- histories on one gate object
ONE_QUBIT = ("I", "X", "Y", "Z", "H", "S", "Sdg", "T", "Tdg", "Sx")


def spec_mutations(rng, sub, allp, exact=False):
    """every kind of mutation applicable to an object built from `sub` (one random instance of each kind)"""
    k = sub[0]
    p = lambda n=1: [list(x) for x in rng.sample(allp, n)]
    th = lambda: rng.choice([x for x in range(-16, 17) if x]) / 8.0
    if k in ONE_QUBIT:
        return [["on1", p()[0]], ["attr_qubit", p()[0]]]
    if k in ("Rx", "Ry", "Rz"):
        return [["on1", p()[0]], ["attr_qubit", p()[0]], ["theta", th()]]
    if k == "Rot":
        return [["on1", p()[0]], ["attr_qubit", p()[0]], ["ntheta", [rng.randint(-8, 8) / 8.0 for _ in range(3)]]]
    if k in ("Rxx", "Ryy", "Rzz"):
        return [["theta", th()], ["q1", p()[0]], ["q2", p()[0]]]
    if k == "iSwap":
        a = p(2)
        return [["on2", a[0], a[1]]]
    if k == "Prep":
        n = len(sub[2])
        return [["onlist", p(n)], ["onargs", p(n)]] if n <= len(allp) else []
    if k in ("Phase", "Gen"):
        n = len(sub[2])
        out = [["prtcl_inplace", rng.randrange(n), p()[0]]]
        if n <= len(allp):
            out += [["onlist", p(n)], ["onargs", p(n)]]
        out.append(["phi", th()] if k == "Phase" else ["mat", mat_spec(rand_phase_perm(rng, 2 ** n)), rand_layout(rng)])
        return out
    if k == "C":
        n = len(sub[1])
        out = [["ctrl_state", [1 - b for b in sub[1]]], ["ctrl_state_inplace", rng.randrange(n)],
               ["control_qubits_inplace", rng.randrange(n), p()[0]]]
        if n <= len(allp):
            out += [["set_control", p(n)], ["set_control_args", p(n)]]
        q = p()[0]
        out.append(["tgate", rng.choice([["Y", q], ["S", q]] if exact else [["Y", q], ["H", q], ["Rz", th(), q]])])
        return out
    if k == "TEvo":
        hk = rng.choice([x for x in HKINDS if x != sub[1][0]])
        out = [["t", th()], ["h", rand_hspec(rng, hk, sub[1][1], sub[1][2])]]
        if sub[1][0] in ("IsingZZ", "IsingXX"):
            out.append(["h_field_strength", rng.choice([-5, 5, 7]) / 64.0])
        return out
    if k == "BEnc":
        hk = rng.choice([x for x in HKINDS if x != sub[1][0]])
        out = [["set_aux", p()[0]], ["set_aux_args", p()[0]], ["aux_inplace", p()[0]],
               ["method", rng.choice([x for x in BE_METHODS if x != sub[2]])], ["h", rand_hspec(rng, hk, sub[1][1], sub[1][2])]]
        if sub[1][0] in ("IsingZZ", "IsingXX"):
            out.append(["h_field_strength", rng.choice([-5, 5, 7]) / 64.0])
        return out
    if k == "Mux":
        n = len(sub[1])
        out = [["control_qubits_inplace", rng.randrange(n), p()[0]]]
        if n <= len(allp):
            out += [["set_control", p(n)], ["set_control_args", p(n)]]
        # replace one target by another gate on the SAME particles (stays a valid multiplexer)
        i = rng.randrange(len(sub[2]))
        t = sub[2][i]
        if t[0] in ONE_QUBIT:
            out.append(["tgates_k", i, [rng.choice([x for x in ("X", "Y", "Z", "S") if x != t[0]]), jcopy(t[1])]])
        return out
    raise ValueError(sub)


def retarget_all(rng, spec, path, allp):
    """steps that move EVERY target of the multiplexer at `path` to one new particle list (so it stays consistent)"""
    sub = sub_spec(spec, path)
    t0 = sub[2][0]
    if t0[0] not in ONE_QUBIT:
        return None
    q = list(rng.choice(allp))
    return [["m", path + [i], [rng.choice(["on1", "attr_qubit"]), q]] for i in range(len(sub[2]))]


GEN_LAYOUTS = ("C", "C", "F", "T", "adj", "strided", "offset", "neg", "ro", "c64", "Fc64", "Fint", "i8", "list")


def rand_layout(rng):
    return rng.choice(GEN_LAYOUTS)


def share_patterns(sizes):
    """all ways to let fields of EQUAL size share a lattice object: lists of group labels (one per field), incl. the
    trivial one (None: every field its own lattice)"""
    n = len(sizes)
    pats = [None]

    def rec(i, cur):
        if i == n:
            if len(set(cur)) < n:
                pats.append(list(cur))
            return
        for lab in range(max(cur, default=-1) + 2):
            if lab <= max(cur, default=-1) and sizes[cur.index(lab)] != sizes[i]:
                continue            # same label = same lattice object: needs the same number of sites
            rec(i + 1, cur + [lab])
    rec(0, [])
    return pats


def rand_fmode(rng, sizes, nums=("np64", "int", "tuple")):
    """a random mode: lattice sharing where sizes allow it, lattice flavours, interned qubits, parameter types"""
    m = {}
    pats = share_patterns(sizes)
    if len(pats) > 1 and rng.random() < 0.6:
        m["lat"] = rng.choice(pats[1:])
    if rng.random() < 0.3:
        m["flavor"] = [rng.choice(["int", "pbc", "2d", "full", "layer"]) for _ in sizes]
    if rng.random() < 0.4:
        m["intern"] = True
    if nums and rng.random() < 0.3:
        m["num"] = rng.choice(nums)
    if rng.random() < 0.25:
        m["seq"] = "tuple"
    return m


def orders_with_repeats(nf):
    """field lists (index lists) in which one field is listed twice"""
    out = []
    for k in range(1, nf + 1):
        for o in itertools.permutations(range(nf), k):
            for i in range(len(o)):
                for pos in range(i + 1, len(o) + 1):
                    out.append(list(o[:pos]) + [o[i]] + list(o[pos:]))
    return out


def gate_histories(rng, thorough):
    """(sizes, spec, steps): scripted = every mutation kind on every reachable object of every base gate, between
    two queries with the SAME field list, then a different list, then the first again; + random histories"""
    out = []
    gen2 = mat_spec(rand_phase_perm(rng, 4))
    # the second configuration: two DISTINCT fields on ONE lattice object, one Qubit object per site
    for sizes, fm in (([2, 3], {}), ([3, 3], {"lat": [0, 0], "intern": True}), ([1, 2, 2], {}), ([2, 2, 2], {"lat": [0, 1, 0]})) \
            if thorough else (([2, 3], {}), ([3, 3], {"lat": [0, 0], "intern": True})):
        sizes = list(sizes)
        nf = len(sizes)
        allp = [(fi, i) for fi, n in enumerate(sizes) for i in range(n)]
        orders = [list(o) for o in itertools.permutations(range(nf))]
        A, B, C_, D = ((0, 0), (0, 1), (1, 0), (1, 2)) if nf == 2 else ((0, 0), (1, 0), (1, 1), (2, 1))
        bases = [
            ["X", A], ["Rz", 0.5, B], ["Rot", [0.25, -0.5, 0.75], C_], ["Rzz", 0.375, A, C_], ["Rxx", -0.25, D, B],
            ["iSwap", C_, A], ["Phase", 0.25, [B, D]], ["Gen", gen2, [D, A], rand_layout(rng)], ["Prep", [0.5, 0.25, -0.125, 0.125], [C_, B]],
            ["C", [1], [A], ["X", D]], ["C", [0], [D], ["Rz", -0.75, A]], ["C", [1, 0], [C_, A], ["Y", B]],
            ["C", [1], [B], ["Gen", gen2, [D, A], rand_layout(rng)]], ["C", [1], [A], ["C", [0], [C_], ["Y", D]]],
            ["C", [0], [D], ["iSwap", A, B]], ["C", [1], [C_], ["Rzz", 0.5, B, A]],
            ["Mux", [A], [["X", D], ["S", D]]], ["Mux", [D], [["C", [1], [B], ["X", A]], ["C", [0], [B], ["Z", A]]]],
            ["C", [1], [B], ["Mux", [A], [["Y", C_], ["Z", C_]]]],
        ]
        # gates acting on a WHOLE field (all sites of field 0), auxiliary qubit / controls in another field
        h0, h0b = rand_hspec(rng, rng.choice(["IsingZZ", "IsingXX"]), 0, sizes[0]), rand_hspec(rng, rng.choice(["Heis", "PauliOp"]), 0, sizes[0])
        bases += [
            ["TEvo", h0, 0.375], ["BEnc", h0, rng.choice(BE_METHODS), D], ["C", [1], [D], ["TEvo", h0b, -0.25]],
            ["Mux", [D], [["TEvo", h0, 0.5], ["TEvo", h0b, 0.25]]], ["C", [0], [C_], ["BEnc", h0b, rng.choice(BE_METHODS), D]],
        ]
        for base in bases:
            base = jcopy(base)
            for path in spec_paths(base):
                muts = [[["m", path, mt]] for mt in spec_mutations(rng, sub_spec(base, path), allp)]
                if sub_spec(base, path)[0] == "Mux":
                    r = retarget_all(rng, base, path, allp)
                    if r:
                        muts.append(r)
                for ms in muts:
                    o1 = rng.choice(orders)
                    o2 = rng.choice([o for o in orders if o != o1])
                    pat = rng.randrange(3)
                    if pat == 0:
                        steps = [["q", o1]] + ms + [["q", o1], ["q", o2], ["q", o1]]
                    elif pat == 1:
                        steps = [["q", o1], ["q", o2]] + ms + [["q", o2], ["q", o1]]
                    else:
                        steps = [["q", o1], ["q", o1], ["scribble", 0]] + ms + [["q", o1], ["scribble", 2], ["q", o1], ["q", o2]]
                    out.append((sizes, base, steps, dict(fm)))
    # random histories
    for _ in range(400 if thorough else 120):
        sizes = rng.choice([[3], [4], [2, 2], [1, 3], [2, 1, 2], [2, 2], [2, 2, 2]])
        nf = len(sizes)
        allp = [(fi, i) for fi, n in enumerate(sizes) for i in range(n)]
        orders = [list(o) for k in range(max(1, nf - 1), nf + 1) for o in itertools.permutations(range(nf), k)]
        if nf >= 2:
            orders += rng.sample(orders_with_repeats(nf), 2)        # a field listed twice
        ps = [list(x) for x in rng.sample(allp, 3)]
        kind = rng.randrange(8)
        if kind == 0:
            spec = ["C", [rng.randint(0, 1)], [ps[0]], [rng.choice(["X", "Y", "S", "H"]), ps[1]]]
        elif kind == 1:
            spec = ["C", [rng.randint(0, 1)], [ps[0]], ["Rz", rng.randint(-16, 16) / 8.0, ps[1]]]
        elif kind == 2:
            spec = ["C", [rng.randint(0, 1), rng.randint(0, 1)], [ps[0], ps[1]], [rng.choice(["X", "Z"]), ps[2]]]
        elif kind == 3:
            spec = ["C", [rng.randint(0, 1)], [ps[0]], ["C", [rng.randint(0, 1)], [ps[1]], ["Y", ps[2]]]]
        elif kind == 4:
            spec = ["Mux", [ps[0]], [[rng.choice(["X", "Y"]), ps[1]], [rng.choice(["Z", "S"]), ps[1]]]]
        elif kind == 5:
            spec = ["Gen", mat_spec(rand_phase_perm(rng, 4)), [ps[0], ps[1]], rand_layout(rng)]
        elif kind == 6:
            spec = ["C", [1], [ps[0]], ["Gen", mat_spec(rand_phase_perm(rng, 4)), [ps[1], ps[2]], rand_layout(rng)]]
        else:
            spec = [["Rzz", 0.5, ps[0], ps[1]], ["iSwap", ps[0], ps[1]], ["Phase", 0.25, [ps[0], ps[1]]], ["Rx", 0.5, ps[0]]][rng.randrange(4)]
        cur = jcopy(spec)
        last = rng.choice(orders)
        steps = [["q", last]]
        nq = 1
        for _ in range(rng.randint(3, 9)):
            r = rng.random()
            if r < 0.45:
                path = rng.choice(spec_paths(cur))
                sub = sub_spec(cur, path)
                if sub[0] == "Mux" and rng.random() < 0.5:
                    ms = retarget_all(rng, cur, path, allp) or []
                else:
                    ms = [["m", path, rng.choice(spec_mutations(rng, sub, allp))]]
                for m in ms:
                    steps.append(m)
                    cur = mutate_spec(cur, m[1], m[2])
            elif r < 0.55:
                steps.append(["scribble", rng.randrange(nq)])      # index among the matrices handed out (ignored if beyond)
            else:
                if rng.random() < 0.4:
                    last = rng.choice(orders)
                steps.append(["q", last])
                nq += 1
        steps.append(["q", last])
        out.append((sizes, spec, steps, rand_fmode(rng, sizes, nums=("np64", "np32", "int", "tuple"))))
    return out


# ----------------------------------------------------------------------------- the check
def run(ctx):
    import qib
    import embed as gen_embed
    ctx.trusted.append(
        "C04: _distribute_to_wires is regenerated statement by statement (gen/embed.py -> gen_distribute) over the "
        "combinators of Qib.Embed.EmbedModel and proved equal to the hand port the library theorems are about; "
        "map_particle_to_wire pieces, permute_gate_wires axes and the as_circuit_matrix funnel of all 25 gate classes are "
        "regenerated/checked from the syntax. Modelled (not verified): scipy csr_matrix(dense) = nonzero entries row-major "
        "(canonical CSR); csr_matrix((values,(rows,cols))) sums duplicate coordinates (proved not to occur); CPython iterates "
        "set(range(n)).difference(l) ascending (the theorems are stated for the ascending complement; the dense result does not "
        "depend on that order); numpy reshape is row-major and transpose(a, axes)[i] = a[j], j[axes[t]] = i[t]; Python ints are Z")
    ctx.trusted.append(
        "C04 histories: as_circuit_matrix of every class is 'guards; wires of particles(); _distribute_to_wires' without assignments "
        "(translator) = the recomputing semantics `trace` of Qib.Embed.ObsModel for the view D(value of the gate object)(fields); "
        "the harness mutates ONE live object (public mutators, attribute assignment, in-place list writes, on the object and on "
        "objects reached through target_gate()/target_gates()) and compares every query with a gate built afresh from the value")
    ctx.assumes.append("field objects are compared by identity: the translator requires class Field (field.py) to be a plain class "
                       "without __eq__/__hash__ or any other special method besides __init__, Particle.__eq__ to compare field and "
                       "index, Qubit not to override it; the model's field ids are distinct integers per Field OBJECT (also for "
                       "several fields on one lattice object); a field listed twice is found at its first occurrence and every "
                       "listed copy contributes its wires (the code as it is; mp2w_found needs distinctness of the EARLIER fields only)")
    ctx.assumes.append("numpy: np.reshape with the default order reads the logical (row-major) index order whatever the memory "
                       "layout / dtype of the argument (translator: the reshape calls carry no order argument); validated by running "
                       "every permutation on 15 layouts/dtypes of the same matrix")
    ctx.rules.append("dense non-symmetric Gaussian-integer G x ALL ordered selections of m<=3 distinct wires out of nw<=6 "
                     "(thorough: all m<=nw<=6) + random nw<=9; invalid wire lists; real gate objects over 1-3 fields in every "
                     "field order incl. unlisted fields; permute_gate_wires for all permutations n<=3 (thorough 4) + random. "
                     "every gate class the harness can build (26 spec kinds incl. 4-wire gates) at least once per run over 2-3 fields; "
                     "random selections of m=4..6 wires out of nw<=8 incl. fully descending ones. "
                     "histories on one gate object: query as_circuit_matrix, apply each mutation kind (on/set_control/attribute "
                     "assignment/in-place list write/parameters/ctrl_state/mat/tgate/tgates[k]) to each reachable object of 19 base "
                     "gates, query again with the same and with another field list; random histories of 4-10 steps; the matrices "
                     "handed out earlier must keep their entries and the caller overwriting them must not affect later queries. "
                     "DIMENSIONS OF AN INPUT every generator varies: (a) memory layout and dtype of every matrix handed to the API - "
                     "C / Fortran / transposed and adjoint views / strided, offset and negatively strided windows / read-only / "
                     "complex64 / real / int64 / int8 / nested lists - for permute_gate_wires (all layouts x all permutations n<=3, "
                     "5 layouts each for n = 4, 5, 3 for n = 6..9; perm as list / tuple / int64 and int32 arrays / np.argsort output; the "
                     "argument must stay unchanged), for the matrix of every GeneralGate (phase-permutation AND dense matrices without "
                     "zero entries; also as the new value of .mat in histories) and for the dense matrix behind the CSR structure handed "
                     "to _distribute_to_wires; scalar / vector parameters as Python floats, ints, numpy float64 / float32, tuples; "
                     "(b) relations between the OBJECTS of an input (mode `fmode` of the descriptor): several distinct fields on ONE "
                     "lattice object (every partition of the equal-sized fields), equal lattices in distinct objects, lattice "
                     "flavours (open / periodic / 2-d / fully connected / layered), a field listed twice in the field list (every "
                     "position), one Qubit object per site shared by everything vs. a fresh object per mention, controls and targets at "
                     "the SAME site of two registers, dense gates across registers; all of it also inside the histories; "
                     "(c) sizes: _distribute_to_wires and real gates on registers of 9..12 wires (entry lists compared with a numpy-only "
                     "sparse reference), permute_gate_wires up to 9 (thorough 10) wires. The reference for a gate is always built from "
                     "a plain C-ordered matrix, whatever layout the gate under test was given. "
                     "(d) gates acting on WHOLE fields, built for real: TimeEvolutionGate and BlockEncodingGate (3 methods) of Ising ZZ / XX, "
                     "Heisenberg and Pauli-operator Hamiltonians on fields of 1..3 sites (lattice flavours via fmode), alone and as targets "
                     "of controlled / nested controlled / multiplexed gates; auxiliary qubit in a 1-site field of its own or at any site of "
                     "a 2- / 3-site field or (refused) inside the system field; every order of every non-empty sub-list of the fields with "
                     "0..2 idle fields (Hamiltonian's field first / middle / last / unlisted; idle wires before / between / after); "
                     "PrepareGate on 1..3 qubits, also transposed; (e) the gate covers the ENTIRE register: every gate class x every "
                     "composition of num_wires into field sizes x particles a random arrangement of all sites x every order of the field "
                     "list. expm / sqrtm gates are compared up to 1e-12 (entrywise), everything else exactly; the reference is as_matrix() of "
                     "a gate built afresh from the JSON value, embedded by numpy on the wires computed from the field list. "
                     "non-trivial = wires not an ascending adjacent block starting at 0, or >=2 fields listed, or a non-identity "
                     "permutation, or a wire list the code must reject (repeated / out of range); CSR-conversion cases never count")
    ctx.lib(["Embed/EmbedCheck", "Embed/WireProofs", "Embed/CsrProofs", "Embed/HeapObs", "Embed/IdentProofs"])
    ok = ctx.translate("GenEmbed", gen_embed.generate)
    if ok:
        ctx.props()
    else:
        ctx.oblige("props:C04", "theorem", False, "not compiled: translator failed")

    rng = ctx.rng
    cases = []

    sampled = {}

    def add(term, desc, nontrivial=True):
        cases.append((term, desc))
        if nontrivial:
            ctx.nontriv(desc)
            # samples: two non-trivial cases of every kind (not the first, smallest, enumerated ones)
            k = desc.get("kind")
            if sampled.get(k, 0) < 2 and (k != "distribute" or len(desc["ws"]) >= 3):
                sampled[k] = sampled.get(k, 0) + 1
                ctx.sample(desc, cap=24)

    # ------------------------------------------------------------ (A) _distribute_to_wires, all selections
    sels = []
    max_m = 6 if ctx.thorough else 3
    for nw in range(1, 7):
        for m in range(0, min(nw, max_m) + 1):
            for ws in itertools.permutations(range(nw), m):
                sels.append((nw, list(ws)))
    n_sel_exh = len(sels)
    for _ in range(60 if ctx.thorough else 16):
        nw = rng.randint(7, 9)
        m = rng.randint(1, 3)
        sels.append((nw, rng.sample(range(nw), m)))
    # wide gates (m = 4..6 wires; the quick tier enumerates only m <= 3), random order, plus the fully descending and
    # the descending-with-gaps selections
    for _ in range(40 if ctx.thorough else 12):
        m = rng.randint(4, 6)
        nw = rng.randint(m, 8)
        sels.append((nw, rng.sample(range(nw), m)))
    for m, nw in ((4, 4), (4, 6), (5, 7), (4, 8)):
        sels.append((nw, list(range(nw - 1, nw - 1 - m, -1))))
        sels.append((nw, sorted(rng.sample(range(nw), m), reverse=True)))
    # every ordering of a contiguous block of four wires (incl. the ones that start at the lowest and end at the highest
    # wire with the interior permuted: a "contiguous block = plain Kronecker product" shortcut is wrong there)
    for off, nw in ((1, 6), (0, 4)) + (((2, 7), (0, 5)) if ctx.thorough else ()):
        for ws in itertools.permutations(range(off, off + 4)):
            sels.append((nw, list(ws)))
    # registers of 10..12 wires (entry lists compared with a numpy-only sparse reference; no dense matrix is formed)
    n_small = len(sels)
    for _ in range(24 if ctx.thorough else 10):
        nw = rng.randint(10, 12)
        m = rng.randint(1, 4)
        ws = rng.sample(range(nw), m)
        if rng.random() < 0.3:
            ws = sorted(ws, reverse=True)
        sels.append((nw, ws))
    ctx.exhaustive = {"ordered wire selections m<=%d of nw<=6" % max_m: n_sel_exh}
    seen_csr = 0
    for isel, (nw, ws) in enumerate(sels):
        m = len(ws)
        dim = 2 ** m
        if nw >= 7:
            density = min(1.0, 12.0 / (dim * dim))
        elif m >= 4:
            density = 40.0 / (dim * dim)
        else:
            density = rng.choice([1.0, 1.0, 0.6, 0.3])
        G = rand_gauss(rng, dim, density)
        if dim > 1 and np.array_equal(G, G.T):
            G[0, dim - 1] += 1
        # memory layout / dtype of the dense matrix the CSR structure is made from (same values)
        gl = "C"
        if isel >= n_sel_exh or rng.random() < 0.25:
            gl = rng.choice(["C", "F", "T", "strided", "c64", "real", "Fint", "i8"])
            if gl in ("real", "Fint", "i8"):
                G = np.array(G.real, dtype=complex)
                if dim > 1 and np.array_equal(G, G.T):
                    G[0, dim - 1] += 1
        desc = {"kind": "distribute", "nw": nw, "ws": ws, "G": mat_spec(G)}
        if gl != "C":
            desc["gl"] = gl
        ctx.count("distribute_nw=%d_m=%d" % (nw, m))
        ctx.count("distribute_matrix_layout_" + gl)
        raw, D = oracle_distribute(ctx, nw, ws, G, desc)
        if nw > DENSE_MAX:
            ctx.nontriv({"kind": "distribute-large-register", "nw": nw, "ws": ws})
            continue                      # oracle only: the triple list is too long for a Coq literal
        g, indptr, indices, data = csr_parts(G)
        nt = ws != list(range(m))
        short = {"kind": "distribute", "nw": nw, "ws": ws, "nnz": len(data)}
        add("CDist %s %s %s %s %s %s %s" % (ct.z(nw), zlist(ws), ct.z(dim), zlist(indptr), zlist(indices), zilist(data),
                                            ct.opt(triples_term(raw)) if raw is not None else "None"), short, nt)
        if seen_csr < 120:
            seen_csr += 1
            add("CCsr %s %s %s %s %s" % (ct.zimat(G), ct.z(dim), zlist(indptr), zlist(indices), zilist(data)),
                {"kind": "csr", "dim": dim, "nnz": len(data)}, False)
        if D is not None and nw <= 4 and rng.random() < 0.6:
            add("CEmbed %s %s %s %s" % (ct.nat(nw), natlist(ws), ct.zimat(G), ct.zimat(D)),
                {"kind": "embed-spec", "nw": nw, "ws": ws}, nt)
        if raw is not None and nw <= 4 and rng.random() < 0.3:
            add("CTriples %s %s %s" % (ct.nat(nw), triples_term(raw), ct.zimat(D)),
                {"kind": "triples-dense", "nw": nw, "ws": ws}, nt)
    # invalid wire lists: repeated, out of range, negative
    for _ in range(200 if ctx.thorough else 50):
        nw = rng.randint(1, 5)
        m = rng.randint(1, min(3, nw + 1))
        ws = [rng.randint(-1, nw) for _ in range(m)]
        if len(set(ws)) == len(ws) and all(0 <= w < nw for w in ws):
            ws[0] = ws[-1] if m > 1 else nw
        if m > nw and False:
            continue
        G = rand_gauss(rng, 2 ** m, 0.7)
        desc = {"kind": "distribute", "nw": nw, "ws": ws, "G": mat_spec(G)}
        ctx.count("distribute_invalid")
        raw, D = oracle_distribute(ctx, nw, ws, G, desc)
        g, indptr, indices, data = csr_parts(G)
        add("CDist %s %s %s %s %s %s %s" % (ct.z(nw), zlist(ws), ct.z(2 ** m), zlist(indptr), zlist(indices), zilist(data),
                                            ct.opt(triples_term(raw)) if raw is not None else "None"),
            {"kind": "distribute-invalid", "nw": nw, "ws": ws})

    # ------------------------------------------------------------ (B) real gates, several fields, every order
    def rand_particles(sizes, k):
        allp = [(fi, i) for fi, n in enumerate(sizes) for i in range(n)]
        return rng.sample(allp, k) if k <= len(allp) else None

    def rand_spec(sizes, exact, force=None):
        total = sum(sizes)
        kinds = ["X", "Y", "Z", "S", "Gen1", "Gen2", "Gen3", "C1", "C2", "iSwap", "Mux", "CC", "I", "Sdg", "Gen4", "C3", "CGen2"]
        if not exact:
            kinds += ["H", "T", "Rx", "Ry", "Rz", "Rxx", "Ryy", "Rzz", "Phase", "Sx", "CH", "Tdg", "Rot", "Prep2", "GenD2", "GenD3",
                      "Prep1", "Prep3", "Prep2T", "TEvo", "BEnc", "CTEvo", "MuxTEvo", "CBEnc"]
        if force is not None:
            kinds = [force]
        for _ in range(50):
            k = rng.choice(kinds)
            if k in WHOLE_FIELD:
                # gates on ALL sites of one field (+ auxiliary qubit / controls anywhere else)
                cand = [fi for fi, n in enumerate(sizes) if n <= (4 if ctx.thorough else 3)]
                nother = {"TEvo": 0, "BEnc": 1, "CTEvo": 1, "MuxTEvo": 1, "CBEnc": 2}[k]
                cand = [fi for fi in cand if total - sizes[fi] >= nother]
                if not cand:
                    continue
                fi = rng.choice(cand)
                others = rng.sample([p_ for p_ in rand_particles(sizes, total) if p_[0] != fi], nother)
                hs = lambda: rand_hspec(rng, rng.choice(HKINDS), fi, sizes[fi])
                t_ = rng.choice([x for x in range(-16, 17) if x]) / 8.0
                if k == "TEvo":
                    return ["TEvo", hs(), t_]
                if k == "BEnc":
                    return ["BEnc", hs(), rng.choice(BE_METHODS), others[0]]
                if k == "CTEvo":
                    return ["C", [rng.randint(0, 1)], [others[0]], ["TEvo", hs(), t_]]
                if k == "MuxTEvo":
                    return ["Mux", [others[0]], [["TEvo", hs(), t_], ["TEvo", hs(), -t_ / 2]]]
                return ["C", [rng.randint(0, 1)], [others[0]], ["BEnc", hs(), rng.choice(BE_METHODS), others[1]]]
            need = {"GenD2": 2, "GenD3": 3, "Gen2": 2, "Gen3": 3, "C1": 2, "C2": 3, "iSwap": 2, "Mux": 2, "CC": 3, "Rxx": 2, "Ryy": 2, "Rzz": 2,
                    "Phase": 2, "CH": 2, "Gen4": 4, "C3": 4, "CGen2": 4, "Prep2": 2, "Prep2T": 2, "Prep3": 3}.get(k, 1)
            if need > total:
                continue
            ps = rand_particles(sizes, need)
            th = rng.randint(-16, 16) / 8.0
            if k in ("X", "Y", "Z", "S", "H", "T", "Sx", "I", "Sdg", "Tdg"):
                return [k, ps[0]]
            if k in ("Rx", "Ry", "Rz"):
                return [k, th, ps[0]]
            if k == "Rot":
                return ["Rot", [rng.randint(-8, 8) / 8.0 for _ in range(3)], ps[0]]
            if k == "Prep2":
                return ["Prep", [rng.randint(1, 8) / 8.0 * rng.choice([-1, 1]) for _ in range(4)], ps]
            if k in ("Prep1", "Prep3", "Prep2T"):
                return ["Prep", [rng.randint(1, 8) / 8.0 * rng.choice([-1, 1]) for _ in range(2 ** need)], ps] + (["T"] if k == "Prep2T" or rng.random() < 0.5 else [])
            if k in ("Rxx", "Ryy", "Rzz"):
                return [k, th, ps[0], ps[1]]
            if k == "Phase":
                return ["Phase", th, ps]
            if k == "C3":       # three (possibly negated) controls, four wires in all
                return ["C", [rng.randint(0, 1) for _ in range(3)], ps[:3], [rng.choice(["X", "Y", "S"]), ps[3]]]
            if k == "CGen2":    # two controls on a dense two-wire target
                return ["C", [rng.randint(0, 1), rng.randint(0, 1)], ps[:2],
                        ["Gen", mat_spec(rand_phase_perm(rng, 4)), ps[2:], rand_layout(rng)]]
            if k.startswith("GenD"):    # a matrix without any zero entry
                return ["Gen", mat_spec(rand_dense_unitary(rng, 2 ** need)), ps, rand_layout(rng)]
            if k.startswith("Gen"):
                return ["Gen", mat_spec(rand_phase_perm(rng, 2 ** need)), ps, rand_layout(rng)]
            if k == "iSwap":
                return ["iSwap", ps[0], ps[1]]
            if k == "C1":
                return ["C", [rng.randint(0, 1)], [ps[0]], [rng.choice(["X", "Y", "Z", "S"]), ps[1]]]
            if k == "CH":
                return ["C", [rng.randint(0, 1)], [ps[0]], ["H", ps[1]]]
            if k == "C2":
                return ["C", [rng.randint(0, 1), rng.randint(0, 1)], [ps[0], ps[1]], [rng.choice(["X", "Y", "Z"]), ps[2]]]
            if k == "CC":   # nested controlled gate
                return ["C", [rng.randint(0, 1)], [ps[0]], ["C", [rng.randint(0, 1)], [ps[1]], ["Y", ps[2]]]]
            if k == "Mux":
                return ["Mux", [ps[0]], [[rng.choice(["X", "Y"]), ps[1]], [rng.choice(["Z", "S"]), ps[1]]]]
        return ["X", rand_particles(sizes, 1)[0]]

    def gen_layouts_in(spec):
        if spec[0] == "Gen":
            return [spec[3] if len(spec) > 3 else "C"]
        if spec[0] == "C":
            return gen_layouts_in(spec[3])
        if spec[0] == "Mux":
            return [l for t in spec[2] for l in gen_layouts_in(t)]
        return []

    def gate_case(sizes, order, spec, fmode=None, coq=True):
        with field_mode(fmode):
            _gate_case(sizes, order, spec, fmode, coq)

    def whole_field_counts(spec, prefix):
        if spec[0] in ("TEvo", "BEnc"):
            ctx.count(prefix + "hamiltonian_" + spec[1][0])
            ctx.count(prefix + "hamiltonian_sites=%d" % spec[1][2])
            if spec[0] == "BEnc":
                ctx.count(prefix + "block_encoding_method_" + spec[2])
        elif spec[0] == "C":
            whole_field_counts(spec[3], prefix + "controlled_")
        elif spec[0] == "Mux":
            for t_ in spec[2]:
                whole_field_counts(t_, prefix + "multiplexed_")

    def _gate_case(sizes, order, spec, fmode, coq=True):
        nf = len(sizes)
        desc = {"kind": "gate", "sizes": sizes, "order": order, "spec": spec}
        if fmode:
            desc["fmode"] = fmode
            for k_, v_ in fmode.items():
                ctx.count("gate_fmode_%s%s" % (k_, "=" + v_ if k_ == "num" else ""))
        if len(set(order)) < len(order):
            ctx.count("gate_field_listed_twice")
        for l_ in gen_layouts_in(spec):
            ctx.count("gate_general_matrix_layout_" + l_)
        ctx.count("gate_fields=%d_listed=%d" % (nf, len(order)))
        ctx.count("gate_" + spec[0])
        ctx.count("gate_wires=%d" % len(spec_particles(spec)))
        whole_field_counts(spec, "gate_")
        if len(set(order)) == len(order) and sum(sizes[i] for i in order) == len(spec_particles(spec)):
            ctx.count("gate_register_has_exactly_num_wires_wires_listed_fields=%d" % len(order))
        kind, raw, D = oracle_gate(ctx, sizes, order, spec, desc)
        if not coq:          # oracle only (the wire map / funnel model cases of the same shape are produced elsewhere)
            ctx.nontriv({"kind": "gate-oracle-only", "sizes": sizes, "order": order, "spec": spec[0], "particles": spec_particles(spec)})
            return
        prt = spec_particles(spec)
        # map_particle_to_wire cases (model: field ids = indices into sizes)
        F = mk_fields(sizes)
        fl = [(fi, sizes[fi]) for fi in order]
        for p in prt:
            w = qib.util.map_particle_to_wire([F[i] for i in order], qubit(F, p))
            if w != wire_of(sizes, order, p):
                ctx.fail("map_particle_to_wire:not-offset-of-earlier-fields-plus-index", desc,
                         wire_of(sizes, order, p), w)
            add("CMp2w %s %s %s" % (pairs(fl), ct.pair(ct.z(p[0]), ct.z(p[1])), ct.z(w)),
                {"kind": "mp2w", "fields": fl, "p": p}, len(order) > 1)
        if kind is None:
            return
        gm = build_gate(spec, F).as_matrix()
        if is_gauss_int(gm) and sum(sizes[i] for i in order) <= 6:
            g, indptr, indices, data = csr_parts(gm)
            add("CAcm %s %s %s %s %s %s %s %s" % (
                pairs(fl), pairs(prt), ct.z(gm.shape[0]), zlist(indptr), zlist(indices), zilist(data),
                ct.z(kind), triples_term(raw) if raw is not None else "[]"),
                {"kind": "acm", "sizes": sizes, "order": order, "spec": spec[0], "particles": prt, "result": kind},
                len(order) > 1 or [wire_of(sizes, order, p) for p in prt] != list(range(len(prt))))

    size_sets = [[1], [3], [2, 3], [3, 1], [2, 2], [1, 2, 3], [2, 1, 2], [1, 1, 1]]
    if ctx.thorough:
        size_sets += [[4], [1, 3], [3, 2, 1], [2, 2, 2], [1, 4]]
    for sizes in size_sets:
        nf = len(sizes)
        orders = [list(p) for k in range(1, nf + 1) for p in itertools.permutations(range(nf), k)]
        for rep in range(6 if ctx.thorough else 3):
            for exact in (True, False):
                spec = rand_spec(sizes, exact)
                for order in orders:
                    gate_case(sizes, order, spec)
    # every gate class the harness can build, at least once per run, in every order of two / three fields of
    # different sizes (so an edit confined to one class's as_circuit_matrix / particles() meets an input);
    # gates on four wires (dense 16x16, three controls, two controls on a dense two-wire target)
    every = ["I", "X", "Y", "Z", "H", "S", "Sdg", "T", "Tdg", "Sx", "Rx", "Ry", "Rz", "Rot", "Rxx", "Ryy", "Rzz", "iSwap",
             "Phase", "Prep2", "Gen2", "Gen3", "C1", "C2", "CC", "Mux", "Gen4", "C3", "CGen2", "GenD2", "GenD3",
             "Prep1", "Prep3", "Prep2T", "TEvo", "BEnc", "CTEvo", "MuxTEvo", "CBEnc"]
    for kname in every:
        for sizes in ([2, 3], [2, 1, 3]) + (([1, 4], [3, 2, 2]) if ctx.thorough else ()):
            sizes = list(sizes)
            nf = len(sizes)
            spec = rand_spec(sizes, False, force=kname)
            if spec[0] != KIND_HEAD.get(kname, kname):
                continue
            orders = [list(p) for p in itertools.permutations(range(nf))]
            if not ctx.thorough and len(orders) > 2:
                orders = rng.sample(orders, 3)
            orders.append(list(range(nf - 1)))          # last field unlisted
            orders.append(rng.choice(orders_with_repeats(nf)))      # a field listed twice
            for order in orders:
                gate_case(sizes, order, spec)
    # ---- (B2) relations between the OBJECTS an input is made of.  A spec fixes field sizes and (field, site) pairs; here
    # every way to realise it is enumerated: distinct fields on ONE lattice object / on equal lattices in distinct objects,
    # a field listed twice, one Qubit object per site (shared) / a fresh one per mention, lattice flavours; gates with
    # control and target at the SAME site of two registers, dense two-wire gates across the registers
    for sizes in ([2, 2], [2, 2, 1], [2, 2, 2]) + (([3, 3], [1, 1, 1], [3, 2, 3]) if ctx.thorough else ()):
        sizes = list(sizes)
        nf = len(sizes)
        allp = [(fi, i) for fi, n in enumerate(sizes) for i in range(n)]
        orders = [list(o) for k in range(1, nf + 1) for o in itertools.permutations(range(nf), k)]
        rep = orders_with_repeats(nf)
        for lat in share_patterns(sizes):
            for intern in (False, True):
                fm = {}
                if lat:
                    fm["lat"] = lat
                if intern:
                    fm["intern"] = True
                if rng.random() < 0.3:
                    fm["flavor"] = [rng.choice(["int", "pbc", "2d", "full", "layer"]) for _ in sizes]
                gen2 = mat_spec(rand_phase_perm(rng, 4))
                same_site = [(a, b) for a in allp for b in allp if a[0] != b[0] and a[1] == b[1]]
                a, b = rng.choice(same_site)
                c, d = rng.sample(allp, 2)
                specs = [["Y", list(p)] for p in allp] + [
                    ["C", [1], [list(a)], ["X", list(b)]], ["C", [0], [list(b)], ["S", list(a)]],
                    ["Gen", gen2, [list(b), list(a)], rand_layout(rng)], ["Gen", gen2, [list(c), list(d)], rand_layout(rng)],
                    ["iSwap", list(a), list(b)],
                    ["Gen", mat_spec(rand_dense_unitary(rng, 4)), [list(b), list(a)], rand_layout(rng)]]
                if len(allp) >= 3:
                    e3 = rng.sample(allp, 3)
                    specs.append(["C", [1, 0], [list(e3[0]), list(e3[1])], ["Y", list(e3[2])]])
                for spec in specs:
                    os_ = orders if (ctx.thorough or len(orders) <= 4) else rng.sample(orders, 4)
                    for order in os_ + rng.sample(rep, 2):
                        gate_case(sizes, order, spec, fm)
    # every gate class once more with the parameters handed over as numpy scalars / float32 / Python ints / tuples
    for kname in every:
        sizes = [2, 3]
        fm = {"num": rng.choice(["np64", "np32", "int", "tuple"])}
        with field_mode(fm):
            spec = rand_spec(sizes, False, force=kname)
        if kname in ("Rx", "Ry", "Rz", "Rxx", "Ryy", "Rzz", "Phase") and fm["num"] == "int":
            spec[1] = float(rng.choice([-2, -1, 1, 2, 3]))
        gate_case(sizes, rng.choice([[0, 1], [1, 0]]), spec, fm)
    # registers of 9..12 wires (sparse entry-list comparison with the numpy-only reference)
    for sizes in ([5, 6], [12], [4, 4, 4], [3, 7, 1], [9], [2, 8], [3, 6, 2]) + (([6, 6], [1, 10, 1], [11], [8, 1, 3]) if ctx.thorough else ()):
        sizes = list(sizes)
        nf = len(sizes)
        for kname in ("Y", "C1", "Gen2", "C2", "Gen3", "iSwap", "Mux", "GenD3", "TEvo", "BEnc") + \
                (("C3", "CGen2", "Rzz", "Phase", "GenD2", "CTEvo", "CBEnc", "Prep3") if ctx.thorough else ()):
            spec = rand_spec(sizes, kname in ("Y", "C1", "Gen2", "C2", "Gen3", "iSwap", "Mux", "C3", "CGen2"), force=kname)
            if spec[0] != KIND_HEAD.get(kname, kname):
                continue            # no field of this register is small enough for a whole-field gate
            order = list(range(nf))
            rng.shuffle(order)
            fm = rand_fmode(rng, sizes, nums=None) if rng.random() < 0.5 else None
            ctx.count("gate_large_register_nw=%d" % sum(sizes))
            gate_case(sizes, order, spec, fm)
    # ---- (B3) gates that act on WHOLE fields, built for real: TimeEvolutionGate (every site of the Hamiltonian's field),
    # BlockEncodingGate (auxiliary qubit, then every site of the Hamiltonian's field), alone and as targets of controlled /
    # multiplexed gates.  Every order of every non-empty sub-list of the fields: the Hamiltonian's field first / in the
    # middle / last / unlisted, idle fields before / between / after, registers with EXACTLY num_wires wires and larger.
    def sub_orders(nf):
        return [list(o) for k in range(1, nf + 1) for o in itertools.permutations(range(nf), k)]

    def sweep_fmode(sizes):
        r = rng.random()
        if r < 0.65:
            return None
        return rand_fmode(rng, sizes, nums=("np64", "int"))

    n_wf = 0
    hk_cycle = itertools.cycle(HKINDS)
    me_cycle = itertools.cycle(BE_METHODS + ("R", "Wx"))       # period 5: runs against the period-4 cycle of Hamiltonian kinds
    # block encoding: auxiliary qubit in a 1-site field of its own or at ANY site of a 2- / 3-site field (field 0);
    # system field (field 1) of 1..3 sites; none / one / two further idle fields
    for a, ai in [(a, ai) for a in (1, 2, 3) for ai in range(a)]:
        for s_ in (1, 2, 3):
            for extras in ([], [1], [2]) + (([1, 2], [3]) if ctx.thorough else ()):
                sizes = [a, s_] + list(extras)
                combos = [(m_, k_) for m_ in BE_METHODS for k_ in HKINDS] if ctx.thorough and len(sizes) <= 3 \
                    else [(next(me_cycle), next(hk_cycle))]
                for m_, k_ in combos:
                    spec = ["BEnc", rand_hspec(rng, k_, 1, s_), m_, [0, ai]]
                    fm = sweep_fmode(sizes)
                    for order in sub_orders(len(sizes)):
                        n_wf += 1
                        gate_case(sizes, order, spec, fm, coq=(n_wf % 6 == 0))
    # auxiliary qubit INSIDE the system field (a wire used twice: must be refused when the field is listed)
    for s_ in (1, 2, 3):
        for ai in range(s_):
            sizes = [s_, 1]
            spec = ["BEnc", rand_hspec(rng, next(hk_cycle), 0, s_), next(me_cycle), [0, ai]]
            for order in sub_orders(2):
                gate_case(sizes, order, spec, None, coq=False)
    # time evolution: the Hamiltonian's field alone, first or last of two, in the middle / anywhere among three (four)
    for s_ in (1, 2, 3) + ((4,) if ctx.thorough else ()):
        for sizes, hf in (([s_], 0), ([s_, 2], 0), ([1, s_, 2], 1)) + ((([2, 1, s_], 2), ([1, s_, 1, 2], 1)) if ctx.thorough else ()):
            for k_ in (HKINDS if ctx.thorough else (next(hk_cycle), next(hk_cycle))):
                spec = ["TEvo", rand_hspec(rng, k_, hf, s_), rng.choice([x for x in range(-16, 17) if x]) / 8.0]
                fm = sweep_fmode(sizes)
                for order in sub_orders(len(sizes)):
                    n_wf += 1
                    gate_case(list(sizes), order, spec, fm, coq=(n_wf % 6 == 0))
    # composites with whole-field targets: controls / auxiliary qubit in other fields (or, refused, in the same one)
    for sizes in ([2, 2, 1], [1, 1, 2], [2, 3, 1]) + (([1, 3, 2], [2, 1, 1, 1]) if ctx.thorough else ()):
        sizes = list(sizes)
        s_ = sizes[1]
        hs = lambda: rand_hspec(rng, next(hk_cycle), 1, s_)
        A0, A1, E0 = [0, 0], [0, sizes[0] - 1], [2, 0]
        comps = [
            ["C", [1], [A1], ["TEvo", hs(), 0.375]],
            ["C", [0], [E0], ["TEvo", hs(), -1.25]],
            ["C", [1], [[1, s_ - 1]], ["TEvo", hs(), 0.5]],                  # control inside the target's field: refused
            ["Mux", [E0], [["TEvo", hs(), 0.25], ["TEvo", hs(), -0.75]]],
            ["C", [1], [A0], ["BEnc", hs(), next(me_cycle), E0]],
            ["C", [0], [E0], ["BEnc", hs(), next(me_cycle), A1]],
            ["Mux", [A0], [["BEnc", hs(), "Wx", E0], ["BEnc", hs(), "R", E0]]],
        ]
        if sizes[0] >= 2:
            comps += [["C", [0, 1], [E0, A0], ["TEvo", hs(), 0.625]],
                      ["C", [1], [A0], ["C", [0], [A1], ["TEvo", hs(), -0.5]]],
                      ["Mux", [A1, E0], [["TEvo", hs(), t_ / 8.0] for t_ in (1, -2, 3, 5)]]]
        for spec in comps:
            fm = sweep_fmode(sizes)
            for order in sub_orders(len(sizes)):
                n_wf += 1
                gate_case(sizes, order, spec, fm, coq=(n_wf % 6 == 0))
    # ---- (B4) the gate covers the ENTIRE register (the register has exactly num_wires wires): every gate class, its
    # particles a random arrangement of ALL sites of fields whose sizes run over every composition of num_wires, every
    # order of the field list (plain embedding = as_matrix() only if the particles happen to be wires 0, 1, 2, ...)
    def compositions(m):
        return [[m]] + [[h_] + c for h_ in range(1, m) for c in compositions(m - h_)]

    for kname in every:
        if kname in WHOLE_FIELD:
            m_list = (2, 3) if kname in ("TEvo", "BEnc") else (3, 4)
        else:
            m_list = ({"GenD2": 2, "GenD3": 3, "Gen2": 2, "Gen3": 3, "C1": 2, "C2": 3, "iSwap": 2, "Mux": 2, "CC": 3, "Rxx": 2, "Ryy": 2,
                       "Rzz": 2, "Phase": 2, "Gen4": 4, "C3": 4, "CGen2": 4, "Prep2": 2, "Prep2T": 2, "Prep3": 3}.get(kname, 1),)
        for m in m_list:
            for sizes in compositions(m):
                nf = len(sizes)
                if nf == 1 and kname in WHOLE_FIELD and kname != "TEvo":
                    continue
                if nf == 4 and not ctx.thorough and rng.random() < 0.5:
                    continue
                spec = rand_spec(sizes, False, force=kname)
                if spec[0] != KIND_HEAD.get(kname, kname) or len(spec_particles(spec)) != m:
                    continue
                fm = sweep_fmode(sizes)
                for order in itertools.permutations(range(nf)):
                    gate_case(sizes, list(order), spec, fm, coq=(m <= 3 or ctx.thorough))
    # extra map_particle_to_wire sweep: all particles x all orders x listed subsets x lattice sharing
    for sizes, fm in (([2, 3], None), ([3, 1, 2], None), ([1, 2, 3], None), ([2, 2, 1], None), ([2, 2, 1], {"lat": [0, 0, 1]}),
                      ([2, 2, 2], {"lat": [0, 0, 0]}), ([3, 3], {"lat": [0, 0], "intern": True}), ([2, 1, 2], {"lat": [0, 1, 0]})):
      with field_mode(fm):
        nf = len(sizes)
        F = mk_fields(sizes)
        for order in orders_with_repeats(nf):
            for fi in range(nf):
                for i in range(sizes[fi]):
                    w = qib.util.map_particle_to_wire([F[j] for j in order], qubit(F, (fi, i)))
                    ctx.count("mp2w_sweep_field_listed_twice")
                    if w != wire_of(sizes, list(order), (fi, i)):
                        ctx.fail("map_particle_to_wire:not-offset-of-earlier-fields-plus-index",
                                 dict({"kind": "mp2w", "sizes": sizes, "order": list(order), "p": [fi, i]},
                                      **({"fmode": fm} if fm else {})), wire_of(sizes, list(order), (fi, i)), w)
        for k in range(0, nf + 1):
            for order in itertools.permutations(range(nf), k):
                fl = [(fi, sizes[fi]) for fi in order]
                for fi in range(nf):
                    for i in range(sizes[fi]):
                        w = qib.util.map_particle_to_wire([F[j] for j in order], qubit(F, (fi, i)))
                        ctx.count("mp2w_sweep")
                        if w != wire_of(sizes, list(order), (fi, i)):
                            ctx.fail("map_particle_to_wire:not-offset-of-earlier-fields-plus-index",
                                     dict({"kind": "mp2w", "sizes": sizes, "order": list(order), "p": [fi, i]},
                                          **({"fmode": fm} if fm else {})), wire_of(sizes, list(order), (fi, i)), w)
                        add("CMp2w %s %s %s" % (pairs(fl), ct.pair(ct.z(fi), ct.z(i)), ct.z(w)),
                            {"kind": "mp2w", "fields": fl, "p": (fi, i)}, len(order) > 1)


    # ------------------------------------------------------------ (B') histories on one gate object
    # the register-level matrix is a function of the gate's CURRENT state: query, re-bind / re-parametrise the object or
    # an object reachable through target_gate()/target_gates(), query again (same and other field lists); matrices
    # handed out earlier keep their entries, and a caller overwriting them does not disturb later queries
    n_acm_hist = 0
    for sizes, spec, steps, fm in gate_histories(rng, ctx.thorough):
        desc = {"kind": "gate_history", "sizes": sizes, "spec": spec, "steps": steps}
        if fm:
            desc["fmode"] = fm
            for k_ in fm:
                ctx.count("gate_history_fmode_" + k_)
        got = []
        oracle_gate_history(ctx, sizes, spec, steps, desc, collect=got)
        ctx.count("gate_history")
        ctx.count("gate_history_" + spec[0])
        for st in steps:
            ctx.count("gate_history_step_" + (st[0] if st[0] != "m" else "m_" + st[2][0]))
        ctx.nontriv({"kind": "gate_history", "spec": spec[0], "steps": [st[0] if st[0] != "m" else st[2][0] for st in steps]})
        if sampled.get("gate_history", 0) < 3 and len(steps) >= 5:
            sampled["gate_history"] = sampled.get("gate_history", 0) + 1
            ctx.sample(desc, cap=24)
        # the model (a function of the current particles and matrix) on the states reached by the history
        for order, cur, raw in got[1:]:
            if n_acm_hist >= (300 if ctx.thorough else 90) or sum(sizes[i] for i in order) > 5:
                continue
            gm = build_gate(cur, mk_fields(sizes)).as_matrix()
            if not is_gauss_int(gm) or gm.shape[0] > 8:
                continue
            n_acm_hist += 1
            g_, indptr, indices, data = csr_parts(gm)
            fl = [(fi, sizes[fi]) for fi in order]
            prt = [tuple(p) for p in spec_particles(cur)]
            add("CAcm %s %s %s %s %s %s %s %s" % (
                pairs(fl), pairs(prt), ct.z(gm.shape[0]), zlist(indptr), zlist(indices), zilist(data),
                ct.z(2), triples_term(raw)),
                {"kind": "acm-after-history", "sizes": sizes, "order": order, "spec": cur[0], "particles": prt})

    # ------------------------------------------------------------ (C) permute_gate_wires
    perms = []
    for n in range(1, (4 if ctx.thorough else 3) + 1):
        perms += [list(p) for p in itertools.permutations(range(n))]
    for _ in range(40 if ctx.thorough else 10):
        n = rng.randint(4, 5)
        p = list(range(n))
        rng.shuffle(p)
        perms.append(p)
    PERM_LAYOUTS = [l for l in LAYOUTS if l not in ("C", "list")]
    for perm in perms:
        n = len(perm)
        u = rand_gauss(rng, 2 ** n, 1.0 if n <= 3 else 0.5)
        desc = {"kind": "permute", "perm": perm, "u": mat_spec(u)}
        ctx.count("permute_n=%d" % n)
        out = oracle_permute(ctx, u, perm, desc)
        if out is not None:
            add("CPerm %s %s %s" % (ct.zimat(u), natlist(perm), ct.zimat(out)), {"kind": "permute", "perm": perm},
                perm != list(range(n)))
        # the same permutation on every memory layout / dtype of the argument (Fortran order, transposed and adjoint views,
        # strided / offset / negatively strided windows, read-only, complex64, real, integer) and container of perm
        for layout in (PERM_LAYOUTS if n <= 3 or ctx.thorough else rng.sample(PERM_LAYOUTS, 5)):
            v = u
            if layout in ("real", "Freal", "int", "Fint", "i8"):
                v = np.array(u.real, dtype=complex)
                if np.array_equal(v, v.T):
                    v[0, -1] += 1
            d2 = {"kind": "permute", "perm": perm, "u": mat_spec(v), "layout": layout, "ptype": rng.choice(PERM_TYPES)}
            ctx.count("permute_layout_" + layout)
            ctx.count("permute_perm_as_" + d2["ptype"])
            oracle_permute(ctx, v, perm, d2)
            if perm != list(range(n)):
                ctx.nontriv({"kind": "permute-layout", "perm": perm, "layout": layout, "ptype": d2["ptype"]})
    # larger gates (6..10 wires), numpy-only reference, a few layouts each
    nprng = np.random.RandomState(rng.getrandbits(32))
    for _ in range(12 if ctx.thorough else 5):
        n = rng.randint(6, 10 if ctx.thorough else 9)
        perm = list(range(n))
        rng.shuffle(perm)
        for layout in ["C"] + rng.sample(["F", "T", "adj", "strided", "neg", "c64", "Fint"], 2):
            ctx.count("permute_n=%d" % n)
            ctx.count("permute_layout_" + layout)
            # not replayable from a JSON literal of this size: the descriptor names the generator seed instead
            seed_ = nprng.randint(1 << 30)
            oracle_permute_large(ctx, n, perm, seed_, layout)

    dis = ctx.cases("embed", HEADER, cases)
    for i, d in dis[:5]:
        ctx.log("model/impl disagree on", d)


def replay(ctx, data):
    inp, sig = data["input"], data["sig"]
    before = len(ctx.failing)
    k = inp.get("kind")
    if k == "distribute":
        G = np.array([[complex(*e) for e in row] for row in inp["G"]])
        oracle_distribute(ctx, inp["nw"], inp["ws"], G, inp)
    elif k == "gate":
        oracle_gate(ctx, inp["sizes"], inp["order"], inp["spec"], inp)
    elif k == "gate_history":
        oracle_gate_history(ctx, inp["sizes"], inp["spec"], inp["steps"], inp)
    elif k == "mp2w":
        import qib
        with field_mode(inp.get("fmode")):
            F = mk_fields(inp["sizes"])
            w = qib.util.map_particle_to_wire([F[j] for j in inp["order"]], qubit(F, inp["p"]))
        if w != wire_of(inp["sizes"], inp["order"], tuple(inp["p"])):
            ctx.fail(sig, inp, wire_of(inp["sizes"], inp["order"], tuple(inp["p"])), w)
    elif k == "permute":
        u = np.array([[complex(*e) for e in row] for row in inp["u"]])
        oracle_permute(ctx, u, inp["perm"], inp)
    elif k == "permute_large":
        oracle_permute_large(ctx, inp["n"], inp["perm"], inp["seed"], inp["layout"])
    if len(ctx.failing) > before and not any(f["sig"] == sig for f in ctx.failing):
        ctx.fail(sig, inp, data.get("expected"), "still fails (different symptom)")
