"""C16 - Hermiticity claims are sound (elementary gate classes).
Shared machinery: checks/C01.py.  Composite gates: checks/gates_composite.py.
(Pauli strings / operators: C09; field operators: C10; Hamiltonians: C15.)"""
import numpy as np
from checks import C01 as G


def oracle_c16(ctx, qib, fields, ev, cases):
    inst = ev.inst
    if G.is_overflow(inst):
        return
    U = ev.U
    dev = G.maxabs(U - U.conj().T)
    ctx.count("claims_hermitian" if ev.herm else "claims_not_hermitian")
    if ev.herm and not (dev <= G.ORACLE_TOL):
        ctx.fail("is_hermitian:true-but-matrix-is-not:" + inst.cls, inst.desc(), "||U - U^dag|| <= 1e-9", dev)
    if cases is not None:
        cases.append((ev.flags_case(), dict(inst.desc(), op="flags")))
        cases.append((ev.mat_case(), dict(inst.desc(), op="as_matrix")))


def run(ctx):
    ctx.rules.append("instances as in C01; is_hermitian() / num_wires / shape vs the generated constants, as_matrix() vs the generated "
                     "template (2^-40 / exact); oracle on the implementation: is_hermitian() => ||U - U^dag|| <= 1e-9 on every instance. "
                     "non-trivial = a gate that CLAIMS to be Hermitian (constant gate or non-zero parameter); "
                     "instances answering False are vacuous for soundness and only validate the flag correspondence")
    G.sweep(ctx, "C16", oracle_c16)
    G.run_composite(ctx, "C16")
    G.second_opinion(ctx, ["Prop_C16", "Prop_C16c", "Prop_C16p"])


def replay(ctx, data):
    import qib
    if G.replay_composite(ctx, "C16", data):
        return
    from checks import pauli_flags
    if pauli_flags.replay_flag(ctx, "C16", data):
        return
    inp = data["input"]
    try:
        gate, _ = G.build_gate(qib, G.make_fields(qib), inp)
        U = np.asarray(gate.as_matrix(), dtype=complex)
        bad = bool(gate.is_hermitian()) and not (G.maxabs(U - U.conj().T) <= G.ORACLE_TOL)
    except Exception:
        bad = True
    if bad:
        ctx.fail(data["sig"], inp, data.get("expected"), "still fails")
