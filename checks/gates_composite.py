"""Composite gates (ControlledGate, MultiplexedGate, BlockEncodingGate, TimeEvolutionGate,
PrepareGate, GeneralGate, qUCC) for the properties C01, C02, C03, C16.

Interface:   run(ctx, pid)              called at the end of checks/<pid>.py with the same ctx
             replay(ctx, pid, data)     returns True when data["input"] is one of ours

What happens (see FRAMEWORK.md):
  * static library Gates/Comp*.v (theorems for every number of controls/targets and any nesting depth)
  * gen/gates_comp.py regenerates the closed forms / loop body / layouts / inverse forms from the
    current source; coq/props/<pid>c.v is compiled against them
  * correspondence: random gate TREES are built through the public API, the leaves' numeric
    matrices are taken from the implementation, the composite structure is evaluated by the Coq
    model (exactly over Gaussian integers when every leaf is exact, else on binary64 pairs)
  * oracles on the implementation that do not use the model (bitwise references, U U^dagger = I,
    inverse * U = I, particles, Hermiticity) turn any breakage into a concrete failing input
"""
import os, sys, math, itertools, re
from fractions import Fraction
import numpy as np
from vlib import coqterm as ct
from vlib.core import COQ

HERE = os.path.dirname(os.path.dirname(os.path.abspath(__file__)))
sys.path.insert(0, os.path.join(HERE, "gen"))

PIDS = ("C01", "C02", "C03", "C16")
HEADER = "From Qib Require Import Gates.CompCheck.\nFrom Coq Require Import PrimFloat QArith.\n"
TOL = 1e-9

EXACT_LEAVES = ["I", "X", "Y", "Z", "S", "Sdg"]
FLOAT_LEAVES1 = ["H", "T", "Tdg", "Rx", "Ry", "Rz", "Rot"]
FLOAT_LEAVES2 = ["Rxx", "Ryy", "Rzz"]


# =============================================================================== building gates
class World:
    """fields and particle numbering of one gate tree"""

    def __init__(self, nq):
        import qib
        # registers of even size >= 4 are split over TWO qubit fields (qubits 0..n1-1 in the first, the rest in the
        # second), so that controls / targets / auxiliary qubits of one gate live on different fields
        self.n1 = nq // 2 if (nq >= 4 and nq % 2 == 0) else max(nq, 1)
        self.qf = qib.field.Field(qib.field.ParticleType.QUBIT, qib.lattice.IntegerLattice((self.n1,), pbc=False))
        self.fields = {"q": self.qf}
        self.order = [self.qf]
        self.qf2 = None
        if nq > self.n1:
            self.qf2 = qib.field.Field(qib.field.ParticleType.QUBIT, qib.lattice.IntegerLattice((nq - self.n1,), pbc=False))
            self.fields["q2"] = self.qf2
            self.order.append(self.qf2)

    def q(self, i):
        import qib
        if i < self.n1:
            return qib.field.Qubit(self.qf, i)
        return qib.field.Qubit(self.qf2, i - self.n1)

    def opfield(self, fid, n, fermi):
        import qib
        key = "op%s" % fid
        if key not in self.fields:
            pt = qib.field.ParticleType.FERMION if fermi else qib.field.ParticleType.QUBIT
            f = qib.field.Field(pt, qib.lattice.IntegerLattice((n,), pbc=False))
            self.fields[key] = f
            self.order.append(f)
        return self.fields[key]

    def num(self, p):
        """number of a particle: 100 * (position of its field) + index"""
        for k, f in enumerate(self.order):
            if p.field is f:
                return 100 * k + p.index
        return 9900 + p.index


def build_op(spec, world, own_op=None):
    """own_op: when a dict is given, the parameter containers (Heisenberg J / h as lists or arrays, field-operator coefficient
    array) are the caller's and are collected there"""
    import qib
    from qib.operator import (PauliOperator, PauliString, WeightedPauliString, FieldOperator,
                              FieldOperatorTerm, IFODesc, IFOType, HeisenbergHamiltonian)
    n = spec["n"]
    if spec["op"] == "pauli":
        f = world.opfield(spec["fid"], n, False)
        op = PauliOperator([WeightedPauliString(PauliString.from_string(s), float(w)) for s, w in spec["terms"]])
        op.set_field(f)
        return op
    if spec["op"] == "heis":
        f = world.opfield(spec["fid"], n, False)
        J, hh = [float(v) for v in spec["J"]], [float(v) for v in spec["h"]]
        if own_op is not None:
            if spec.get("as") == "array":
                J, hh = np.array(J), np.array(hh)
            own_op.update(J=J, h=hh)
        return HeisenbergHamiltonian(f, J, hh)
    if spec["op"] == "fermi":
        f = world.opfield(spec["fid"], n, True)
        co = np.array([[complex(a, b) for a, b in row] for row in spec["coeffs"]])
        if own_op is not None:
            own_op.update(coeffs=co)
        term = FieldOperatorTerm([IFODesc(f, IFOType.FERMI_CREATE), IFODesc(f, IFOType.FERMI_ANNIHIL)], co)
        return FieldOperator([term])
    raise ValueError(spec["op"])


def build(spec, world, own=None, form=None, own_op=None):
    """spec (JSON-able) -> gate object through the public API.  own: when a list is given, every numpy array handed to a
    constructor (rotation vector, preparation vector, user-defined matrix) is a caller-owned array and is collected there;
    form(array, kind) (optional) chooses dtype / layout / buffer of these arrays, and `own` then receives (array, kind) pairs"""
    import qib
    from qib.operator import BlockEncodingMethod

    def keep(a, kind=None):
        if form is not None:
            a = form(a, kind)
        if own is not None:
            own.append((a, kind) if form is not None else a)
        return a
    k = spec["k"]
    if k == "leaf":
        nm, q = spec["name"], [world.q(i) for i in spec["q"]]
        P = spec.get("params", [])
        one = {"I": qib.IdentityGate, "X": qib.PauliXGate, "Y": qib.PauliYGate, "Z": qib.PauliZGate,
               "H": qib.HadamardGate, "S": qib.operator.SGate, "Sdg": qib.operator.SAdjGate,
               "T": qib.operator.TGate, "Tdg": qib.operator.TAdjGate, "Sx": qib.operator.SxGate}
        if nm in one:
            return one[nm](*q)
        if nm in ("Rx", "Ry", "Rz"):
            return {"Rx": qib.RxGate, "Ry": qib.RyGate, "Rz": qib.RzGate}[nm](P[0], *q)
        if nm == "Rot":
            return qib.RotationGate(keep(np.array(P, dtype=float), "Rot") if own is not None else list(P), *q)
        if nm in ("Rxx", "Ryy", "Rzz"):
            return {"Rxx": qib.RxxGate, "Ryy": qib.RyyGate, "Rzz": qib.RzzGate}[nm](P[0], *(q if q else [None, None]))
        if nm == "ISwap":
            return qib.operator.ISwapGate(*q)
        if nm == "Phase":
            g = qib.operator.PhaseFactorGate(P[0], spec["n"])
            return g.on(q) if q else g
        raise ValueError(nm)
    if k == "ctrl":
        if spec.get("default_state"):      # ctrl_state omitted: documented default = active on all ones
            assert all(b == 1 for b in spec["pat"])
            g = qib.ControlledGate(build(spec["g"], world, own, form), len(spec["pat"]))
        else:
            g = qib.ControlledGate(build(spec["g"], world, own, form), len(spec["pat"]), list(spec["pat"]))
        if spec["cq"] is not None:
            g.set_control([world.q(i) for i in spec["cq"]])
        return g
    if k == "mux":
        g = qib.MultiplexedGate([build(s, world, own, form) for s in spec["gs"]], spec["nc"])
        if spec["cq"] is not None:
            g.set_control([world.q(i) for i in spec["cq"]])
        return g
    if k == "benc":
        g = qib.BlockEncodingGate(build_op(spec["h"], world, own_op), BlockEncodingMethod[spec["method"]])
        if spec["aux"] is not None:
            g.set_auxiliary_qubits([world.q(i) for i in spec["aux"]])
        return g
    if k == "tevo":
        return qib.TimeEvolutionGate(build_op(spec["h"], world, own_op), float(spec["t"]))
    if k == "prep":
        g = qib.PrepareGate(keep(np.array(spec["vec"], dtype=spec.get("dtype", float)), "prep"), spec["n"], bool(spec["tr"]))
        if spec["q"] is not None:
            g.on([world.q(i) for i in spec["q"]])
        return g
    if k == "gen":
        M = np.array([[complex(a, b) for a, b in row] for row in spec["mat"]])
        if spec.get("dtype"):                  # element type of the user's matrix (default complex128): int64, bool, float32 ...
            M = cast_matrix(M, spec["dtype"])
        M = keep(M, "gen")
        g = qib.GeneralGate(M, spec["n"])
        if spec["q"] is not None:
            g.on([world.q(i) for i in spec["q"]])
        return g
    raise ValueError(k)


def cast_matrix(M, dtype):
    """the complex matrix M as an array of the named dtype (which must hold its entries exactly)"""
    dt = np.dtype(dtype)
    out = M.astype(dt) if dt.kind == "c" else np.ascontiguousarray(M.real).astype(dt)
    if dt.kind != "c" and np.any(M.imag != 0) or not np.array_equal(out.astype(complex), M):
        raise ValueError("dtype %s cannot hold the matrix" % dtype)
    return out


def nqubits_of(spec):
    m = -1
    for key in ("q", "cq", "aux"):
        v = spec.get(key)
        if v:
            m = max(m, max(v))
    if "g" in spec:
        m = max(m, nqubits_of(spec["g"]) - 1)
    for s in spec.get("gs", []):
        m = max(m, nqubits_of(s) - 1)
    return m + 1


def count_nodes(spec):
    return 1 + (count_nodes(spec["g"]) if "g" in spec else 0) + sum(count_nodes(s) for s in spec.get("gs", []))


def depth_of(spec):
    return 1 + max([depth_of(spec["g"])] if "g" in spec else [0] + [depth_of(s) for s in spec.get("gs", [])])


def kinds_of(spec, acc=None):
    acc = acc if acc is not None else []
    acc.append(spec["k"] if spec["k"] != "leaf" else spec["name"])
    if "g" in spec:
        kinds_of(spec["g"], acc)
    for s in spec.get("gs", []):
        kinds_of(s, acc)
    return acc


def dense(a):
    return np.asarray(a.toarray() if hasattr(a, "toarray") else a, dtype=complex)


# =============================================================================== generators
def gen_op(rng, n, fid, normalise, kind=None):
    """random Hermitian operator on n sites; normalise: spectral norm in (0.15, 0.95)"""
    if kind is None or (kind == "heis" and n < 2):
        kind = rng.choice(["pauli", "pauli", "heis", "fermi"] if n >= 2 else ["pauli", "fermi"])
    if kind == "pauli":
        strs = set()
        for _ in range(rng.randint(1, 4)):
            strs.add("".join(rng.choice("IXYZ") for _ in range(n)))
        spec = {"op": "pauli", "n": n, "fid": fid,
                "terms": [[s, round(rng.uniform(-1.5, 1.5), 6)] for s in sorted(strs)]}
    elif kind == "heis":
        spec = {"op": "heis", "n": n, "fid": fid, "J": [round(rng.uniform(-1, 1), 6) for _ in range(3)],
                "h": [round(rng.uniform(-1, 1), 6) for _ in range(3)]}
    else:
        a = [[complex(round(rng.uniform(-1, 1), 6), round(rng.uniform(-1, 1), 6)) for _ in range(n)] for _ in range(n)]
        co = [[(a[i][j] + a[j][i].conjugate()) / 2 for j in range(n)] for i in range(n)]
        spec = {"op": "fermi", "n": n, "fid": fid, "coeffs": [[[c.real, c.imag] for c in row] for row in co]}
    if normalise:
        H = dense(build_op(spec, World(1)).as_matrix())
        nrm = float(np.linalg.norm(H, 2))
        target = rng.uniform(0.15, 0.95)
        s = target / nrm if nrm > 1e-9 else 1.0
        if spec["op"] == "pauli":
            spec["terms"] = [[st, w * s] for st, w in spec["terms"]]
        elif spec["op"] == "heis":
            spec["J"] = [v * s for v in spec["J"]]
            spec["h"] = [v * s for v in spec["h"]]
        else:
            spec["coeffs"] = [[[a * s, b * s] for a, b in row] for row in spec["coeffs"]]
    return spec


def monomial(rng, n):
    """exact unitary with Gaussian-integer entries: permutation times powers of i"""
    N = 2 ** n
    perm = list(range(N))
    rng.shuffle(perm)
    ph = [(1, 0), (0, 1), (-1, 0), (0, -1)]
    M = [[[0, 0] for _ in range(N)] for _ in range(N)]
    for r in range(N):
        a, b = rng.choice(ph)
        M[r][perm[r]] = [a, b]
    return M


def random_unitary(rng, n):
    N = 2 ** n
    A = np.array([[complex(rng.gauss(0, 1), rng.gauss(0, 1)) for _ in range(N)] for _ in range(N)])
    Q, R = np.linalg.qr(A)
    Q = Q * (np.diag(R) / np.abs(np.diag(R)))
    return [[[float(c.real), float(c.imag)] for c in row] for row in Q]


SPECIAL_PATTERNS = [[1, 0], [0, 1], [0, 1, 1], [1, 0, 0], [0, 0], [0], [1, 1, 0, 1], [0, 0, 1]]


class Gen:
    def __init__(self, rng, exact, bind=True):
        self.rng, self.exact, self.bind = rng, exact, bind
        self.fid = 0

    def fresh_fid(self):
        self.fid += 1
        return self.fid

    def leaf(self, w, qubits):
        rng = self.rng
        if w == 1:
            nm = rng.choice(EXACT_LEAVES if self.exact else EXACT_LEAVES[1:] + FLOAT_LEAVES1 * 2)
            spec = {"k": "leaf", "name": nm, "q": list(qubits) if self.bind else []}
            if nm in ("Rx", "Ry", "Rz"):
                spec["params"] = [rng.choice([rng.uniform(-7, 7), 0.0, math.pi, -math.pi / 2, 1e-9, 123.456])]
            if nm == "Rot":
                spec["params"] = [rng.uniform(-2, 2) for _ in range(3)]
            return spec
        if w == 2 and not self.exact and self.bind and rng.random() < 0.5:
            return {"k": "leaf", "name": rng.choice(FLOAT_LEAVES2), "params": [rng.uniform(-4, 4)], "q": list(qubits)}
        return self.general(w, qubits)

    def general(self, w, qubits):
        M = monomial(self.rng, w) if (self.exact or self.rng.random() < 0.3) else random_unitary(self.rng, w)
        return {"k": "gen", "n": w, "mat": M, "q": list(qubits) if self.bind else None}

    def prep(self, w, qubits):
        rng = self.rng
        v = [rng.choice([0.0, rng.uniform(-1, 1), rng.uniform(-1, 1), -abs(rng.uniform(0.1, 1))]) for _ in range(2 ** w)]
        if all(x == 0 for x in v):
            v[rng.randrange(len(v))] = -0.5
        return {"k": "prep", "n": w, "vec": v, "tr": rng.random() < 0.5, "q": list(qubits) if self.bind else None}

    def tree(self, depth, w, qubits, family="qubit", shared=None, opkind=None):
        """a gate with exactly w wires; qubit gates act on `qubits` (len w)"""
        rng = self.rng
        if family == "tevo":
            return {"k": "tevo", "h": gen_op(rng, w, shared, False, opkind), "t": round(rng.uniform(-2, 2), 6)}
        if family == "benc":
            return {"k": "benc", "method": rng.choice(["Wx", "Wxi", "R"]), "h": gen_op(rng, w - 1, shared, True, opkind),
                    "aux": [qubits[0]] if self.bind else None}
        kinds = []
        if depth > 0 and w >= 2:
            kinds += ["ctrl"] * 4 + ["mux"] * 3
            if not self.exact:
                kinds += ["benc"] * (2 if w <= 4 else 0)
            if depth > 1 and w >= 3 and rng.random() < 0.8:
                kinds = ["ctrl"] * 3 + ["mux"] * 2      # keep nesting
        if not self.exact and w <= 3:
            kinds += ["tevo", "prep"]
        if w <= 3:
            kinds += ["gen"]
        if w <= 2:
            kinds += ["leaf"] * (3 if depth == 0 else 1)
        if not kinds:
            kinds = ["ctrl"]
        k = rng.choice(kinds)
        if k == "leaf":
            return self.leaf(w, qubits)
        if k == "gen":
            return self.general(w, qubits)
        if k == "prep":
            return self.prep(w, qubits)
        if k == "tevo":
            return self.tree(depth, w, qubits, "tevo", self.fresh_fid())
        if k == "benc":
            return self.tree(depth, w, qubits, "benc", self.fresh_fid())
        if k == "ctrl":
            room = max(1, w - 1 - max(0, depth - 1))     # leave wires for deeper nesting
            nc = rng.randint(1, min(4, room))
            pat = [rng.randint(0, 1) for _ in range(nc)]
            if rng.random() < 0.35:
                c = [p for p in SPECIAL_PATTERNS if len(p) <= room]
                pat = list(rng.choice(c))
                nc = len(pat)
            return {"k": "ctrl", "pat": pat, "cq": list(qubits[:nc]) if self.bind else None,
                    "g": self.tree(depth - 1, w - nc, qubits[nc:])}
        if k == "mux":
            nc = rng.randint(1, min(3 if depth <= 1 else 2, max(1, w - 1 - max(0, depth - 1))))
            fam = "qubit"
            if not self.exact and rng.random() < 0.25:
                fam = rng.choice(["tevo", "benc"]) if w - nc >= 2 else "tevo"
                if w - nc > 3:
                    fam = "qubit"
            sh = self.fresh_fid() if fam != "qubit" else None
            ok = rng.choice(["pauli", "fermi"]) if fam != "qubit" else None
            gs = [self.tree(depth - 1, w - nc, qubits[nc:], fam, sh, ok) for _ in range(2 ** nc)]
            return {"k": "mux", "nc": nc, "cq": list(qubits[:nc]) if self.bind else None, "gs": gs}
        raise ValueError(k)


def prepare_grid(thorough):
    """PrepareGate on the structured vectors a completion-to-a-basis routine is sensitive to (deterministic, no PRNG):
    basis vectors e_k (all weight on one entry, k = 0 included: 'prepare |0..0>'), negated, un-normalised; near-basis vectors
    (weight 1 - O(1e-9) resp. 1 - O(1e-15) on one entry, tiny entries of both signs); one dominant entry (positive / negative)
    next to small ones; uniform and alternating-sign vectors; 1-3 qubits; plain / transposed; bare, controlled, multiplexed."""
    out = []
    k_tr = 0
    for n in (1, 2, 3):
        N = 2 ** n
        vecs = []
        for k in sorted({0, 1, N - 1}):
            e = [0.0] * N
            e[k] = 1.0
            vecs.append(e)
            vecs.append([-3.0 * x for x in e])                      # negative, un-normalised
            near = [0.0] * N
            near[k] = 1.0
            near[(k + 1) % N] = 1e-9
            if N > 2:
                near[(k + 2) % N] = -1e-9
            vecs.append(near)
            dom = [0.01 * (-1) ** j for j in range(N)]
            dom[k] = 3.0 if k % 2 == 0 else -5.0
            vecs.append(dom)
        tiny = [0.0] * N
        tiny[0], tiny[N - 1] = 1.0, -1e-15
        vecs.append(tiny)
        vecs.append([1.0] * N)
        vecs.append([(-1.0) ** j for j in range(N)])
        if not thorough:
            vecs = vecs[:8] + vecs[-3:] if n == 3 else vecs
        for v in vecs:
            k_tr += 1
            out.append({"k": "prep", "n": n, "vec": v, "tr": k_tr % 2 == 0, "q": list(range(n))})
    # nested: controlled / multiplexed around basis-state and near-basis preparations
    e0 = {"k": "prep", "n": 2, "vec": [1.0, 0.0, 0.0, 0.0], "tr": False, "q": [1, 2]}
    ne = {"k": "prep", "n": 2, "vec": [1.0, 1e-9, 0.0, -1e-9], "tr": True, "q": [1, 2]}
    e3 = {"k": "prep", "n": 2, "vec": [0.0, 0.0, 0.0, -2.0], "tr": False, "q": [1, 2]}
    out.append({"k": "ctrl", "pat": [1], "cq": [0], "g": e0})
    out.append({"k": "ctrl", "pat": [0], "cq": [0], "g": ne})
    out.append({"k": "mux", "nc": 1, "cq": [0], "gs": [e0, e3]})
    return out


def composite_flag_specs(thorough):
    """flags of a composite are DERIVED from its parts: a multiplexer with 0, 1, 2, 3, 4 controls (1, 2, 4, 8, 16 targets) whose
    targets are all Hermitian except ONE, and that one at EVERY index (a loop over the targets with a wrong bound - 2*nc, nc**2,
    2**nc - 1, starting at 1 - skips exactly some of these positions); the all-Hermitian multiplexer (a legitimate claim); the
    same with a composite (controlled S / controlled Z) as target, inside a controlled gate, and for the non-Hermitian target
    taken from every kind of gate (S, T, rotation, user matrix, preparation); controlled gates with 0, 3, 4 controls (no PRNG)"""
    herm = ["X", "Z", "H", "Y", "I"]
    r = 1 / math.sqrt(2)
    nonherm = [lambda q: _leaf("S", q), lambda q: _leaf("T", q), lambda q: _leaf("Rx", q, [0.7]), lambda q: _leaf("Sdg", q),
               lambda q: {"k": "gen", "n": 1, "mat": [[[1, 0], [0, 0]], [[0, 0], [0, 1]]], "q": q},
               lambda q: {"k": "prep", "n": 1, "vec": [0.25, -0.75], "tr": False, "q": q},
               lambda q: _leaf("Rot", q, [0.3, -0.4, 1.2])]
    out = []
    for nc in (0, 1, 2, 3, 4):
        cq, tq = list(range(nc)), [nc]
        hs = [_leaf(herm[(j + nc) % len(herm)], tq) for j in range(2 ** nc)]
        out.append({"k": "mux", "nc": nc, "cq": cq, "gs": hs})
        for k in range(2 ** nc):
            gs = list(hs)
            gs[k] = nonherm[(k + nc) % len(nonherm)](tq)
            out.append({"k": "mux", "nc": nc, "cq": cq, "gs": gs})
            if nc in (0, 3) and (thorough or k % 3 == 0):
                out.append({"k": "ctrl", "pat": [k % 2], "cq": [nc + 1], "g": {"k": "mux", "nc": nc, "cq": cq, "gs": gs}})
    # two-wire composite targets: controlled-Z (Hermitian) everywhere, controlled-S at one index
    for nc in (0, 3):
        cq, c1, tq = list(range(nc)), [nc], [nc + 1]
        cz = {"k": "ctrl", "pat": [1], "cq": c1, "g": _leaf("Z", tq)}
        for k in range(2 ** nc):
            gs = [cz] * (2 ** nc)
            gs[k] = {"k": "ctrl", "pat": [k % 2], "cq": c1, "g": _leaf("S", tq)}
            out.append({"k": "mux", "nc": nc, "cq": cq, "gs": gs})
    # controlled gates: 0, 3, 4 controls, every kind of non-Hermitian target, and a Hermitian one
    for nc in (0, 3, 4):
        for j, mk in enumerate(nonherm + [lambda q: _leaf("Y", q)]):
            pat = [(j >> b) & 1 for b in range(nc)]
            out.append({"k": "ctrl", "pat": pat, "cq": list(range(1, nc + 1)), "g": mk([0])})
    return out


def gen_cases(ctx):
    """list of specs (sorted small first)"""
    rng = ctx.rng
    specs = []
    # all control patterns with up to 4 controls on an exact 1-qubit target (asymmetric target S / Y)
    for nc in range(1, 6 if ctx.thorough else 5):
        for pat in itertools.product([0, 1], repeat=nc):
            q = list(range(nc + 1))
            rng.shuffle(q)
            specs.append({"k": "ctrl", "pat": list(pat), "cq": q[:nc],
                          "g": {"k": "leaf", "name": rng.choice(["S", "Y", "X"]), "q": [q[nc]]}})
    # nested controlled-of-controlled, controlled multiplexer, multiplexer of controlled
    specs.append({"k": "ctrl", "pat": [1, 0], "cq": [3, 1],
                  "g": {"k": "ctrl", "pat": [0, 1], "cq": [0, 4], "g": {"k": "leaf", "name": "Y", "q": [2]}}})
    specs.append({"k": "ctrl", "pat": [0], "cq": [2],
                  "g": {"k": "mux", "nc": 2, "cq": [0, 3],
                        "gs": [{"k": "leaf", "name": n, "q": [1]} for n in ("X", "S", "Z", "Y")]}})
    specs.append({"k": "mux", "nc": 1, "cq": [0],
                  "gs": [{"k": "ctrl", "pat": [0, 1], "cq": [1, 2], "g": {"k": "leaf", "name": "S", "q": [3]}},
                         {"k": "ctrl", "pat": [1, 0], "cq": [1, 2], "g": {"k": "leaf", "name": "H", "q": [3]}}]})
    # ctrl_state omitted (documented default: active when all controls are 1), 1-3 controls, asymmetric target
    for nc in (1, 2, 3):
        specs.append({"k": "ctrl", "pat": [1] * nc, "default_state": True, "cq": list(range(1, nc + 1)),
                      "g": {"k": "leaf", "name": "S", "q": [0]}})
    # degenerate sizes: 0 controls (controlled gate = its target, multiplexer of one target), also nested
    specs.append({"k": "ctrl", "pat": [], "cq": [], "g": {"k": "leaf", "name": "S", "q": [0]}})
    specs.append({"k": "mux", "nc": 0, "cq": [], "gs": [{"k": "leaf", "name": "Y", "q": [0]}]})
    specs.append({"k": "ctrl", "pat": [1], "cq": [1],
                  "g": {"k": "mux", "nc": 0, "cq": [],
                        "gs": [{"k": "ctrl", "pat": [], "cq": [], "g": {"k": "leaf", "name": "H", "q": [0]}}]}})
    # block encodings of random Hermitian H, each method, bare and controlled; time evolution; prepare
    for method in ("Wx", "Wxi", "R"):
        for n in (1, 2):
            specs.append({"k": "benc", "method": method, "h": gen_op(rng, n, 1, True), "aux": [0]})
        specs.append({"k": "ctrl", "pat": [0, 1], "cq": [2, 0],
                      "g": {"k": "benc", "method": method, "h": gen_op(rng, 1, 1, True), "aux": [1]}})
    for n in (1, 2, 3):
        specs.append({"k": "tevo", "h": gen_op(rng, n, 1, False), "t": round(rng.uniform(-3, 3), 6)})
    for n in (1, 2, 3):
        for tr in (False, True):
            specs.append(Gen(rng, False).prep(n, list(range(n))) | {"tr": tr})
    specs.append({"k": "prep", "n": 2, "vec": [0.5, -0.25, 0.0, 0.25], "tr": False, "q": [1, 0]})
    specs.append({"k": "prep", "n": 1, "vec": [-3.0, 0.0], "tr": True, "q": [0]})
    specs += prepare_grid(ctx.thorough)
    # random trees
    ntrees = 700 if ctx.thorough else 56
    maxw = 6 if ctx.thorough else 5
    for i in range(ntrees):
        exact = rng.random() < 0.4
        bind = rng.random() < 0.85
        w = rng.randint(2, maxw if rng.random() < 0.35 else maxw - 1)
        depth = rng.randint(1, 4)
        q = list(range(w))
        rng.shuffle(q)
        g = Gen(rng, exact, bind)
        s = g.tree(depth, w, q)
        if s["k"] in ("leaf",):
            s = {"k": "ctrl", "pat": [rng.randint(0, 1)], "cq": [w] if bind else None, "g": s}
        specs.append(s)
    specs.sort(key=count_nodes)
    return specs


# =============================================================================== model terms
def is_gauss_int(M):
    return bool(np.all(M.real == np.round(M.real)) and np.all(M.imag == np.round(M.imag)) and np.all(np.abs(M) < 2 ** 31))


class Term:
    """builds the Coq term of a gate tree from the objects the implementation holds"""

    def __init__(self, world, exact):
        self.world, self.exact = world, exact

    def mat(self, M):
        M = dense(M)
        return ("(zm %s)" % ct.zimat(M)) if self.exact else ("(fm %s)" % ct.fimat(M))

    def rows(self, M):
        M = dense(M)
        return ct.zimat(M) if self.exact else ct.fimat(M)

    def nums(self, ps):
        return ct.lst([ct.nat(self.world.num(p)) for p in ps])

    def op_particles(self, h):
        import qib
        ps = []
        for f in h.fields():
            ps += [qib.field.Particle(f, i) for i in range(f.lattice.nsites)]
        return ps

    def term(self, g, spec=None):
        """spec (when given) is the description the gate was built from: control patterns, numbers of controls and
        the order of multiplexer targets are taken from it (what was asked for), not from the object's attributes"""
        import qib
        from scipy.linalg import sqrtm
        T = type(g).__name__
        if T == "ControlledGate":
            ok = spec is not None and spec.get("k") == "ctrl"
            pat = spec["pat"] if ok else g.ctrl_state
            return "(Ctrl %s %s %s)" % (ct.bits(pat), self.nums(g.control_qubits), self.term(g.target_gate(), spec["g"] if ok else None))
        if T == "MultiplexedGate":
            ok = spec is not None and spec.get("k") == "mux" and len(spec["gs"]) == len(g.target_gates())
            return "(Mux %s %s %s)" % (ct.nat(spec["nc"] if ok else g.num_controls), self.nums(g.control_qubits),
                                       ct.lst([self.term(t, spec["gs"][i] if ok else None) for i, t in enumerate(g.target_gates())]))
        if self.exact or T not in ("BlockEncodingGate", "TimeEvolutionGate", "PrepareGate", "GeneralGate"):
            if T == "GeneralGate":
                return "(Gen %s %s %s %s)" % (ct.nat(g.num_wires), self.mat(g.as_matrix()), ct.b(g.is_hermitian()),
                                              self.nums(g.particles()))
            return "(Leaf %s %s %s %s %s)" % (ct.nat(g.num_wires), self.mat(g.as_matrix()), self.mat(g.inverse().as_matrix()),
                                              ct.b(g.is_hermitian()), self.nums(g.particles()))
        if T == "BlockEncodingGate":
            H = dense(g.encoded_operator().as_matrix())
            S = sqrtm(np.identity(H.shape[0]) - H @ H)
            n = int(round(math.log2(H.shape[0])))
            return "(BEnc %s %s %s %s %s %s)" % ({"Wx": "Wx", "Wxi": "Wxi", "R": "BR"}[g.method.name], ct.nat(n),
                                                 self.mat(H), self.mat(S), self.nums(g.auxiliary_qubits),
                                                 self.nums(self.op_particles(g.encoded_operator())))
        if T == "TimeEvolutionGate":
            H = dense(g.h.as_matrix())
            n = int(round(math.log2(H.shape[0])))
            return "(TEvo %s %s %s %s %s %s)" % (ct.nat(n), self.mat(H), ct.fi(g.t), self.mat(g.as_matrix()),
                                                 self.mat(g.inverse().as_matrix()), self.nums(self.op_particles(g.h)))
        if T == "PrepareGate":
            x = np.sign(g.vec) * np.sqrt(np.abs(g.vec))
            Q0 = np.linalg.qr(x.reshape((-1, 1)), mode="complete")[0]
            flip = bool(np.dot(x, Q0[:, 0]) < 0)
            return "(Prep %s %s %s %s %s)" % (ct.nat(g.nqubits), self.mat(Q0), ct.b(flip), ct.b(g.transpose), self.nums(g.qubits))
        if T == "GeneralGate":
            return "(Gen %s %s %s %s)" % (ct.nat(g.num_wires), self.mat(g.as_matrix()), ct.b(g.is_hermitian()),
                                          self.nums(g.particles()))
        raise ValueError(T)


def tree_is_exact(g):
    T = type(g).__name__
    if T == "ControlledGate":
        return tree_is_exact(g.target_gate())
    if T == "MultiplexedGate":
        return all(tree_is_exact(t) for t in g.target_gates())
    if T in ("BlockEncodingGate", "TimeEvolutionGate", "PrepareGate"):
        return False
    return is_gauss_int(dense(g.as_matrix())) and is_gauss_int(dense(g.inverse().as_matrix()))


def particles_or_none(g, world):
    try:
        ps = g.particles()
    except Exception:
        return None
    return [world.num(p) for p in ps]


def opt_nums(v):
    return "None" if v is None else "(Some %s)" % ct.lst([ct.nat(x) for x in v])


# =============================================================================== oracles
def bits_of(k, n):
    return [(k >> (n - 1 - j)) & 1 for j in range(n)]


def ref_matrix(g, spec=None):
    """independent reference for the composite structure (leaves = what the leaves report); control patterns and
    numbers of controls come from the description the gate was built from when it is given"""
    T = type(g).__name__
    if T == "ControlledGate":
        ok = spec is not None and spec.get("k") == "ctrl"
        U = ref_matrix(g.target_gate(), spec["g"] if ok else None)
        pat = [int(b) for b in (spec["pat"] if ok else g.ctrl_state)]
        nc = len(pat)
        nt = int(round(math.log2(U.shape[0])))
        N = 2 ** (nc + nt)
        M = np.zeros((N, N), dtype=complex)
        for r in range(N):
            rb = bits_of(r, nc + nt)
            for c in range(N):
                cb = bits_of(c, nc + nt)
                if rb[:nc] == pat and cb[:nc] == pat:
                    M[r, c] = U[r % 2 ** nt, c % 2 ** nt]
                else:
                    M[r, c] = 1.0 if r == c else 0.0
        return M
    if T == "MultiplexedGate":
        ok = spec is not None and spec.get("k") == "mux" and len(spec["gs"]) == len(g.target_gates())
        Us = [ref_matrix(t, spec["gs"][i] if ok else None) for i, t in enumerate(g.target_gates())]
        d = Us[0].shape[0]
        N = d * 2 ** (spec["nc"] if ok else g.num_controls)
        M = np.zeros((N, N), dtype=complex)
        for r in range(N):
            for c in range(N):
                if r // d == c // d:
                    M[r, c] = Us[r // d][r % d, c % d]
        return M
    return dense(g.as_matrix())


def walk(g):
    yield g
    T = type(g).__name__
    if T == "ControlledGate":
        yield from walk(g.target_gate())
    if T == "MultiplexedGate":
        for t in g.target_gates():
            yield from walk(t)


def maxerr(A, B):
    A, B = np.asarray(A), np.asarray(B)
    if A.shape != B.shape:
        return float("inf")
    d = np.abs(A - B)
    if np.any(np.isnan(d)):
        return float("inf")
    return float(np.max(d)) if d.size else 0.0


def oracle(ctx, pid, spec, g, world, fail):
    """runs the oracles of property `pid` on gate g; fail(sig, expected, observed)"""
    kind = spec["k"]
    U = dense(g.as_matrix())
    nw = g.num_wires
    if pid == "C01":
        if U.shape != (2 ** nw, 2 ** nw):
            fail("as_matrix:shape-not-2^num_wires:" + kind, (2 ** nw, 2 ** nw), U.shape)
        elif maxerr(U @ U.conj().T, np.eye(U.shape[0])) > TOL:
            fail("as_matrix:not-unitary:" + kind, "U U^dagger = I", maxerr(U @ U.conj().T, np.eye(U.shape[0])))
        if not g.is_unitary():
            fail("is_unitary:false:" + kind, True, False)
    if pid == "C02":
        R = ref_matrix(g, spec)
        if maxerr(U, R) > TOL:
            fail("as_matrix:differs-from-bitwise-reference:" + kind, "U on the control pattern (MSB first) / k-th block", maxerr(U, R))
        for s in walk(g):
            T = type(s).__name__
            if T == "BlockEncodingGate":
                H = dense(s.encoded_operator().as_matrix())
                B = dense(s.as_matrix())
                if maxerr(B[:H.shape[0], :H.shape[0]], H) > TOL:
                    fail("benc:top-left-block-not-H:" + s.method.name, "H", maxerr(B[:H.shape[0], :H.shape[0]], H))
            if T == "PrepareGate":
                v = np.array(s.vec, dtype=float)
                v = v / np.sum(np.abs(v))
                x = np.sign(v) * np.sqrt(np.abs(v))
                Q = dense(s.as_matrix())
                col = Q[0, :] if s.transpose else Q[:, 0]
                if maxerr(col, x) > TOL:
                    fail("prep:first-column-not-sign-sqrt", "sign(v) sqrt|v|", maxerr(col, x))
            if T == "TimeEvolutionGate":
                H = dense(s.h.as_matrix())
                w, V = np.linalg.eigh((H + H.conj().T) / 2)
                E = V @ np.diag(np.exp(-1j * s.t * w)) @ V.conj().T
                if maxerr(dense(s.as_matrix()), E) > 1e-8:
                    fail("tevo:not-exp(-itH)", "exp(-i t H)", maxerr(dense(s.as_matrix()), E))
    if pid == "C03":
        try:
            inv = g.inverse()
            Ui = dense(inv.as_matrix())
        except Exception as e:
            fail("inverse:raises:" + kind, "a gate", repr(e))
            return
        if maxerr(Ui @ U, np.eye(U.shape[0])) > TOL or maxerr(U @ Ui, np.eye(U.shape[0])) > TOL:
            fail("inverse:not-inverse:" + kind, "inverse().as_matrix() @ as_matrix() = I", maxerr(Ui @ U, np.eye(U.shape[0])))
        if inv.num_wires != nw:
            fail("inverse:num_wires-differs:" + kind, nw, inv.num_wires)
        p0, p1 = particles_or_none(g, world), particles_or_none(inv, world)
        if p0 != p1:
            fail("inverse:particles-differ:" + kind, p0, p1)
        # whole circuits (only when every particle is bound and the register is small)
        if p0 is not None and len(p0) == nw:
            import qib
            try:
                fields = g.fields()
                if sum(f.lattice.nsites for f in fields) <= 9:
                    C = qib.Circuit([g])
                    P = dense(C.inverse().as_matrix(fields)) @ dense(C.as_matrix(fields))
                    if maxerr(P, np.eye(P.shape[0])) > TOL:
                        fail("circuit-inverse:not-inverse:" + kind, "I", maxerr(P, np.eye(P.shape[0])))
            except Exception as e:
                fail("circuit-inverse:raises:" + kind, "matrix of C.inverse()", repr(e)[:200])
    if pid == "C16":
        if g.is_hermitian() and maxerr(U, U.conj().T) > TOL:
            fail("is_hermitian:true-but-matrix-not-hermitian:" + kind, "U = U^dagger", maxerr(U, U.conj().T))
        for s in walk(g):
            if type(s).__name__ == "GeneralGate":
                M = dense(s.as_matrix())
                want = bool(np.all(np.abs(M - M.conj().T) <= 1e-8 + 1e-5 * np.abs(M.conj().T)))
                if bool(s.is_hermitian()) != want:
                    fail("general:is_hermitian-not-iff-allclose", want, bool(s.is_hermitian()))


# =============================================================================== special inputs
def special_inputs(ctx, pid):
    """the inputs of the reproduced defects + GeneralGate tolerance + qUCC"""
    import qib
    X, Y, Z = qib.PauliXGate, qib.PauliYGate, qib.PauliZGate
    if pid == "C01":
        for spec in ({"comp": True, "what": "mux_ctor", "targets": 3, "nc": 1},
                     {"comp": True, "what": "mux_ctor", "targets": 1, "nc": 1},
                     {"comp": True, "what": "mux_ctor", "targets": 5, "nc": 2},
                     {"comp": True, "what": "mux_wires", "nc": 1}):
            run_special(ctx, pid, spec)
        run_special(ctx, pid, {"comp": True, "what": "prep_zero", "n": 2})
        for exc in ("s", "d", "sd"):
            for n in ((2, 3) if ctx.thorough else (2,)):
                npar = {"s": n ** 2, "d": n ** 4, "sd": n ** 2 + n ** 4}[exc]
                params = [round(ctx.rng.uniform(-1, 1), 6) for _ in range(npar)]
                run_special(ctx, pid, {"comp": True, "what": "qucc", "exc": exc, "n": n, "params": params})
                # complex amplitudes: the generator T - T^dagger is anti-Hermitian for every parameter vector
                cparams = [[round(ctx.rng.uniform(-1, 1), 6), round(ctx.rng.uniform(-1, 1), 6)] for _ in range(npar)]
                run_special(ctx, pid, {"comp": True, "what": "qucc", "exc": exc, "n": n, "cparams": cparams})
    if pid == "C03":
        run_special(ctx, pid, {"comp": True, "what": "general_inverse_particles", "n": 2})
        run_special(ctx, pid, {"comp": True, "what": "circuit_with_general", "n": 1})


def run_special(ctx, pid, inp):
    import qib
    what = inp["what"]
    ctx.count("special_" + what)
    if what == "mux_ctor":
        gates = [qib.PauliXGate(), qib.PauliYGate(), qib.PauliZGate(), qib.HadamardGate(), qib.PauliXGate()][:inp["targets"]]
        try:
            m = qib.MultiplexedGate(gates, inp["nc"])
        except ValueError:
            return
        try:
            shp = dense(m.as_matrix()).shape
        except Exception as e:
            shp = repr(e)
        if shp != (2 ** m.num_wires, 2 ** m.num_wires):
            ctx.fail("MultiplexedGate:accepts-wrong-number-of-targets", inp,
                     "ValueError, or a %d x %d matrix" % (2 ** m.num_wires, 2 ** m.num_wires), shp)
    elif what == "mux_wires":
        try:
            m = qib.MultiplexedGate([qib.PauliXGate(), qib.ControlledGate(qib.PauliXGate(), 1)], inp["nc"])
        except ValueError:
            return
        shp = dense(m.as_matrix()).shape
        if shp != (2 ** m.num_wires, 2 ** m.num_wires):
            ctx.fail("MultiplexedGate:accepts-targets-of-unequal-size", inp,
                     "ValueError, or a %d x %d matrix" % (2 ** m.num_wires, 2 ** m.num_wires), shp)
    elif what == "prep_zero":
        try:
            g = qib.PrepareGate(np.zeros(2 ** inp["n"]), inp["n"])
            U = dense(g.as_matrix())
        except Exception:
            return
        if not maxerr(U @ U.conj().T, np.eye(U.shape[0])) <= TOL:
            ctx.fail("PrepareGate:zero-vector-gives-nan-matrix", inp, "ValueError or a unitary", "matrix of NaN")
    elif what == "qucc":
        from qib.algorithms.vqe.ansatz import qUCC
        n = inp["n"]
        f = qib.field.Field(qib.field.ParticleType.FERMION, qib.lattice.IntegerLattice((n,), pbc=False))
        a = qUCC(f, inp["exc"])
        params = inp["params"] if "params" in inp else [complex(re, im) for re, im in inp["cparams"]]
        U = dense(a.as_matrix(params))
        if U.shape != (2 ** n, 2 ** n) or maxerr(U @ U.conj().T, np.eye(U.shape[0])) > TOL or not a.is_unitary():
            ctx.fail("qUCC:not-unitary:" + inp["exc"], inp, "unitary", maxerr(U @ U.conj().T, np.eye(U.shape[0])))
        ctx.nontriv(("qucc", inp["exc"], n))
    elif what == "general_inverse_particles":
        w = World(3)
        M = np.array([[0, 1, 0, 0], [0, 0, 1j, 0], [0, 0, 0, 1], [1, 0, 0, 0]])
        g = qib.GeneralGate(M, 2).on(w.q(2), w.q(0))
        p0, p1 = [w.num(p) for p in g.particles()], [w.num(p) for p in g.inverse().particles()]
        if p0 != p1:
            ctx.fail("inverse:particles-differ:gen", inp, p0, p1)
    elif what == "circuit_with_general":
        w = World(2)
        g = qib.GeneralGate(np.array([[0, 1j], [1, 0]]), 1).on(w.q(1))
        C = qib.Circuit([qib.HadamardGate(w.q(0)), g])
        try:
            P = dense(C.inverse().as_matrix([w.qf])) @ dense(C.as_matrix([w.qf]))
            if maxerr(P, np.eye(4)) > TOL:
                ctx.fail("circuit-inverse:not-inverse:gen", inp, "I", maxerr(P, np.eye(4)))
        except Exception as e:
            ctx.fail("circuit-inverse:raises:gen", inp, "matrix of C.inverse()", repr(e)[:200])


# ---------------------------------------------------------------- GeneralGate decision rule
def frac_rows(M):
    return ct.lst([ct.lst([ct.pair(ct.q(Fraction(float(c.real))), ct.q(Fraction(float(c.imag)))) for c in row]) for row in M])


def general_cases(ctx, pid):
    """constructor accept/reject and is_hermitian around the numpy tolerances; exact rationals"""
    import qib, inspect
    rng = ctx.rng
    cases = []
    sig = inspect.signature(np.allclose)
    cases.append(("GTol %s %s" % (ct.q(Fraction(float(sig.parameters["rtol"].default))),
                                  ct.q(Fraction(float(sig.parameters["atol"].default)))),
                  {"kind": "allclose-defaults"}))
    mats = []
    e_diag = math.sqrt(1 + (1e-8 + 1e-5)) - 1       # (1+e)^2 - 1 = atol + rtol
    for d in (-0.5, -1e-3, -1e-5, 1e-5, 1e-3, 0.5, 3.0):
        e = e_diag * (1 + d)
        for n in (1, 2):
            N = 2 ** n
            perm = list(range(N))
            rng.shuffle(perm)
            M = np.zeros((N, N), dtype=complex)
            j = rng.randrange(N)
            for r in range(N):
                M[r, perm[r]] = rng.choice([1, 1j, -1, -1j]) * ((1 + e) if r == j else 1.0)
            mats.append((n, M, "diag"))
            M2 = M.copy()
            M2[j, perm[j]] = M2[j, perm[j]] / (1 + e) * (1 - e)
            mats.append((n, M2, "diag-"))
    for d in (-0.5, -1e-3, -1e-5, 1e-5, 1e-3, 0.5):
        e = 1e-8 * (1 + d)
        mats.append((1, np.array([[1, e], [0, 1]], dtype=complex), "shear"))
        mats.append((2, np.kron(np.eye(2), np.array([[1, 0], [-e, 1]], dtype=complex)), "shear"))
    e_h = 1e-8 / (2 - 1e-5)                         # 2e = atol + rtol e
    for d in (-0.5, -1e-3, -1e-5, 1e-5, 1e-3, 0.5, 100.0):
        e = e_h * (1 + d)
        mats.append((1, np.array([[1, 1j * e], [1j * e, 1]], dtype=complex), "antiherm-offdiag"))
        mats.append((1, np.array([[1, e], [-e, 1]], dtype=complex), "antisym-offdiag"))
    mats.append((1, np.array([[0, 1], [1, 0]], dtype=complex), "X"))
    mats.append((1, np.array([[1, 0], [0, 1j]], dtype=complex), "S"))
    mats.append((1, np.array([[1, 1], [1, -1]], dtype=complex), "H-unnormalised"))
    mats.append((2, np.eye(2, dtype=complex), "wrong-shape"))
    mats.append((1, np.eye(4, dtype=complex), "wrong-shape"))
    for n, M, kind in mats:
        desc = {"comp": True, "what": "general", "n": n, "kind": kind, "mat": [[[float(c.real), float(c.imag)] for c in row] for row in M]}
        ctx.count("general_" + kind)
        try:
            g = qib.GeneralGate(M, n)
            acc = True
        except ValueError:
            acc = False
        cases.append(("GAccept %s %s %s" % (ct.nat(n), frac_rows(M), ct.b(acc)), dict(desc, op="ctor")))
        ctx.nontriv(("general", kind, n, acc))
        if acc:
            h = bool(g.is_hermitian())
            cases.append(("GHerm %s %s %s" % (ct.nat(n), frac_rows(M), ct.b(h)), dict(desc, op="is_hermitian")))
            U = dense(g.as_matrix())
            # oracle (implementation only): accepted => allclose(M M^dagger, I) with numpy's documented rule
            D = np.abs(U @ U.conj().T - np.eye(U.shape[0]))
            if pid == "C01" and not np.all(D <= 1e-8 + 1e-5 * np.eye(U.shape[0])):
                ctx.fail("general:accepted-but-not-allclose-unitary", desc, "|M M^dagger - I| <= 1e-8 + 1e-5 I", float(D.max()))
            want = bool(np.all(np.abs(U - U.conj().T) <= 1e-8 + 1e-5 * np.abs(U.conj().T)))
            if pid == "C16" and h != want:
                ctx.fail("general:is_hermitian-not-iff-allclose", desc, want, h)
        elif pid == "C01" and kind != "wrong-shape":
            D = np.abs(M @ M.conj().T - np.eye(M.shape[0]))
            if np.all(D <= (1e-8 + 1e-5 * np.eye(M.shape[0])) * (1 - 1e-6)):
                ctx.fail("general:rejects-allclose-unitary", desc, "accepted", "ValueError")
    return cases


# =============================================================================== entry points
def check_tree(ctx, pid, spec, cases_zi, cases_fi, only_oracle=False):
    world = World(nqubits_of(spec))
    desc = {"comp": True, "what": "tree", "spec": spec}
    try:
        g = build(spec, world)
    except Exception as e:
        ctx.fail("tree:construction-raises:" + spec["k"], desc, "a gate", repr(e)[:200])
        return
    kinds = kinds_of(spec)
    for k in set(kinds):
        ctx.count("node_" + k)
    ctx.count("depth=%d" % depth_of(spec))
    ctx.count("wires=%d" % g.num_wires)

    def fail(sig, expected, observed):
        ctx.fail(sig, desc, expected, observed)

    try:
        oracle(ctx, pid, spec, g, world, fail)
    except Exception as e:
        ctx.fail("oracle:raises:" + spec["k"], desc, "oracle evaluates", repr(e)[:300])
        return
    if only_oracle:
        return
    try:
        exact = tree_is_exact(g)
        T = Term(world, exact)
        inv = g.inverse()
        term = T.term(g, spec)
        U, Ui = dense(g.as_matrix()), dense(inv.as_matrix())
        # particles are compared for C03 only (they are not part of the other three properties)
        parts = particles_or_none(g, world) if pid == "C03" else None
        iparts = particles_or_none(inv, world) if pid == "C03" else None
        args = [term, ct.nat(g.num_wires), ct.nat(U.shape[0]), T.rows(U), ct.b(g.is_hermitian()), ct.nat(inv.num_wires),
                T.rows(Ui), opt_nums(parts), opt_nums(iparts)]
        assumption_checks(ctx, g)
    except Exception as e:
        ctx.fail("tree:observation-raises:" + spec["k"], desc, "matrix / inverse / flags", repr(e)[:300])
        return
    (cases_zi if exact else cases_fi).append((("zcase " if exact else "fcase ") + " ".join(args), desc))
    ctx.count("exact" if exact else "float")
    claims = bool(g.is_hermitian())
    ctx.count("tree_claims_hermitian" if claims else "tree_claims_not_hermitian")
    # C16 is about the trees that CLAIM to be Hermitian: only those count as non-trivial there
    if depth_of(spec) >= 2 and (pid != "C16" or claims):
        ctx.nontriv(repr(spec)[:4000])
    if (depth_of(spec) >= 3 and (pid != "C16" or claims)) or len(ctx.samples) < 4:
        ctx.sample({"kinds": kinds[:12], "wires": g.num_wires, "depth": depth_of(spec), "exact": exact, "claims_hermitian": claims,
                    "spec": spec if count_nodes(spec) <= 6 else "(large)"}, cap=5)


ASSUME = {"sqrtm": [0, 0], "qr": [0, 0]}


def assumption_checks(ctx, g):
    """the modelled meaning of scipy.linalg.sqrtm / np.linalg.qr, checked numerically on every instance"""
    from scipy.linalg import sqrtm
    for s in walk(g):
        T = type(s).__name__
        if T == "BlockEncodingGate":
            H = dense(s.encoded_operator().as_matrix())
            S = sqrtm(np.identity(H.shape[0]) - H @ H)
            ok = (maxerr(S, S.conj().T) < 1e-9 and maxerr(H @ S, S @ H) < 1e-9
                  and maxerr(S @ S, np.identity(H.shape[0]) - H @ H) < 1e-9 and maxerr(H, H.conj().T) < 1e-12)
            ASSUME["sqrtm"][0 if ok else 1] += 1
        if T == "PrepareGate":
            x = np.sign(s.vec) * np.sqrt(np.abs(s.vec))
            Q0 = np.linalg.qr(x.reshape((-1, 1)), mode="complete")[0]
            ok = (np.isrealobj(Q0) and maxerr(Q0 @ Q0.T, np.identity(len(x))) < 1e-9
                  and min(maxerr(Q0[:, 0], x), maxerr(Q0[:, 0], -x)) < 1e-9)
            ASSUME["qr"][0 if ok else 1] += 1


def forbidden_gate(ctx, path):
    txt = open(path).read()
    bad = re.findall(r"\b(Admitted|admit|Axiom|Parameter|Conjecture|Unset Guard|bypass_check|type-in-type)\b", txt)
    ctx.oblige("no-forbidden-constructs:" + os.path.basename(path), "gate", not bad, "found: %s" % bad)


def run(ctx, pid):
    assert pid in PIDS
    import gates_comp as gen_gates_comp
    ctx.trusted.append(
        pid + " composite gates: the recursion over the gate tree (a composite applies its closed form to the matrices its "
        "parts report), num_wires/particles bookkeeping and the GeneralGate decision procedure are hand-modelled "
        "(Qib.Gates.CompModel) and tied by correspondence; the control-index loop body, kron/diag placement, block_diag, "
        "np.block layouts, sqrtm/expm arguments, Prepare flip/transpose logic, is_hermitian bodies, inverse() forms and the "
        "MultiplexedGate constructor guards are regenerated from the source (gen/gates_comp.py)")
    ctx.trusted.append(
        pid + " composite gates, modelled numpy/scipy meanings: np.kron/np.diag/np.block/block_diag/np.identity/.T/.conj() as the "
        "usual index formulas; scipy.linalg.sqrtm(1-H^2) = a Hermitian S with S S = 1 - H H commuting with H (checked numerically "
        "on every generated H); np.linalg.qr(x) = real orthogonal Q whose first column is +-x for unit x; scipy.linalg.expm = the "
        "matrix exponential, for which 'exp of anti-Hermitian is unitary' and 'exp(A^dagger) = exp(A)^dagger' are background "
        "mathematics (hypotheses of the theorems, not proved); np.allclose(a,b) = all |a-b| <= atol + rtol|b|")
    ctx.assumes.append("gate leaves are abstract: the nesting theorems assume each elementary leaf is unitary, its inverse() reports the "
                       "adjoint and its Hermiticity flag is sound (that is the elementary part of " + pid + "); coq/props/C01t.v (compiled by "
                       "./check C01) discharges these hypotheses for every elementary class from the regenerated templates, at all real parameters")
    ctx.rules.append(
        "composite: all control patterns with <= %d controls; random gate trees through the public API (depth <= 4, <= %d wires, "
        "controlled / multiplexed (1-3 controls) / block-encoding (3 methods, random Hermitian H, norm < 1) / time evolution / "
        "prepare (negative, zero entries) / general / elementary leaves, bound and unbound particles); GeneralGate matrices around "
        "the allclose tolerances; 0-control controlled gates and 1-target multiplexers; control state omitted (default); PrepareGate on basis / "
        "near-basis / one-dominant-entry vectors (1-3 qubits, transposed, controlled, multiplexed); gates over by-reference operators "
        "along histories (as_matrix, re-parametrise the operator in place, as_matrix again; inverse / copy / controlled made before and "
        "after); C02 only: 9-%d controls on a 1-qubit target against the bitwise reference (numpy only). non-trivial = tree of depth >= 2 (for C16: "
        "one that claims to be Hermitian), or a distinct tolerance case" % ((5, 6, 10) if ctx.thorough else (4, 5, 10)))
    ctx.lib(["Gates/CompCheck", "Gates/CompProofs"])
    src = os.path.join(COQ, "props", pid + "c.v")
    forbidden_gate(ctx, src)
    for f in ("CompModel", "CompCtrl", "CompBlock", "CompProofs", "CompCheck"):
        forbidden_gate(ctx, os.path.join(COQ, "theories", "Gates", f + ".v"))
    # C03 also translates Circuit.inverse (circuit.py); the other three properties do not depend on it
    ok = ctx.translate("GenGatesComp", lambda: gen_gates_comp.generate(circuit=(pid == "C03")))
    if ok:
        ctx.props(src)
    else:
        ctx.oblige("props:" + pid + "c", "theorem", False, "not compiled: translator failed")

    cases_zi, cases_fi = [], []
    for k in ASSUME:
        ASSUME[k] = [0, 0]
    for spec in gen_cases(ctx):
        check_tree(ctx, pid, spec, cases_zi, cases_fi)
    ctx.rules.append("composite flags: multiplexers with 0-4 controls whose single non-Hermitian target (S, T, Sdg, rotation, user matrix, "
                     "preparation; controlled-S among controlled-Z) sits at EVERY index, all-Hermitian ones, inside a controlled gate; "
                     "controlled gates with 0, 3, 4 controls over every kind of target (oracles of the property only)")
    for spec in composite_flag_specs(ctx.thorough):
        ctx.count("composite_flag_specs")
        check_tree(ctx, pid, spec, [], [], only_oracle=True)
        # C16: only the trees that (rightly) claim to be Hermitian count as non-trivial
        if pid != "C16" or all(k in ("X", "Z", "H", "Y", "I", "ctrl", "mux") for k in kinds_of(spec)):
            ctx.nontriv(("composite-flags", repr(spec)[:3000]))
    for k in ASSUME:
        ctx.oblige("assumption:%s-meets-its-modelled-specification" % k, "assumption", ASSUME[k][1] == 0,
                   "%d of %d instances violate it" % (ASSUME[k][1], sum(ASSUME[k])))
        ctx.count("assumption_%s_instances" % k, sum(ASSUME[k]))
    special_inputs(ctx, pid)
    history_checks(ctx, pid)
    generator_checks(ctx, pid)
    layout_checks(ctx, pid)
    mixed_dtype_checks(ctx, pid)
    object_history_checks(ctx, pid)
    if pid == "C02":
        wide_control_checks(ctx)
    gcases = general_cases(ctx, pid) if pid in ("C01", "C16") else []
    for suite, cs, fn, shard in (("comp_zi", cases_zi, "bad_cases_zi", 12), ("comp_fi", cases_fi, "bad_cases_fi", 6),
                                 ("comp_general", gcases, "bad_cases_g", 40)):
        dis = ctx.cases(suite, HEADER, cs, fn=fn, shard=shard)
        for i, d in dis[:4]:
            ctx.log("model/impl disagree (%s):" % suite, str(d)[:300])
        # a disagreement is searched for a concrete failing input with ALL oracles of this property
        for i, d in dis:
            if d.get("what") == "tree":
                check_tree(ctx, pid, d["spec"], [], [], only_oracle=True)


# =============================================================================== wide controlled gates (numpy only)
def check_wide_control(ctx, inp):
    """9-11 controls on a 1-qubit target: too large for the Coq case files (and not needed: the theorem is for every number
    of controls), but an index computed in a narrow integer type only goes wrong here.  Bitwise reference: identity everywhere
    except the 2x2 target block at the rows/columns whose control bits (most significant first) equal the pattern."""
    import qib
    pat = list(inp["pat"])
    nc = len(pat)
    tg = {"S": qib.operator.SGate, "Y": qib.PauliYGate, "H": qib.HadamardGate}[inp["target"]]()
    try:
        g = qib.ControlledGate(tg, nc) if inp.get("default_state") else qib.ControlledGate(tg, nc, pat)
        M = dense(g.as_matrix())
    except Exception as e:
        ctx.fail("wide-control:raises", inp, "a matrix", repr(e)[:200])
        return
    N = 2 ** (nc + 1)
    if M.shape != (N, N):
        ctx.fail("wide-control:shape", inp, (N, N), M.shape)
        return
    U = dense(tg.as_matrix())
    ic = 0
    for b in pat:
        ic = 2 * ic + int(b)
    D = M - np.eye(N)
    D[2 * ic:2 * ic + 2, 2 * ic:2 * ic + 2] -= U - np.eye(2)
    dev = float(np.abs(D).max())
    if not dev <= TOL:
        nz = np.argwhere(np.abs(M - np.eye(N)) > TOL)
        ctx.fail("wide-control:differs-from-bitwise-reference", inp, "target block at rows %d,%d (pattern read MSB first)" % (2 * ic, 2 * ic + 1),
                 "deviation %g; non-identity entries at rows %s" % (dev, sorted({int(r) for r, _ in nz})[:4]))


def wide_control_inputs(ctx):
    rng = ctx.rng
    out = []
    for nc in (9, 10):           # 11 controls would need > 1 GB for the dense kron; the class (index wider than a byte) starts at 9
        pats = [[1] * nc, [1] + [0] * (nc - 1), [0] * (nc - 8) + [1] * 8]
        p = [rng.randint(0, 1) for _ in range(nc)]
        p[rng.randrange(nc - 8)] = 1                    # a 1 among the leading (nc - 8) bits
        pats.append(p)
        for _ in range(1 if not ctx.thorough else 6):
            if nc == 9 or ctx.thorough:
                q = [rng.randint(0, 1) for _ in range(nc)]
                q[rng.randrange(nc - 8)] = 1
                pats.append(q)
        for k, pat in enumerate(pats):
            out.append({"comp": True, "what": "wide-control", "pat": pat, "target": "SYH"[k % 3]})
        out.append({"comp": True, "what": "wide-control", "pat": [1] * nc, "target": "S", "default_state": True})
    return out


def wide_control_checks(ctx):
    for inp in wide_control_inputs(ctx):
        ctx.count("wide_control_nc=%d" % len(inp["pat"]))
        check_wide_control(ctx, inp)
        ctx.nontriv(("wide-control", tuple(inp["pat"]), inp["target"]))


# =============================================================================== histories: operators held by reference
def mutate_op(h, spec, m):
    """re-parametrise the operator object IN PLACE (the gate holds it by reference).
    m = {"scale": s} multiplies every coefficient by the real s; m = {"flip": True} negates them."""
    f = float(m.get("scale", 1.0)) * (-1.0 if m.get("flip") else 1.0)
    if spec["op"] == "pauli":
        for ps in h.pstrings:
            ps.weight = ps.weight * f
    elif spec["op"] == "heis":
        h.J = tuple(f * x for x in h.J)
        h.h = tuple(f * x for x in h.h)
    elif spec["op"] == "fermi":
        for t in h.terms:
            t.coeffs = t.coeffs * f
    else:
        raise ValueError(spec["op"])


def history_reference(kind, method, H, t):
    """matrix of the gate for the CURRENT operator matrix H, independent of the gate object"""
    from scipy.linalg import sqrtm
    if kind == "tevo":
        w, V = np.linalg.eigh((H + H.conj().T) / 2)
        return V @ np.diag(np.exp(-1j * t * w)) @ V.conj().T
    S = sqrtm(np.identity(H.shape[0]) - H @ H)
    if method == "Wx":
        return np.block([[H, 1j * S], [1j * S, H]])
    if method == "Wxi":
        return np.block([[H, -1j * S], [-1j * S, H]])
    return np.block([[H, S], [S, -H]])


def own_reference(o, H):
    """definition of the object o (a by-reference gate, or a 1-control ControlledGate around one) for the operator matrix H"""
    T = type(o).__name__
    if T == "BlockEncodingGate":
        return history_reference("benc", o.method.name, H, 0.0)
    if T == "TimeEvolutionGate":
        return history_reference("tevo", None, H, float(o.t))
    if T == "ControlledGate" and o.num_controls == 1:
        R = own_reference(o.target_gate(), H)
        if R is None:
            return None
        I, Z = np.eye(R.shape[0]), np.zeros_like(R)
        return np.block([[I, Z], [Z, R]]) if int(o.ctrl_state[0]) == 1 else np.block([[R, Z], [Z, I]])
    return None


def check_history(ctx, pid, inp):
    """gate over a by-reference operator: as_matrix -> re-parametrise the operator in place -> as_matrix again, for the
    gate itself and for inverse() / copy() / ControlledGate made BEFORE and AFTER the change; every one of them must describe
    the CURRENT operator (unitary; equal to the reference built from the operator's current matrix; inverse * gate = 1;
    Hermiticity claim sound)."""
    import qib
    from copy import copy
    spec = inp["spec"]
    kind = spec["k"]
    world = World(2)
    own_op = {}
    try:
        g = build(spec, world, own_op=own_op)
        h = g.encoded_operator() if kind == "benc" else g.h
    except Exception as e:
        ctx.fail("history:construction-raises:" + kind, inp, "a gate", repr(e)[:200])
        return
    method = spec.get("method")
    t = float(spec.get("t", 0.0))

    def derived(tag):
        return [(tag + "inverse", g.inverse(), "inv"), (tag + "copy", copy(g), "same"),
                (tag + "controlled", qib.ControlledGate(g, 1, [1]), "ctrl"),
                (tag + "controlled-inverse", qib.ControlledGate(g, 1, [0]).inverse(), "ctrl0inv")]

    def verify(stage, objs):
        H = dense(h.as_matrix())
        R = history_reference(kind, method, H, t)
        I = np.eye(R.shape[0])
        Z = np.zeros_like(R)
        want = {"same": R, "inv": R.conj().T, "ctrl": np.block([[I, Z], [Z, R]]), "ctrl0inv": np.block([[R.conj().T, Z], [Z, I]])}
        for name, o, rel in objs:
            try:
                U = dense(o.as_matrix())
            except Exception as e:
                ctx.fail("history:%s:as_matrix-raises" % kind, dict(inp, stage=stage, object=name), "a matrix", repr(e)[:200])
                continue
            tol = 1e-8
            if pid == "C01" and (U.shape[0] != 2 ** o.num_wires or maxerr(U @ U.conj().T, np.eye(U.shape[0])) > tol):
                ctx.fail("history:%s:not-unitary-after-operator-update" % kind, dict(inp, stage=stage, object=name),
                         "unitary matrix for the current operator", maxerr(U @ U.conj().T, np.eye(U.shape[0])))
            if pid == "C02":
                # C02 compares every object with ITS OWN definition (its method / time / control pattern) for the current
                # operator; whether inverse() picked the right method / time is C03's question
                W = own_reference(o, H)
                if W is None or maxerr(U, W) > tol:
                    ctx.fail("history:%s:matrix-is-not-that-of-the-current-operator" % kind, dict(inp, stage=stage, object=name),
                             "reference built from the operator's current matrix", maxerr(U, W) if W is not None else "no reference")
            if pid == "C03":
                try:
                    Ui = dense(o.inverse().as_matrix())
                    if maxerr(Ui @ U, np.eye(U.shape[0])) > tol:
                        ctx.fail("history:%s:inverse-does-not-invert-after-operator-update" % kind,
                                 dict(inp, stage=stage, object=name), "inverse() * gate = 1", maxerr(Ui @ U, np.eye(U.shape[0])))
                except Exception as e:
                    ctx.fail("history:%s:inverse-raises" % kind, dict(inp, stage=stage, object=name), "a gate", repr(e)[:200])
            if pid == "C16" and o.is_hermitian() and maxerr(U, U.conj().T) > tol:
                ctx.fail("history:%s:claims-hermitian-after-operator-update" % kind, dict(inp, stage=stage, object=name),
                         "U = U^dagger", maxerr(U, U.conj().T))

    try:
        before = [("gate", g, "same")] + derived("made-before:")
        if inp.get("touch_before", True):
            verify("fresh", before)                       # first as_matrix() of everything (fills any cache)
        for step, m in enumerate(inp["mutations"]):
            if "caller" in m:
                # the caller re-scales ITS OWN containers (the lists / arrays it passed to the operator's constructor) in place:
                # the operator may follow or not; the gate must describe the operator as it is now
                for c in own_op.values():
                    if isinstance(c, list):
                        c[:] = [x * float(m["caller"]) for x in c]
                    else:
                        c *= float(m["caller"])
            else:
                mutate_op(h, spec["h"], m)
            after = derived("made-after-%d:" % step)
            verify("after-mutation-%d" % step, before + after)
            before = before + after
    except Exception as e:
        ctx.fail("history:%s:oracle-raises" % kind, inp, "history evaluates", repr(e)[:300])


def history_inputs(ctx):
    """deterministic skeleton + PRNG-drawn operators: every by-reference gate kind x operator kind x (cache filled before
    the update or not) x (shrink, flip sign, shrink again)"""
    rng = ctx.rng
    out = []
    for kind, methods in (("benc", ("Wx", "Wxi", "R")), ("tevo", (None,))):
        for method in methods:
            for opk in ("heis", "pauli", "fermi"):
                n = 2 if opk == "heis" else rng.randint(1, 2)
                hs = gen_op(rng, n, 1, kind == "benc", opk)
                spec = {"k": kind, "h": hs}
                if kind == "benc":
                    spec.update(method=method, aux=[0])
                else:
                    spec["t"] = round(rng.uniform(-2, 2), 6)
                out.append({"comp": True, "what": "history", "spec": spec, "touch_before": opk != "fermi",
                            "mutations": [{"scale": 0.5}, {"flip": True}, {"scale": round(rng.uniform(0.2, 0.9), 3)}]})
                if opk != "pauli":
                    # the same gate over an operator made from containers the caller keeps and rescales afterwards
                    spec2 = dict(spec, h=dict(hs, **({"as": "array"} if method in ("Wxi", None) else {})))
                    out.append({"comp": True, "what": "history", "spec": spec2, "touch_before": method != "R",
                                "mutations": [{"caller": 0.5}, {"scale": 0.5}, {"caller": -0.75}]})
    return out


def history_checks(ctx, pid):
    for inp in history_inputs(ctx):
        ctx.count("history_" + inp["spec"]["k"])
        check_history(ctx, pid, inp)
        ctx.nontriv(("history", repr(inp)[:2000]))


# =============================================================================== generators: one operator, many representations
# Time evolution / block encoding are defined by the OPERATOR H, not by the object that stores it.  The same Hermitian H can be
# handed over as: a PauliString (q in {0,2}); a WeightedPauliString with even q and real weight, or with ODD q and a compensating
# imaginary weight (that is what PauliString.__matmul__ produces: X.Y = iZ); a PauliOperator listing it once, split, mixed, merged
# by add_pauli_string, padded with zero-weight or cancelling strings; a model Hamiltonian or its as_pauli_operator() /
# as_field_operator(); a FieldOperator with one term, split terms, non-Hermitian halves, anti-normal order + constant, A + A^dagger.
# Every representation must give the same gate matrix, namely the one built from the numpy definition of H (eigh-based exp).
_PAULI1 = {"I": np.eye(2, dtype=complex), "X": np.array([[0, 1], [1, 0]], dtype=complex),
           "Y": np.array([[0, -1j], [1j, 0]], dtype=complex), "Z": np.array([[1, 0], [0, -1]], dtype=complex)}
_QPHASE = {0: 1.0, 1: -1j, 2: -1.0, 3: 1j}
_QPREFIX = {0: "", 1: "-i", 2: "-", 3: "i"}


def letters_matrix(s):
    M = np.ones((1, 1), dtype=complex)
    for ch in s:
        M = np.kron(M, _PAULI1[ch])
    return M


def cxw(w):
    return complex(w[0], w[1])


def make_weight(w, wt):
    """the weight object handed to WeightedPauliString: dtype / type dimension"""
    c = cxw(w)
    if wt == "int" and c.imag == 0 and c.real == int(c.real):
        return int(c.real)
    if wt == "float" and c.imag == 0:
        return float(c.real)
    if wt == "np":
        return np.float64(c.real) if c.imag == 0 else np.complex128(c)
    if wt == "negzero" and c.imag == 0:
        return complex(c.real, -0.0)
    if c.imag == 0 and wt != "complex":
        return float(c.real)
    return c


def build_pstring(ps):
    """ps = {"s": letters, "q": q, "via": "str" | "zxq" | "prod", ...} -> PauliString"""
    from qib.operator import PauliString
    via = ps.get("via", "str")
    if via == "str":
        return PauliString.from_string(_QPREFIX[ps["q"]] + ps["s"])
    if via == "zxq":
        z = [1 if ch in "YZ" else 0 for ch in ps["s"]]
        x = [1 if ch in "XY" else 0 for ch in ps["s"]]
        return PauliString(z, x, ps["q"] + (4 if ps.get("q_plus_4") else 0))
    if via == "prod":          # product of two letter strings through PauliString.__matmul__ (phase decided by the library)
        return PauliString.from_string(ps["a"]) @ PauliString.from_string(ps["b"])
    raise ValueError(via)


def pstring_reference(ps):
    if ps.get("via") == "prod":
        return letters_matrix(ps["a"]) @ letters_matrix(ps["b"])
    return _QPHASE[ps["q"] % 4] * letters_matrix(ps["s"])


def _chain_field(kind, n, pbc=False, layered=False):
    import qib
    pt = qib.field.ParticleType.FERMION if kind == "fermi" else qib.field.ParticleType.QUBIT
    lat = qib.lattice.IntegerLattice((n,), pbc=pbc)
    if layered:
        lat = qib.lattice.LayeredLattice(lat, 2)
    return qib.field.Field(pt, lat)


def build_generator(rep):
    """representation spec -> operator object acting on a field of its own"""
    import qib
    from qib.operator import (PauliString, WeightedPauliString, PauliOperator, FieldOperator, FieldOperatorTerm, IFODesc, IFOType,
                              IsingHamiltonian, IsingConvention, HeisenbergHamiltonian, FermiHubbardHamiltonian,
                              MolecularHamiltonian, MolecularHamiltonianSymmetry)
    r = rep["r"]
    if r == "pstring":
        p = build_pstring(rep["p"])
        return p.set_field(_chain_field("qubit", p.num_qubits))
    if r == "wps":
        p = build_pstring(rep["p"])
        return WeightedPauliString(p, make_weight(rep["w"], rep.get("wt"))).set_field(_chain_field("qubit", p.num_qubits))
    if r == "pop":
        items = [WeightedPauliString(build_pstring(p), make_weight(w, rep.get("wt"))) for p, w in rep["items"]]
        if rep.get("via") == "add":
            op = PauliOperator()
            for it in items:
                op.add_pauli_string(it)
        else:
            op = PauliOperator(items)
        return op.set_field(_chain_field("qubit", items[0].num_qubits))
    if r in ("ising", "ising-pauli"):
        f = _chain_field("qubit", rep["n"], rep.get("pbc", False))
        o = IsingHamiltonian(f, rep["J"], rep["h"], rep["g"], IsingConvention[rep.get("conv", "ISING_ZZ")])
        return o if r == "ising" else o.as_pauli_operator().set_field(f)
    if r in ("heis", "heis-pauli"):
        f = _chain_field("qubit", rep["n"], rep.get("pbc", False))
        o = HeisenbergHamiltonian(f, rep["J"], rep["h"])
        return o if r == "heis" else o.as_pauli_operator().set_field(f)
    if r in ("fh", "fh-field"):
        f = _chain_field("fermi", rep["n"], rep.get("pbc", False), layered=rep["spin"])
        o = FermiHubbardHamiltonian(f, float(rep["t"]), float(rep["u"]), rep["spin"])
        return o if r == "fh" else o.as_field_operator()
    if r in ("mol", "mol-field"):
        n = rep["n"]
        tk = np.array([[cxw(w) for w in row] for row in rep["tkin"]])
        vi = np.array(rep["vint"], dtype=float).reshape((n, n, n, n))
        symm = MolecularHamiltonianSymmetry.HERMITIAN if rep.get("herm", True) else MolecularHamiltonianSymmetry(0)
        o = MolecularHamiltonian(_chain_field("fermi", n), rep["c"], tk, vi, symm)
        return o if r == "mol" else o.as_field_operator()
    if r == "field":
        from checks import C10
        L, terms = C10.undesc_terms(rep["fterms"])
        W = C10.World()
        ops = [W.op(L, [t]) for t in terms]
        how = rep.get("how", "terms")
        if how == "terms":
            return W.op(L, terms)
        if how == "sum":                    # FieldOperator.__add__ / sum()
            return sum(ops)
        if how == "plus-adjoint":           # A + A^dagger from a (non-Hermitian) A
            A = W.op(L, terms)
            return A + A.adjoint()
        raise ValueError(how)
    raise ValueError(r)


def href_matrix(href):
    """numpy definition of H, independent of the library: Pauli sums by kron, fermionic sums by Jordan-Wigner ladder products"""
    if href["kind"] == "pauli":
        M = np.zeros((2 ** href["n"],) * 2, dtype=complex)
        for s, w in href["terms"]:
            M = M + cxw(w) * letters_matrix(s)
        return M
    if href["kind"] == "fermi":
        from checks import C10
        L, terms = C10.undesc_terms(href["fterms"])
        return C10.ref_op_matrix(L, terms)
    raise ValueError(href["kind"])


def check_generator_rep(ctx, pid, inp):
    """inp = {"family", "rep", "href", "gates": [{"k": "tevo", "t"} | {"k": "benc", "method"}]}: the gates over this
    representation of H, bare and inside controlled / multiplexed wrappers, against the numpy definition."""
    import qib
    from qib.operator import BlockEncodingMethod
    rep, fam = inp["rep"], inp["family"]
    tol = 1e-8
    try:
        Href = href_matrix(inp["href"])
        h = build_generator(rep)
        cls = type(h).__name__
        H = dense(h.as_matrix())
    except Exception as e:
        ctx.fail("generator:construction-raises:" + rep["r"], inp, "an operator", repr(e)[:200])
        return None
    ctx.count("generator_rep_" + rep["r"])
    # operators given in tiny (or huge) units: every comparison of H itself is RELATIVE to its size
    hs = float(np.abs(Href).max()) if "ref" in inp else 1.0
    hs = hs if hs > 0 else 1.0
    if maxerr(H, H.conj().T) > 1e-12 * hs:
        ctx.count("generator_rep_not_hermitian_skipped")
        return None
    if maxerr(H, Href) > 1e-11 * hs:
        # the operator class misreports its own matrix: another property's business; C02 ("exp(-itH) for the H denoted") reports it
        ctx.count("generator_rep_matrix_differs_from_definition")
        if pid == "C02":
            ctx.fail("generator:operator-matrix-differs-from-numpy-definition:" + cls, inp, "numpy definition of H", maxerr(H, Href))
        Href = H
    # "ref" = {"href", "t"}: the same product t H written in units of order 1 (t and H are rescaled by exact powers of two), so
    # that the eigh-based reference is well conditioned however small the units of H and however long the time
    Rref = None
    if "ref" in inp and maxerr(H, Href) <= 1e-11 * hs:
        Rref = history_reference("tevo", None, href_matrix(inp["ref"]["href"]), float(inp["ref"]["t"]))
    for gs in inp["gates"]:
        kind = gs["k"]
        tag = "%s:%s" % (kind, cls)
        try:
            if kind == "tevo":
                g = qib.TimeEvolutionGate(h, gs["t"])
                R = Rref if Rref is not None else history_reference("tevo", None, Href, float(gs["t"]))
            else:
                g = qib.BlockEncodingGate(h, BlockEncodingMethod[gs["method"]])
                R = history_reference("benc", gs["method"], Href, 0.0)
            I, Z = np.eye(R.shape[0]), np.zeros_like(R)
            objs = [("bare", g, R)]
            if gs.get("wrap", True):
                objs += [("controlled-1", qib.ControlledGate(g, 1), np.block([[I, Z], [Z, R]]))]
                if gs.get("wrap", True) != "some":
                    objs += [("controlled-0", qib.ControlledGate(g, 1, [0]), np.block([[R, Z], [Z, I]]))]
                objs += [("multiplexed", qib.MultiplexedGate([g, g.inverse()], 1), np.block([[R, Z], [Z, R.conj().T]])),
                         ("inverse", g.inverse(), R.conj().T)]
        except Exception as e:
            ctx.fail("generator:%s:gate-construction-raises" % tag, dict(inp, gate=gs), "a gate", repr(e)[:200])
            continue
        for name, o, W in objs:
            where = dict(inp, gate=gs, object=name)
            try:
                U = dense(o.as_matrix())
            except Exception as e:
                ctx.fail("generator:%s:as_matrix-raises" % tag, where, "a matrix", repr(e)[:200])
                continue
            ctx.count("generator_gate_" + kind)
            if pid == "C01":
                if U.shape != (2 ** o.num_wires,) * 2:
                    ctx.fail("generator:%s:shape-not-2^num_wires" % tag, where, (2 ** o.num_wires,) * 2, U.shape)
                elif maxerr(U @ U.conj().T, np.eye(U.shape[0])) > tol or maxerr(U.conj().T @ U, np.eye(U.shape[0])) > tol:
                    ctx.fail("generator:%s:not-unitary" % tag, where, "U U^dagger = I", maxerr(U @ U.conj().T, np.eye(U.shape[0])))
                if not o.is_unitary():
                    ctx.fail("generator:%s:is_unitary-false" % tag, where, True, False)
            if pid == "C02" and name != "inverse" and maxerr(U, W) > tol:
                ctx.fail("generator:%s:matrix-differs-from-definition-over-this-representation" % tag, where,
                         "exp(-i t H) (eigh of the numpy definition of H)" if kind == "tevo" else "block encoding of the numpy definition of H",
                         maxerr(U, W))
            if pid == "C02" and name == "bare" and "ref" in inp:
                N = Href.shape[0]
                if kind == "benc" and maxerr(U[:N, :N], Href) > 1e-8 * hs:
                    # the encoded block at RELATIVE tolerance (an operator of tiny norm must not be rounded to zero)
                    ctx.fail("generator:%s:top-left-block-is-not-H-relative-to-its-size" % tag, where, "H (relative 1e-8)", maxerr(U[:N, :N], Href) / hs)
                if kind == "tevo" and gs.get("near_identity"):
                    # |t H| tiny: U = 1 - i t H + O(|tH|^2); the off-diagonal part at tolerance relative to |t H|
                    A = -1j * float(gs["t"]) * Href
                    off = lambda M: M - np.diag(np.diag(M))
                    a = float(np.abs(A).max())
                    if maxerr(off(U), off(A)) > 1e-6 * a + 4 * a * a:
                        ctx.fail("generator:%s:off-diagonal-part-is-not-minus-i-t-H-relative-to-its-size" % tag, where,
                                 "-i t H off the diagonal (relative 1e-6)", maxerr(off(U), off(A)) / a)
            if pid == "C03":
                try:
                    Ui = dense(o.inverse().as_matrix())
                    if maxerr(Ui @ U, np.eye(U.shape[0])) > tol or maxerr(U @ Ui, np.eye(U.shape[0])) > tol:
                        ctx.fail("generator:%s:inverse-does-not-invert" % tag, where, "inverse() * gate = 1", maxerr(Ui @ U, np.eye(U.shape[0])))
                    if name == "inverse" and maxerr(U, W) > tol:
                        ctx.fail("generator:%s:inverse-is-not-the-adjoint-of-the-definition" % tag, where, "exp(+i t H)", maxerr(U, W))
                except Exception as e:
                    ctx.fail("generator:%s:inverse-raises" % tag, where, "a gate", repr(e)[:200])
            if pid == "C16" and o.is_hermitian() and maxerr(U, U.conj().T) > tol:
                ctx.fail("generator:%s:claims-hermitian-but-matrix-is-not" % tag, where, "U = U^dagger", maxerr(U, U.conj().T))
    return cls


GEN_TIMES = [0.3, -1.1, 0.0, math.pi, 25.0, 2, 1e-9]


def _wsplit(c):
    return [float(np.real(c)), float(np.imag(c))]


def single_string_reps(s, c, rng):
    """all the ways to store  c * (letters s)  with real c: (-i)^q on the string, i^q on the weight"""
    reps = []
    for q in (0, 1, 2, 3):
        w = c / _QPHASE[q]
        for via in (("str", "zxq") if q in (0, 1) else ("str",)):
            p = {"s": s, "q": q, "via": via}
            if via == "zxq" and q == 1:
                p["q_plus_4"] = True             # q given as 5: the constructor reduces it mod 4
            reps.append({"r": "wps", "p": p, "w": _wsplit(w)})
            reps.append({"r": "pop", "items": [[p, _wsplit(w)]]})
    # weight types (int / numpy scalars / complex with zero or negative-zero imaginary part)
    for wt in ("np", "complex", "negzero") + (("int",) if c == int(c) else ()):
        reps.append({"r": "wps", "p": {"s": s, "q": 0}, "w": _wsplit(c), "wt": wt})
        reps.append({"r": "wps", "p": {"s": s, "q": 3}, "w": _wsplit(c / 1j), "wt": "np"})
    # as a product of two strings (phase chosen by __matmul__), weight compensates the phase found numerically
    n = len(s)
    nonid = [k for k, ch in enumerate(s) if ch != "I"]
    prods = []
    if nonid:
        k = nonid[0]
        two = {"X": ("Y", "Z"), "Y": ("Z", "X"), "Z": ("X", "Y")}[s[k]]     # Y.Z = iX, Z.X = iY, X.Y = iZ
        a = "".join(two[0] if j == k else (s[j] if j < k else "I") for j in range(n))
        b = "".join(two[1] if j == k else (s[j] if j > k else "I") for j in range(n))
        prods.append((a, b))
        prods.append((b, a))
    if len(nonid) >= 2:
        k = nonid[1]
        prods.append(("".join(s[j] if j < k else "I" for j in range(n)), "".join(s[j] if j >= k else "I" for j in range(n))))
    S = letters_matrix(s)
    for a, b in prods:
        Pm = letters_matrix(a) @ letters_matrix(b)
        ph = Pm[np.nonzero(S)][0] / S[np.nonzero(S)][0]
        assert maxerr(Pm, ph * S) == 0
        p = {"via": "prod", "a": a, "b": b, "s": s}
        reps.append({"r": "wps", "p": p, "w": _wsplit(c / ph)})
        reps.append({"r": "pop", "items": [[p, _wsplit(c / ph)]], "via": "add"})
    # operators: split, mixed representations of the two halves, merged by add_pauli_string, zero-weight and cancelling padding
    other = "".join({"I": "Z", "X": "I", "Y": "X", "Z": "Y"}[ch] for ch in s)
    a = round(rng.uniform(0.2, 0.9), 3)
    P0, P1, P2, P3 = ({"s": s, "q": q} for q in (0, 1, 2, 3))
    O0, O1, O2 = ({"s": other, "q": q} for q in (0, 1, 2))
    reps.append({"r": "pop", "items": [[P0, _wsplit(c * a)], [P0, _wsplit(c * (1 - a))]]})
    reps.append({"r": "pop", "items": [[P0, _wsplit(c * a)], [P0, _wsplit(c * (1 - a))]], "via": "add"})
    reps.append({"r": "pop", "items": [[P0, _wsplit(c / 2)], [P1, _wsplit(c / 2 * 1j)]]})
    reps.append({"r": "pop", "items": [[P3, _wsplit(c / 2 / 1j)], [P2, _wsplit(-c / 2)]], "via": "add"})
    reps.append({"r": "pop", "items": [[P1, _wsplit(c * 1j)], [O0, [0.0, 0.0]]]})
    reps.append({"r": "pop", "items": [[O0, [a, 0.0]], [P0, _wsplit(c)], [O2, [a, 0.0]]]})            # +a O - a O cancels
    reps.append({"r": "pop", "items": [[O1, [0.0, a]], [P1, _wsplit(c * 1j)], [O0, [-a, 0.0]]]})      # (-i)(ia) O - a O cancels
    reps.append({"r": "pop", "items": [[O0, [a, 0.0]], [P0, _wsplit(c)], [O0, [-a, 0.0]]], "via": "add"})   # merged to weight 0
    if abs(c) == 1:
        reps.append({"r": "pstring", "p": {"s": s, "q": 0 if c > 0 else 2}})
        reps.append({"r": "pstring", "p": {"s": s, "q": 0 if c > 0 else 2, "via": "zxq"}})
    return reps


def pauli_sum_reps(terms, rng):
    """H = sum c_k P_k (real c_k, distinct strings): plain, every string with odd q, mixed, reversed order, split"""
    reps = []
    plain = [[{"s": s, "q": 0}, _wsplit(c)] for s, c in terms]
    odd = [[{"s": s, "q": 1 + 2 * (k % 2)}, _wsplit(c / _QPHASE[1 + 2 * (k % 2)])] for k, (s, c) in enumerate(terms)]
    mixed = [plain[k] if k % 2 else odd[k] for k in range(len(terms))]
    reps.append({"r": "pop", "items": plain})
    reps.append({"r": "pop", "items": odd})
    reps.append({"r": "pop", "items": mixed, "via": "add"})
    reps.append({"r": "pop", "items": plain[::-1], "wt": "np"})
    reps.append({"r": "pop", "items": [[p, [w[0] / 2, w[1] / 2]] for p, w in plain + odd]})
    reps.append({"r": "pop", "items": [[p, [w[0] / 2, w[1] / 2]] for p, w in odd + plain], "via": "add"})
    return reps


def chain_pairs(n, pbc):
    pairs = [(i, i + 1) for i in range(n - 1)]
    if pbc and n >= 3:
        pairs.append((0, n - 1))
    return pairs


def place(n, put):
    s = ["I"] * n
    for k, ch in put:
        s[k] = ch
    return "".join(s)


def generator_families(ctx):
    """list of (family name, href, [rep, ...], gates)"""
    from checks import C10
    rng = ctx.rng
    fams = []
    # ---- single strings c P: n = 1..3, c incl. +-1 (PauliString itself) ; the seed-like inputs first
    singles = [("Z", 0.9), ("IZY", 0.9), ("ZZI", -0.5), ("XYZ", 1.0), ("YY", -1.0), ("XI", 2.0)]
    for _ in range(6 if ctx.thorough else 1):
        n = rng.randint(1, 3)
        s = "".join(rng.choice("IXYZ") for _ in range(n))
        if set(s) == {"I"}:
            s = s[:-1] + "Y"
        singles.append((s, round(rng.uniform(-1.5, 1.5), 3)))
    for k, (s, c) in enumerate(singles):
        href = {"kind": "pauli", "n": len(s), "terms": [[s, [c, 0.0]]]}
        fams.append(("single:%s" % s, href, single_string_reps(s, c, rng), "tevo"))
        if ctx.thorough or k % 3 == 1:
            cb = round(0.7 * c / max(1.0, abs(c)), 6)
            hrefb = {"kind": "pauli", "n": len(s), "terms": [[s, [cb, 0.0]]]}
            fams.append(("single-benc:%s" % s, hrefb, [r for r in single_string_reps(s, cb, rng) if r["r"] != "pstring"], "benc"))
    # ---- sums of strings
    for n in ((1, 2, 3) if ctx.thorough else (2, 3)):
        strs = set()
        while len(strs) < min(3, 4 ** n - 1):
            s = "".join(rng.choice("IXYZ") for _ in range(n))
            if set(s) != {"I"}:
                strs.add(s)
        terms = [(s, round(rng.uniform(-1, 1), 3)) for s in sorted(strs)]
        href = {"kind": "pauli", "n": n, "terms": [[s, [c, 0.0]] for s, c in terms]}
        fams.append(("sum:n=%d" % n, href, pauli_sum_reps(terms, rng), "tevo"))
        nrm = float(np.linalg.norm(href_matrix(href), 2)) or 1.0
        tb = [(s, round(0.8 * c / nrm, 6)) for s, c in terms]
        hrefb = {"kind": "pauli", "n": n, "terms": [[s, [c, 0.0]] for s, c in tb]}
        fams.append(("sum-benc:n=%d" % n, hrefb, pauli_sum_reps(tb, rng), "benc"))
    # ---- model Hamiltonians on chains (open, and periodic for n = 3) vs their Pauli / field-operator forms vs hand-built operators
    for n, pbc in ((2, False), (3, False), (3, True)):
        J, hh, g = (round(rng.uniform(-1, 1), 3) for _ in range(3))
        for conv in ("ISING_ZZ", "ISING_XX"):
            A, B = ("Z", "X") if conv == "ISING_ZZ" else ("X", "Z")
            terms = [(place(n, [(i, A), (j, A)]), J) for i, j in chain_pairs(n, pbc)]
            terms += [(place(n, [(i, A)]), hh) for i in range(n)] + [(place(n, [(i, B)]), g) for i in range(n)]
            href = {"kind": "pauli", "n": n, "terms": [[s, [c, 0.0]] for s, c in terms]}
            base = {"n": n, "pbc": pbc, "J": J, "h": hh, "g": g, "conv": conv}
            reps = [dict(base, r="ising"), dict(base, r="ising-pauli")] + pauli_sum_reps(terms, rng)[:3]
            fams.append(("ising:%s:n=%d:pbc=%s" % (conv, n, pbc), href, reps, "tevo"))
            if conv == "ISING_ZZ":
                sc = 0.8 / (float(np.linalg.norm(href_matrix(href), 2)) or 1.0)
                tb = [(s, c * sc) for s, c in terms]
                hb = {"kind": "pauli", "n": n, "terms": [[s, [c, 0.0]] for s, c in tb]}
                bb = dict(base, J=J * sc, h=hh * sc, g=g * sc)
                fams.append(("ising-benc:n=%d:pbc=%s" % (n, pbc), hb, [dict(bb, r="ising"), dict(bb, r="ising-pauli")] + pauli_sum_reps(tb, rng)[1:3], "benc"))
        Jv = [round(rng.uniform(-1, 1), 3) for _ in range(3)]
        hv = [round(rng.uniform(-1, 1), 3) for _ in range(3)]
        terms = []
        for k, ch in enumerate("XYZ"):
            terms += [(place(n, [(i, ch), (j, ch)]), Jv[k]) for i, j in chain_pairs(n, pbc)]
            terms += [(place(n, [(i, ch)]), hv[k]) for i in range(n)]
        href = {"kind": "pauli", "n": n, "terms": [[s, [c, 0.0]] for s, c in terms]}
        base = {"n": n, "pbc": pbc, "J": Jv, "h": hv}
        fams.append(("heis:n=%d:pbc=%s" % (n, pbc), href, [dict(base, r="heis"), dict(base, r="heis-pauli")] + pauli_sum_reps(terms, rng)[:3], "tevo"))
    # ---- quadratic fermionic operators sum c_ij a^dag_i a_j, c Hermitian
    for L in (1, 2, 3):
        a = np.array([[complex(round(rng.uniform(-1, 1), 3), round(rng.uniform(-1, 1), 3)) for _ in range(L)] for _ in range(L)])
        c = (a + a.conj().T) / 2
        for scale, gk in ((1.0, "tevo"), (0.3, "benc")):
            cs = c * scale
            href = {"kind": "fermi", "fterms": C10.desc_terms(L, [([1, 0], cs)])}
            up, lo = np.triu(cs), np.tril(cs, -1)
            reps = [{"r": "field", "fterms": C10.desc_terms(L, [([1, 0], cs)])},
                    {"r": "field", "fterms": C10.desc_terms(L, [([1, 0], 0.25 * cs), ([1, 0], 0.75 * cs)])},
                    {"r": "field", "fterms": C10.desc_terms(L, [([1, 0], up), ([1, 0], lo)])},               # non-Hermitian halves
                    {"r": "field", "fterms": C10.desc_terms(L, [([1, 0], up), ([1, 0], lo)]), "how": "sum"},
                    {"r": "field", "fterms": C10.desc_terms(L, [([1, 0], np.triu(cs, 1) + np.diag(np.diag(cs)) / 2)]), "how": "plus-adjoint"},
                    # anti-normal order: sum c_ij a^dag_i a_j = tr c - sum c_ij a_j a^dag_i
                    {"r": "field", "fterms": C10.desc_terms(L, [([0, 1], -cs.T), ([], np.array(np.trace(cs)))])},
                    {"r": "field", "fterms": C10.desc_terms(L, [([1, 0], cs + np.eye(L)), ([1, 0], -np.eye(L))])},   # cancelling part
                    {"r": "mol", "n": L, "c": 0.0, "tkin": [[_wsplit(v) for v in row] for row in cs], "vint": [0.0] * L ** 4},
                    {"r": "mol", "n": L, "c": 0.0, "tkin": [[_wsplit(v) for v in row] for row in cs], "vint": [0.0] * L ** 4, "herm": False},
                    {"r": "mol-field", "n": L, "c": 0.0, "tkin": [[_wsplit(v) for v in row] for row in cs], "vint": [0.0] * L ** 4}]
            fams.append(("fermi-quadratic:L=%d:%s" % (L, gk), href, reps, gk))
    # ---- Fermi-Hubbard (spinless chain; spinful on a 2-layer chain) and a molecular Hamiltonian with interaction
    for n, spin, pbc in ((2, False, False), (3, False, False), (3, False, True), (2, True, False)):
        t, u = round(rng.uniform(-1, 1), 3), round(rng.uniform(-1, 1), 3)
        Ls = 2 * n if spin else n
        adj = np.zeros((n, n))
        for i, j in chain_pairs(n, pbc):
            adj[i, j] = adj[j, i] = 1
        if spin:
            kin = -t * np.kron(np.eye(2), adj)
            pairs = [(i, i + n) for i in range(n)]
        else:
            kin = -t * adj
            pairs = chain_pairs(n, pbc)
        inter = np.zeros((Ls,) * 4)
        for i, j in pairs:
            inter[i, i, j, j] = u
        href = {"kind": "fermi", "fterms": C10.desc_terms(Ls, [([1, 0], kin), ([1, 0, 1, 0], inter)])}
        base = {"n": n, "pbc": pbc, "spin": spin, "t": t, "u": u}
        reps = [dict(base, r="fh"), dict(base, r="fh-field"),
                {"r": "field", "fterms": C10.desc_terms(Ls, [([1, 0], np.triu(kin)), ([1, 0, 1, 0], inter), ([1, 0], np.tril(kin, -1))])}]
        fams.append(("fermi-hubbard:n=%d:spin=%s:pbc=%s" % (n, spin, pbc), href, reps, "tevo"))
    n = 2
    a = np.array([[complex(round(rng.uniform(-1, 1), 3), 0) for _ in range(n)] for _ in range(n)])
    tk = (a + a.T) / 2
    v = np.array([round(rng.uniform(-1, 1), 3) for _ in range(n ** 4)]).reshape((n,) * 4)
    v = v + v.transpose(2, 3, 0, 1)                      # <ij|kl> = <kl|ij>* (real)
    cc = round(rng.uniform(-1, 1), 3)
    # H = c + sum t_ij a+_i a_j + 1/2 sum v_ijkl a+_i a+_j a_l a_k
    vt = np.zeros_like(v)
    for i, j, k, l in itertools.product(range(n), repeat=4):
        vt[i, j, l, k] = 0.5 * v[i, j, k, l]
    href = {"kind": "fermi", "fterms": C10.desc_terms(n, [([], np.array(cc)), ([1, 0], tk), ([1, 1, 0, 0], vt)])}
    base = {"n": n, "c": cc, "tkin": [[_wsplit(x) for x in row] for row in tk], "vint": [float(x) for x in v.reshape(-1)]}
    fams.append(("molecular:n=2", href, [dict(base, r="mol"), dict(base, r="mol-field"), dict(base, r="mol", herm=False)], "tevo"))
    return fams


# ---------------------------------------------------------------- operators in tiny units, long times
# exp(-i t H) depends on the product t H only.  A Hamiltonian given in tiny units (couplings 2^-20 ... 2^-60) evolved for a
# correspondingly long time is an ordinary rotation; so is a nearly diagonal one whose weak couplings (2^-3 ... 2^-10 of the
# diagonal scale) act for a long time.  Any absolute threshold on the entries of H ("is it diagonal?", "is it zero?") goes wrong
# here.  sd scales the terms that are diagonal in the computational basis, so the others; both are exact powers of two, so the
# reference can be computed in units of order one.
def scaled_family_reps(rng):
    """list of (name, make(sd, so) -> (href, [rep, ...]))"""
    from checks import C10
    fams = []

    def ising(n, pbc, J, hh, g):
        def make(sd, so):
            terms = [(place(n, [(i, "Z"), (j, "Z")]), J * sd) for i, j in chain_pairs(n, pbc)]
            terms += [(place(n, [(i, "Z")]), hh * sd) for i in range(n)] + [(place(n, [(i, "X")]), g * so) for i in range(n)]
            href = {"kind": "pauli", "n": n, "terms": [[s, [c, 0.0]] for s, c in terms]}
            base = {"n": n, "pbc": pbc, "J": J * sd, "h": hh * sd, "g": g * so, "conv": "ISING_ZZ"}
            return href, [dict(base, r="ising"), dict(base, r="ising-pauli"), {"r": "pop", "items": [[{"s": s, "q": 0}, [c, 0.0]] for s, c in terms]}]
        return make

    def heis(n, pbc, Jv, hv):
        def make(sd, so):
            sc = [so, so, sd]
            terms = []
            for k, ch in enumerate("XYZ"):
                terms += [(place(n, [(i, ch), (j, ch)]), Jv[k] * sc[k]) for i, j in chain_pairs(n, pbc)]
                terms += [(place(n, [(i, ch)]), hv[k] * sc[k]) for i in range(n)]
            href = {"kind": "pauli", "n": n, "terms": [[s, [c, 0.0]] for s, c in terms]}
            base = {"n": n, "pbc": pbc, "J": [Jv[k] * sc[k] for k in range(3)], "h": [hv[k] * sc[k] for k in range(3)]}
            return href, [dict(base, r="heis"), dict(base, r="heis-pauli")]
        return make

    def hubbard(n, spin, pbc, t, u):
        def make(sd, so):
            Ls = 2 * n if spin else n
            adj = np.zeros((n, n))
            for i, j in chain_pairs(n, pbc):
                adj[i, j] = adj[j, i] = 1
            kin = -t * so * (np.kron(np.eye(2), adj) if spin else adj)
            pairs = [(i, i + n) for i in range(n)] if spin else chain_pairs(n, pbc)
            inter = np.zeros((Ls,) * 4)
            for i, j in pairs:
                inter[i, i, j, j] = u * sd
            href = {"kind": "fermi", "fterms": C10.desc_terms(Ls, [([1, 0], kin), ([1, 0, 1, 0], inter)])}
            base = {"n": n, "pbc": pbc, "spin": spin, "t": t * so, "u": u * sd}
            return href, [dict(base, r="fh"), dict(base, r="fh-field")]
        return make

    def quadratic(L, c):
        def make(sd, so):
            cs = np.diag(np.diag(c)) * sd + (c - np.diag(np.diag(c))) * so
            href = {"kind": "fermi", "fterms": C10.desc_terms(L, [([1, 0], cs)])}
            tk = [[_wsplit(v) for v in row] for row in cs]
            return href, [{"r": "field", "fterms": C10.desc_terms(L, [([1, 0], cs)])},
                          {"r": "field", "fterms": C10.desc_terms(L, [([1, 0], np.triu(cs)), ([1, 0], np.tril(cs, -1))]), "how": "sum"},
                          {"r": "mol", "n": L, "c": 0.0, "tkin": tk, "vint": [0.0] * L ** 4},
                          {"r": "mol-field", "n": L, "c": 0.0, "tkin": tk, "vint": [0.0] * L ** 4}]
        return make

    def paulis(terms):
        def make(sd, so):
            tt = [(s, c * (sd if set(s) <= set("IZ") else so)) for s, c in terms]
            n = len(terms[0][0])
            href = {"kind": "pauli", "n": n, "terms": [[s, [c, 0.0]] for s, c in tt]}
            reps = [{"r": "pop", "items": [[{"s": s, "q": 0}, [c, 0.0]] for s, c in tt]},
                    {"r": "pop", "items": [[{"s": s, "q": 1}, _wsplit(c / _QPHASE[1])] for s, c in tt], "via": "add"}]
            if len(tt) == 1:
                reps.append({"r": "wps", "p": {"s": tt[0][0], "q": 0}, "w": [tt[0][1], 0.0]})
            return href, reps
        return make
    r3 = lambda: round(rng.uniform(0.3, 1.0) * rng.choice([-1, 1]), 3)
    fams.append(("hubbard:n=2", hubbard(2, False, False, 1.0, 0.5)))           # the hopping amplitude in tiny units
    fams.append(("hubbard:n=3:pbc", hubbard(3, False, True, r3(), r3())))
    fams.append(("hubbard:n=2:spin", hubbard(2, True, False, r3(), r3())))
    fams.append(("ising:n=2", ising(2, False, r3(), r3(), r3())))
    fams.append(("ising:n=3:pbc", ising(3, True, r3(), r3(), r3())))
    fams.append(("heis:n=2", heis(2, False, [r3(), r3(), r3()], [r3(), r3(), r3()])))
    fams.append(("heis:n=3", heis(3, False, [r3(), 0.0, r3()], [0.0, r3(), r3()])))
    for L in (2, 3):
        a = np.array([[complex(r3(), r3()) for _ in range(L)] for _ in range(L)])
        fams.append(("fermi-quadratic:L=%d" % L, quadratic(L, (a + a.conj().T) / 2)))
    fams.append(("pauli:X", paulis([("X", 1.0)])))
    fams.append(("pauli:Z+X", paulis([("Z", r3()), ("X", r3())])))
    fams.append(("pauli:n=2", paulis([("ZI", r3()), ("ZZ", r3()), ("XY", r3()), ("IX", r3())])))
    return fams


SCALE_EXPS = [-20, -24, -27, -30, -40, -50, -60, 20, 40]
SCALE_T0 = [math.pi / 2, 0.3, -1.1, 2.5]


def scaled_generator_checks(ctx, pid):
    ctx.rules.append(
        "operators in tiny units (C01/C02/C03/C16): Hubbard (hopping vs interaction), Ising (transverse vs longitudinal), Heisenberg, "
        "quadratic fermionic / molecular, Pauli-sum Hamiltonians whose couplings are 2^e, e in {-20,-24,-27,-30,-40,-50,-60, 20, 40}, with the "
        "terms that are diagonal in the computational basis at the same scale or 2^3 / 2^7 / 2^10 times larger (nearly diagonal), evolved "
        "for t = t0 2^-e, t0 in {pi/2, 0.3, -1.1, 2.5} (J t of order one), against the eigh-based reference of the same product t H in "
        "units of order one; the same operators at t = t0 (nearly the identity: off-diagonal part relative to |t H|); block encodings "
        "(Wx, Wxi, R) of operators of norm 2^e (encoded block relative to its size); bare / controlled / multiplexed / inverse")
    fams = scaled_family_reps(ctx.rng)
    n = 0
    for fi, (name, make) in enumerate(fams):
        # quick tier: three of the nine scales per family (every scale is seen by four families), one nearly diagonal variant each
        exps = SCALE_EXPS if ctx.thorough else [SCALE_EXPS[(fi + j) % len(SCALE_EXPS)] for j in (0, 3, 6)]
        for ei, e in enumerate(sorted(set(exps))):
            for k in ((0, 3, 7, 10) if ctx.thorough else ((0, (3, 7, 10)[(fi + e) % 3]) if ei != 1 else (0,))):
                if e > 0 and k:
                    continue
                so, sd = 2.0 ** e, 2.0 ** (e + k)
                href, reps = make(sd, so)
                href1, _ = make(2.0 ** k, 1.0)
                for ri, rep in enumerate(reps):
                    if not ctx.thorough and ri and (ri + n) % 2:
                        continue
                    n += 1
                    t0 = SCALE_T0[n % len(SCALE_T0)] * (1 if k == 0 else 2.0 ** -(k // 2))
                    gates = [{"k": "tevo", "t": t0 * 2.0 ** -e, "wrap": "some" if (ri == 0 and (ctx.thorough or k == 0)) else False}]
                    inp = {"comp": True, "what": "generator-rep", "family": "scaled:%s:e=%d:k=%d" % (name, e, k), "rep": rep, "href": href,
                           "ref": {"href": href1, "t": t0}, "gates": gates}
                    if check_generator_rep(ctx, pid, inp) is not None:
                        ctx.count("generator_scaled_long_time")
                        ctx.nontriv(("generator-scaled", name, e, k, repr(rep)[:600]))
                    if k == 0 and e < 0 and (ctx.thorough or ri == 0):
                        # nearly the identity (t of order one), and block encodings of the tiny-norm operator
                        g2 = [{"k": "tevo", "t": t0, "wrap": False, "near_identity": True}]
                        if rep["r"] not in ("pstring",):
                            g2 += [{"k": "benc", "method": ("Wx", "Wxi", "R")[n % 3], "wrap": "some"}]
                        inp2 = dict(inp, gates=g2, ref={"href": href, "t": t0})
                        if check_generator_rep(ctx, pid, inp2) is not None:
                            ctx.count("generator_scaled_near_identity")


def generator_checks(ctx, pid):
    """every family x every representation x (time evolution at the time grid | the three block encodings) x wrappers"""
    rng = ctx.rng
    ctx.rules.append(
        "generators (C01/C02/C03/C16): one Hermitian operator H in MANY representations - PauliString (q = 0, 2); WeightedPauliString with "
        "q = 0..3 and the compensating real / imaginary weight (from_string, (z,x,q) constructor incl. q >= 4, products through __matmul__), "
        "weights of type int / float / complex / numpy scalar / negative-zero imaginary part; PauliOperator listing H once, split, with "
        "mixed even/odd-q halves, merged by add_pauli_string, padded with zero-weight and cancelling strings, reordered; Ising (both "
        "conventions) / Heisenberg Hamiltonians on open and periodic chains vs as_pauli_operator() vs hand-built operators; quadratic "
        "FieldOperators as one term, split, non-Hermitian halves, __add__, A + A.adjoint(), anti-normal order + constant, cancelling parts; "
        "Molecular (HERMITIAN flag or none) / Fermi-Hubbard (spinless, spinful) Hamiltonians vs as_field_operator(); TimeEvolutionGate at "
        "t in {0.3, -1.1, 0, pi, 25, 2 (int), 1e-9} and BlockEncodingGate (Wx, Wxi, R; norm < 1), bare / controlled on 1 and on 0 / "
        "multiplexed with the inverse / inverse(); oracle per property against exp(-itH) resp. the block matrix built with eigh / sqrtm "
        "from the numpy definition of H (kron of Pauli matrices, Jordan-Wigner ladder products). non-trivial = representation other than "
        "the plain one")
    nrep = 0
    for nfam, (name, href, reps, gk) in enumerate(generator_families(ctx)):
        ctx.count("generator_families")
        seen = set()
        for k, rep in enumerate(reps):
            # quick tier: the two leading families (odd-q strings with imaginary weights, as PauliString.__matmul__ makes them) in
            # full; of the other families the plain representation and a rotating third of the others
            full = ctx.thorough or nfam < 2 or len(reps) <= 6
            if not (full or k == 0 or k % 3 == nfam % 3):
                continue
            if gk == "tevo":
                # every representation sees two times (the plain one: all); together a family sees the whole grid
                ts = GEN_TIMES if (ctx.thorough or k == 0) else [GEN_TIMES[(nrep + j) % len(GEN_TIMES)] for j in (0, 3)]
                gates = [{"k": "tevo", "t": t} for t in ts]
            else:
                ms = ("Wx", "Wxi", "R") if (ctx.thorough or k == 0) else (("Wx", "Wxi", "R")[nrep % 3],)
                gates = [{"k": "benc", "method": m} for m in ms]
            nrep += 1
            if not ctx.thorough:
                # wrappers (controlled / multiplexed / inverse) around the first gate of every representation only
                gates = [dict(g, wrap=("some" if j == 0 else False)) for j, g in enumerate(gates)]
            inp = {"comp": True, "what": "generator-rep", "family": name, "rep": rep, "href": href, "gates": gates}
            cls = check_generator_rep(ctx, pid, inp)
            if cls is not None and k > 0:
                ctx.nontriv(("generator-rep", name, repr(rep)[:1500]))
            if cls is not None and (cls, gk) not in seen and len(seen) < 2:
                seen.add((cls, gk))
                ctx.sample({"generator_family": name, "class": cls, "rep": rep if len(repr(rep)) < 400 else "(large)", "gates": gk}, cap=9)
    scaled_generator_checks(ctx, pid)


# =============================================================================== array layout / dtype of user-supplied data
def _as_layout(M, how):
    """the same matrix / vector handed over in another container, dtype or memory layout"""
    M = np.asarray(M)
    if how == "list":
        return M.tolist()
    if how == "fortran":
        return np.asfortranarray(M)
    if how == "strided":                       # every second row / column of a larger array with junk in between
        big = np.full(tuple(2 * d for d in M.shape), 7.5, dtype=M.dtype)
        big[(slice(None, None, 2),) * M.ndim] = M
        return big[(slice(None, None, 2),) * M.ndim]
    if how == "reversed":                      # negative strides
        return np.ascontiguousarray(M[(slice(None, None, -1),) * M.ndim])[(slice(None, None, -1),) * M.ndim]
    if how == "real":
        return np.ascontiguousarray(M.real.astype(float))
    if how == "int":
        return np.ascontiguousarray(np.round(M.real).astype(int))
    if how == "tuple":
        return tuple(tuple(r) for r in M.tolist()) if M.ndim == 2 else tuple(M.tolist())
    return np.array(M)


def check_layout(ctx, pid, inp):
    import qib
    how = inp["as"]
    try:
        if inp["gate"] == "general":
            M = np.array([[complex(a, b) for a, b in row] for row in inp["mat"]])
            g = qib.GeneralGate(_as_layout(M, how), inp["n"])
            want = M
        else:
            v = np.array(inp["vec"], dtype=float)
            g = qib.PrepareGate(_as_layout(v, how), inp["n"], bool(inp.get("tr")))
            want = None
        U = dense(g.as_matrix())
        C = dense(qib.ControlledGate(g, 1).as_matrix())
    except Exception as e:
        ctx.fail("layout:%s:raises" % inp["gate"], inp, "a gate and its matrix", repr(e)[:200])
        return
    N = U.shape[0]
    tag = inp["gate"]
    if pid == "C01":
        for nm, A, nw in (("bare", U, g.num_wires), ("controlled", C, g.num_wires + 1)):
            if A.shape != (2 ** nw,) * 2 or maxerr(A @ A.conj().T, np.eye(A.shape[0])) > TOL:
                ctx.fail("layout:%s:not-unitary" % tag, dict(inp, object=nm), "unitary of size 2^num_wires", A.shape)
    if pid == "C02":
        if want is not None and maxerr(U, want) > TOL:
            ctx.fail("layout:general:matrix-differs-from-the-given-one", inp, "the matrix handed to the constructor", maxerr(U, want))
        if want is None:
            v = np.array(inp["vec"], dtype=float)
            v = v / np.sum(np.abs(v))
            x = np.sign(v) * np.sqrt(np.abs(v))
            col = U[0, :] if inp.get("tr") else U[:, 0]
            if maxerr(col, x) > TOL:
                ctx.fail("layout:prep:first-column-not-sign-sqrt", inp, "sign(v) sqrt|v|", maxerr(col, x))
        if maxerr(C[N:, N:], U) > TOL or maxerr(C[:N, :N], np.eye(N)) > TOL:
            ctx.fail("layout:%s:controlled-differs" % tag, inp, "diag(1, U)", maxerr(C[N:, N:], U))
    if pid == "C03":
        try:
            Ui = dense(g.inverse().as_matrix())
            if maxerr(Ui @ U, np.eye(N)) > TOL:
                ctx.fail("layout:%s:inverse-does-not-invert" % tag, inp, "inverse() * gate = 1", maxerr(Ui @ U, np.eye(N)))
        except Exception as e:
            ctx.fail("layout:%s:inverse-raises" % tag, inp, "a gate", repr(e)[:200])
    if pid == "C16":
        claim = bool(g.is_hermitian())
        if claim and maxerr(U, U.conj().T) > TOL:
            ctx.fail("layout:%s:claims-hermitian-but-is-not" % tag, inp, "U = U^dagger", maxerr(U, U.conj().T))
        if tag == "general" and not claim and maxerr(U, U.conj().T) < 1e-12:
            ctx.fail("layout:general:hermitian-not-reported", inp, True, False)


def layout_inputs(ctx):
    r = 1 / math.sqrt(2)
    mats = [(1, [[0, 1], [1, 0]], ("int", "real")), (1, [[r, r], [r, -r]], ("real",)), (1, [[1, 0], [0, 1j]], ()),
            (1, [[0, -1j], [1j, 0]], ()),
            (2, np.array([[0, 0, 1j, 0], [1, 0, 0, 0], [0, 0, 0, -1], [0, 1, 0, 0]]), ()),
            (2, np.array([[complex(a, b) for a, b in row] for row in random_unitary(ctx.rng, 2)]), ())]
    out = []
    for n, M, extra in mats:
        M = np.asarray(M, dtype=complex)
        for how in ("array", "list", "tuple", "fortran", "strided", "reversed") + tuple(extra):
            out.append({"comp": True, "what": "layout", "gate": "general", "n": n, "as": how,
                        "mat": [[[float(c.real), float(c.imag)] for c in row] for row in M]})
    for n, v in ((1, [0.25, 0.75]), (2, [0.5, -0.25, 0.0, 0.25]), (2, [3.0, -1.0, 2.0, 2.0]), (1, [1.0, 0.0])):
        for k, how in enumerate(("array", "list", "tuple", "strided", "reversed")):
            out.append({"comp": True, "what": "layout", "gate": "prep", "n": n, "vec": v, "as": how, "tr": k % 2 == 1})
    return out


def layout_checks(ctx, pid):
    ctx.rules.append("layout: GeneralGate / PrepareGate fed the same data as nested list / tuple / C- and Fortran-ordered / strided / "
                     "negative-stride arrays of complex, real and integer dtype; bare and controlled")
    for inp in layout_inputs(ctx):
        ctx.count("layout_" + inp["gate"])
        check_layout(ctx, pid, inp)
        if inp["as"] != "array":
            ctx.nontriv(("layout", inp["gate"], inp["as"], repr(inp.get("mat", inp.get("vec")))[:300]))


# =============================================================================== gate objects along histories
# (i)   arrays handed out by as_matrix() (of the gate, of its inverse, of its parts) must be FRESH: writing into them must not
#       change what this object, or any other instance of the class, reports afterwards; arrays handed TO a constructor: the
#       gate may follow the caller's array (by-reference parameter) but must still be a gate (unitary, invertible, flags sound)
# (ii)  nearly-equal-but-different parameters inside one composite (multiplexer targets, circuits): every target's own inverse
# (iii) inverse() -> re-bind (on / set_control / set_auxiliary_qubits) -> inverse() again, inverse().inverse() after re-binding:
#       particles and matrices, also at circuit level
def _leaf(name, q, params=None, **kw):
    d = {"k": "leaf", "name": name, "q": list(q)}
    if params is not None:
        d["params"] = list(params)
    d.update(kw)
    return d


def class_specs():
    """one or more specs (gates bound to qubits 0..w-1) for EVERY gate class of qib.operator, keyed by class name"""
    r = 1 / math.sqrt(2)
    mono = [[[0, 0], [0, 1], [0, 0], [0, 0]], [[1, 0], [0, 0], [0, 0], [0, 0]], [[0, 0], [0, 0], [0, 0], [-1, 0]], [[0, 0], [0, 0], [0, -1], [0, 0]]]
    sp = {
        "IdentityGate": [_leaf("I", [0])], "PauliXGate": [_leaf("X", [0])], "PauliYGate": [_leaf("Y", [0])], "PauliZGate": [_leaf("Z", [0])],
        "HadamardGate": [_leaf("H", [0])], "SxGate": [_leaf("Sx", [0])], "SGate": [_leaf("S", [0])], "SAdjGate": [_leaf("Sdg", [0])],
        "TGate": [_leaf("T", [0])], "TAdjGate": [_leaf("Tdg", [0])],
        "RxGate": [_leaf("Rx", [0], [0.7])], "RyGate": [_leaf("Ry", [0], [-1.3])], "RzGate": [_leaf("Rz", [0], [2.1])],
        "RotationGate": [_leaf("Rot", [0], [0.3, -0.4, 1.2]), _leaf("Rot", [0], [0.0, 0.0, 0.0])],
        "PhaseFactorGate": [_leaf("Phase", [0, 1], [0.6], n=2), _leaf("Phase", [0], [-1.1], n=1)],
        "RxxGate": [_leaf("Rxx", [0, 1], [0.9])], "RyyGate": [_leaf("Ryy", [0, 1], [-0.5])], "RzzGate": [_leaf("Rzz", [0, 1], [1.7])],
        "ISwapGate": [_leaf("ISwap", [0, 1])],
        "PrepareGate": [{"k": "prep", "n": 1, "vec": [0.25, -0.75], "tr": False, "q": [0]},
                        {"k": "prep", "n": 2, "vec": [0.0, 0.5, -0.25, 0.25], "tr": True, "q": [0, 1]}],
        "GeneralGate": [{"k": "gen", "n": 1, "mat": [[[r, 0], [0, r]], [[0, r], [r, 0]]], "q": [0]},
                        {"k": "gen", "n": 2, "mat": mono, "q": [0, 1]}],
        "ControlledGate": [{"k": "ctrl", "pat": [1], "cq": [0], "g": _leaf("Y", [1])},
                           {"k": "ctrl", "pat": [0, 1], "cq": [0, 1], "g": _leaf("Rot", [2], [0.3, 0.1, -0.2])},
                           {"k": "ctrl", "pat": [0], "cq": [0], "g": _leaf("H", [1])},
                           {"k": "ctrl", "pat": [1], "cq": [0], "g": _leaf("ISwap", [1, 2])},
                           {"k": "ctrl", "pat": [1], "cq": [0], "g": {"k": "prep", "n": 1, "vec": [0.5, 0.5], "tr": False, "q": [1]}}],
        "MultiplexedGate": [{"k": "mux", "nc": 1, "cq": [0], "gs": [_leaf("H", [1]), _leaf("T", [1])]},
                            {"k": "mux", "nc": 1, "cq": [0], "gs": [_leaf("Sx", [1]), _leaf("Rot", [1], [0.5, 0.2, -0.1])]},
                            {"k": "mux", "nc": 1, "cq": [0], "gs": [_leaf("ISwap", [1, 2]), _leaf("Rzz", [1, 2], [0.4])]}],
        "BlockEncodingGate": [{"k": "benc", "method": m, "aux": [0],
                               "h": {"op": "pauli", "n": 1, "fid": 1, "terms": [["X", 0.3], ["Z", -0.4]]}} for m in ("Wx", "Wxi", "R")],
        "TimeEvolutionGate": [{"k": "tevo", "t": 0.7, "h": {"op": "heis", "n": 2, "fid": 1, "J": [0.3, -0.2, 0.5], "h": [0.1, 0.2, -0.3]}}],
    }
    return sp


def gate_classes_without_spec():
    import inspect
    import qib.operator as qop
    have = class_specs()
    return sorted(n for n, c in vars(qop).items()
                  if inspect.isclass(c) and issubclass(c, qop.Gate) and c is not qop.Gate and not inspect.isabstract(c) and n not in have)


def fresh_dense(a):
    return np.array(a.toarray() if hasattr(a, "toarray") else a, dtype=complex, copy=True)


def scribble_array(a):
    """write into a returned / caller-owned array in place: the result is neither unitary nor Hermitian nor the old value"""
    if not isinstance(a, np.ndarray) or not a.flags.writeable or a.size == 0:
        return False
    try:
        np.multiply(a, 2, out=a, casting="unsafe")
        a.flat[a.size - 1] = 3
        if a.size > 1:
            a.flat[1] = 5
    except (ValueError, TypeError):
        return False
    return True


def observe_gate(g, with_inverse=True):
    """(matrix, matrix of inverse() or None, claims hermitian, claims unitary, num_wires) - all copies"""
    U = fresh_dense(g.as_matrix())
    Ui = fresh_dense(g.inverse().as_matrix()) if with_inverse else None
    return U, Ui, bool(g.is_hermitian()), bool(g.is_unitary()), int(g.num_wires)


def check_fresh_arrays(ctx, pid, inp):
    spec = inp["spec"]
    kind = spec["name"] if spec["k"] == "leaf" else spec["k"]
    tol = 1e-9
    try:
        world = World(nqubits_of(spec))
        own = []
        g = build(spec, world, own)
        base = observe_gate(g, pid == "C03")
    except Exception as e:
        ctx.fail("object-history:%s:construction-raises" % kind, inp, "a gate", repr(e)[:200])
        return

    def verdict(stage, who, obs, baseline_applies):
        U, Ui, herm, unit, nw = obs
        where = dict(inp, stage=stage, object=who)
        I = np.eye(U.shape[0])
        if pid == "C01" and (U.shape != (2 ** nw,) * 2 or maxerr(U @ U.conj().T, I) > tol or not unit):
            ctx.fail("object-history:%s:not-unitary-after-%s" % (kind, stage), where, "unitary matrix", maxerr(U @ U.conj().T, I))
        if pid == "C02" and baseline_applies and maxerr(U, base[0]) > tol:
            ctx.fail("object-history:%s:matrix-changed-after-%s" % (kind, stage), where, "the matrix reported before", maxerr(U, base[0]))
        if pid == "C03" and (maxerr(Ui @ U, I) > tol or maxerr(U @ Ui, I) > tol):
            ctx.fail("object-history:%s:inverse-does-not-invert-after-%s" % (kind, stage), where, "inverse() * gate = 1", maxerr(Ui @ U, I))
        if pid == "C16" and herm and maxerr(U, U.conj().T) > tol:
            ctx.fail("object-history:%s:claims-hermitian-but-is-not-after-%s" % (kind, stage), where, "U = U^dagger", maxerr(U, U.conj().T))

    def look(stage, baseline_applies):
        for who, mk in (("same object", lambda: g), ("fresh instance", lambda: build(spec, World(nqubits_of(spec))))):
            try:
                obs = observe_gate(mk(), pid == "C03")
            except Exception as e:
                ctx.fail("object-history:%s:raises-after-%s" % (kind, stage), dict(inp, stage=stage, object=who),
                         "as_matrix / inverse / flags evaluate", repr(e)[:200])
                continue
            verdict(stage, who, obs, baseline_applies or who == "fresh instance")

    try:
        # stage 1: write into every array the gate, its inverse and their parts hand out
        wrote = 0
        objs = list(walk(g)) + list(walk(g.inverse()))       # the inverse is taken BEFORE anything is written
        for rounds in range(2):
            handed = []
            for o in objs:
                try:
                    handed.append(o.as_matrix())
                except Exception:
                    pass                                       # reported by look() below
            for a in handed:
                wrote += bool(scribble_array(a))
        ctx.count("object_history_arrays_written", wrote)
        look("writing-into-returned-matrices", True)
        # stage 2: write into the arrays that were handed to constructors (the gate may follow them, but must remain a gate)
        if own:
            # the baseline comparison is not applied to the same object here: a by-reference parameter is a legitimate design
            g2_own = []
            g = build(spec, World(nqubits_of(spec)), g2_own)
            for a in g2_own:
                scribble_array(a)
            look("writing-into-constructor-arrays", False)
    except Exception as e:
        ctx.fail("object-history:%s:oracle-raises" % kind, inp, "history evaluates", repr(e)[:300])


# ---------------------------------------------------------------- arrays handed to constructors stay the caller's
# A gate is defined by the VALUES it was constructed with.  Whether a constructor ends up holding the caller's buffer depends
# on details of the numpy calls it makes (np.asarray / astype(copy=False) / ascontiguousarray / `x = x / n` skipped when the
# input is already normalised ...), i.e. on dtype, layout and on the values themselves.  So every array parameter of every gate
# class is handed over in every form and with values for which such calls return the same object; then the caller re-uses its
# buffer (writes other valid values, or garbage) and the gate, the inverse() and copy() taken BEFORE the write, and the
# wrappers around it must still report the matrices they reported before.
ARRAY_FORMS = ["plain", "buffer-view", "fortran", "narrow", "real", "int"]


def array_form(name):
    def f(a, kind):
        a = np.array(a)
        if name == "buffer-view":                       # a contiguous part of a larger work buffer
            big = np.zeros((a.shape[0] + 2,) + a.shape[1:], dtype=a.dtype)
            big[1:1 + a.shape[0]] = a
            return big[1:1 + a.shape[0]]
        if name == "fortran":
            return np.asfortranarray(a)
        if name == "narrow":                            # single precision, only when it holds the values exactly
            b = a.astype(np.complex64 if a.dtype.kind == "c" else np.float32)
            return b if np.array_equal(b.astype(a.dtype), a) else a
        if name == "real" and a.dtype.kind == "c" and np.all(a.imag == 0):
            return np.array(a.real)
        if name == "int" and np.all(a.imag == 0) and np.all(a.real == np.round(a.real)):
            return np.array(a.real).astype(int)
        return a
    return f


def benign_write(a, kind):
    """the caller re-uses its buffer for OTHER valid values of the same kind (in place)"""
    if kind == "prep":
        a[:] = -a[::-1].copy()
        if a.size > 1 and a[0] == -a[-1]:               # palindromic up to sign: move weight instead
            a[0], a[-1] = a[-1], a[0]
    elif kind == "Rot":
        a[:] = np.array([a[2] + 1, a[0] - 2, a[1] + 3])
    else:
        a[:] = a @ a if not np.allclose(a @ a, a) else a[::-1].copy()


def constructor_array_specs():
    r = 1 / math.sqrt(2)
    cx = lambda M: [[[float(np.real(c)), float(np.imag(c))] for c in row] for row in M]
    mono = [[[0, 0], [0, 1], [0, 0], [0, 0]], [[1, 0], [0, 0], [0, 0], [0, 0]], [[0, 0], [0, 0], [0, 0], [-1, 0]], [[0, 0], [0, 0], [0, -1], [0, 0]]]
    dense2 = cx(np.array([[r, r * 1j], [r * 1j, r]]))
    leaves = []
    for n, v, tr in ((1, [0.25, -0.75], False), (1, [0.5, 0.5], True), (1, [1.0, 0.0], False), (1, [0.0, -1.0], True),
                     (2, [0.0, 0.5, -0.25, 0.25], True), (2, [0.125, 0.125, 0.25, 0.5], False), (2, [3.0, -1.0, 2.0, 2.0], False),
                     (2, [0.1, 0.2, 0.3, 0.4], False), (3, [0.125] * 8, False)):
        leaves.append({"k": "prep", "n": n, "vec": v, "tr": tr, "q": list(range(n))})
    for P in ([0.3, -0.4, 1.2], [0.0, 0.0, 0.0], [1.0, 0.0, 0.0], [3.0, 4.0, 0.0]):
        leaves.append(_leaf("Rot", [0], P))
    for n, M in ((1, [[[0, 0], [1, 0]], [[1, 0], [0, 0]]]), (1, [[[1, 0], [0, 0]], [[0, 0], [0, 1]]]), (1, dense2), (2, mono)):
        leaves.append({"k": "gen", "n": n, "mat": M, "q": list(range(n))})
    out = []
    for lf in leaves:
        w = len(lf["q"])
        out.append(lf)
        out.append({"k": "ctrl", "pat": [1], "cq": [w], "g": lf})
        other = {1: _leaf("X", [0]), 2: _leaf("ISwap", [0, 1])}.get(w)
        if other is not None:
            out.append({"k": "mux", "nc": 1, "cq": [w], "gs": [other, lf]})
    return out


def check_constructor_arrays(ctx, pid, inp):
    from copy import copy
    spec = inp["spec"]
    tol = 1e-6 if inp["form"] == "narrow" else 1e-9     # single-precision parameters give single-precision matrices (not a defect)
    try:
        own = []
        world = World(nqubits_of(spec))
        g = build(spec, world, own, array_form(inp["form"]))
        if len(own) != 1:
            return None
        arr, kind = own[0]
        objs = [("gate", g), ("inverse() taken before the write", g.inverse()), ("copy() taken before the write", copy(g))]
        before = [observe_gate(o, pid == "C03") for _, o in objs]
    except Exception as e:
        if inp["form"] == "plain":
            ctx.fail("constructor-array:construction-raises:" + spec["k"], inp, "a gate", repr(e)[:200])
        else:                                           # e.g. an un-normalised integer vector (in-place division): no gate, no claim
            ctx.count("constructor_arrays:refused:" + inp["form"])
        return None
    try:
        if inp["write"] == "benign":
            benign_write(arr, kind)
        elif not scribble_array(arr):
            return None
    except (ValueError, TypeError):
        return None
    ctx.count("constructor_arrays:%s:%s" % (kind, inp["form"]))
    for (who, o), b in zip(objs, before):
        where = dict(inp, object=who)
        try:
            U, Ui, herm, unit, nw = observe_gate(o, pid == "C03")
        except Exception as e:
            ctx.fail("constructor-array:%s:raises-after-the-caller-writes-into-its-array" % kind, where, "as_matrix / inverse / flags evaluate", repr(e)[:200])
            continue
        I = np.eye(U.shape[0])
        if pid == "C01" and (U.shape != (2 ** nw,) * 2 or maxerr(U @ U.conj().T, I) > tol or not unit):
            ctx.fail("constructor-array:%s:not-unitary-after-the-caller-writes-into-its-array" % kind, where, "unitary matrix", maxerr(U @ U.conj().T, I))
        if pid == "C02" and maxerr(U, b[0]) > tol:
            ctx.fail("constructor-array:%s:matrix-changes-when-the-caller-writes-into-the-array-it-passed" % kind, where,
                     "the matrix of the gate of the values given at construction", maxerr(U, b[0]))
        if pid == "C03" and (maxerr(Ui @ U, I) > tol or maxerr(U @ Ui, I) > tol):
            ctx.fail("constructor-array:%s:inverse-does-not-invert-after-the-caller-writes-into-its-array" % kind, where, "inverse() * gate = 1", maxerr(Ui @ U, I))
        if pid == "C16" and herm and maxerr(U, U.conj().T) > tol:
            ctx.fail("constructor-array:%s:claims-hermitian-but-is-not-after-the-caller-writes-into-its-array" % kind, where, "U = U^dagger", maxerr(U, U.conj().T))
    return kind


def constructor_array_checks(ctx, pid):
    ctx.rules.append("constructor arrays stay the caller's: PrepareGate vec (already 1-norm normalised with exactly representable entries, basis "
                     "vectors, normalised up to rounding, un-normalised), RotationGate ntheta, GeneralGate mat - bare, controlled, multiplexed - "
                     "handed over as fresh array / view into a larger work buffer / Fortran order / single precision / real / integer dtype; the "
                     "caller then re-uses its buffer (other valid values; garbage); the gate, inverse() and copy() taken before the write must "
                     "report the matrices they reported before (C02) and remain gates (C01, C03, C16)")
    for spec in constructor_array_specs():
        seen = set()
        for form in ARRAY_FORMS:
            probe = []
            try:
                build(spec, World(nqubits_of(spec)), probe, array_form(form))
            except Exception:
                pass
            key = tuple((a.dtype.str, a.flags.c_contiguous, a.base is None) for a, _ in probe)
            if key in seen:                             # this form coincides with an earlier one for these values
                continue
            seen.add(key)
            for write in ("benign", "scribble"):
                k = check_constructor_arrays(ctx, pid, {"comp": True, "what": "constructor-arrays", "spec": spec, "form": form, "write": write})
                if k is not None:
                    ctx.nontriv(("constructor-arrays", form, write, repr(spec)[:600]))


def rebind(g, world, qs):
    """move a gate to the qubits qs (wire numbers of `world`) through its public binding API; returns False when the class
    offers no way to re-bind (two-qubit rotations, time evolution)"""
    T = type(g).__name__
    Q = [world.q(i) for i in qs]
    if T == "ControlledGate":
        nc = g.num_controls
        if nc:
            g.set_control(Q[:nc])
        return rebind(g.target_gate(), world, qs[nc:])
    if T == "MultiplexedGate":
        nc = g.num_controls
        if nc:
            g.set_control(Q[:nc])
        return all([rebind(t, world, qs[nc:]) for t in g.target_gates()])
    if T == "BlockEncodingGate":
        g.set_auxiliary_qubits(Q[:g.num_aux_qubits])
        return True
    if T in ("PhaseFactorGate", "PrepareGate", "GeneralGate"):
        g.on(Q)
        return True
    if T == "ISwapGate":
        g.on(Q[0], Q[1])
        return True
    if T in ("RxxGate", "RyyGate", "RzzGate", "TimeEvolutionGate"):
        return False
    g.on(Q[0])
    return True


def check_rebind(ctx, pid, inp):
    """g on wires A; gi = g.inverse(); move gi to wires B; then gi and gi.inverse() must live on B (particles, circuit matrices),
    gi.inverse() must invert gi, and inverse().inverse() taken after the move must equal the moved gate's matrix"""
    import qib
    spec = inp["spec"]
    kind = spec["name"] if spec["k"] == "leaf" else spec["k"]
    w = nqubits_of(spec)
    tol = 1e-9
    try:
        world = World(2 * w)
        g = build(spec, world)
        U = fresh_dense(g.as_matrix())
        gi = g.inverse()
        B = [2 * w - 1 - j for j in range(w)] if inp.get("reverse", True) else list(range(w, 2 * w))
        nbind = len(particles_or_none(g, world) or [])
        if type(g).__name__ == "BlockEncodingGate":
            B = B[:1]
        if not rebind(gi, world, B):
            ctx.count("rebind:no-binding-api:" + kind)
            return
        ctx.count("rebind:" + kind)
    except Exception as e:
        ctx.fail("rebind:%s:raises" % kind, inp, "inverse() can be re-bound", repr(e)[:200])
        return
    try:
        pi = particles_or_none(gi, world)
        gii = gi.inverse()
        pii = particles_or_none(gii, world)
        Ui, Uii = fresh_dense(gi.as_matrix()), fresh_dense(gii.as_matrix())
        giii = gii.inverse()
        piii = particles_or_none(giii, world)
        Uiii = fresh_dense(giii.as_matrix())
    except Exception as e:
        ctx.fail("rebind:%s:inverse-raises-after-re-binding" % kind, inp, "a gate", repr(e)[:200])
        return
    I = np.eye(U.shape[0])
    if pid == "C01":
        for nm, A in (("inverse", Ui), ("inverse-of-moved-inverse", Uii)):
            if A.shape != U.shape or maxerr(A @ A.conj().T, I) > tol:
                ctx.fail("rebind:%s:not-unitary:%s" % (kind, nm), inp, "unitary", maxerr(A @ A.conj().T, I))
    if pid == "C02" and (maxerr(Ui, U.conj().T) > tol or maxerr(Uii, U) > tol):
        ctx.fail("rebind:%s:matrix-changed-by-re-binding" % kind, inp, "matrices do not depend on the binding", max(maxerr(Ui, U.conj().T), maxerr(Uii, U)))
    if pid == "C16":
        for nm, o, A in (("inverse", gi, Ui), ("inverse-of-moved-inverse", gii, Uii)):
            if o.is_hermitian() and maxerr(A, A.conj().T) > tol:
                ctx.fail("rebind:%s:claims-hermitian-but-is-not:%s" % (kind, nm), inp, "U = U^dagger", maxerr(A, A.conj().T))
    if pid != "C03":
        return
    want = [world.num(world.q(i)) for i in B]
    sysp = None
    if type(g).__name__ == "BlockEncodingGate":
        p0 = particles_or_none(g, world)
        want = want + (p0[1:] if p0 else [])
    if pi is not None and pi != want:
        ctx.fail("rebind:%s:moved-inverse-not-on-the-new-particles" % kind, inp, want, pi)
    if pii != pi:
        ctx.fail("rebind:%s:inverse-of-moved-gate-on-other-particles" % kind, inp, pi, pii)
    if piii != pi:
        ctx.fail("rebind:%s:double-inverse-of-moved-gate-on-other-particles" % kind, inp, pi, piii)
    if maxerr(Uii @ Ui, I) > tol or maxerr(Ui @ Uii, I) > tol:
        ctx.fail("rebind:%s:inverse-of-moved-gate-does-not-invert" % kind, inp, "inverse() * gate = 1", maxerr(Uii @ Ui, I))
    if maxerr(Uiii, Ui) > tol:
        ctx.fail("rebind:%s:double-inverse-of-moved-gate-differs" % kind, inp, "g.inverse().inverse() = g", maxerr(Uiii, Ui))
    # circuit level on the whole register
    try:
        fields = world.order[:2] if world.qf2 is not None else [world.qf]
        extra = [f for f in gi.fields() if f not in fields]
        fields = fields + extra
        if sum(f.lattice.nsites for f in fields) <= 9 and pi is not None and len(pi) == gi.num_wires:
            C = qib.Circuit([gi])
            M, Mi = dense(C.as_matrix(fields)), dense(C.inverse().as_matrix(fields))
            if maxerr(Mi @ M, np.eye(M.shape[0])) > tol:
                ctx.fail("rebind:%s:circuit-inverse-of-moved-gate-does-not-invert" % kind, inp, "C.inverse() C = 1", maxerr(Mi @ M, np.eye(M.shape[0])))
            C2 = qib.Circuit([gi, gii])
            M2 = dense(C2.as_matrix(fields))
            if maxerr(M2, np.eye(M2.shape[0])) > tol:
                ctx.fail("rebind:%s:circuit-[g, g.inverse()]-is-not-the-identity-after-re-binding" % kind, inp, "identity", maxerr(M2, np.eye(M2.shape[0])))
            ctx.count("rebind:circuit-level")
    except Exception as e:
        ctx.fail("rebind:%s:circuit-raises-after-re-binding" % kind, inp, "circuit matrices", repr(e)[:200])


def close_pairs():
    """pairs of gate specs on the SAME wires whose parameters differ by less than numpy's allclose tolerance
    (rtol 1e-5, atol 1e-8) but by much more than the oracle tolerance 1e-9; w = wires of each"""
    r = 1 / math.sqrt(2)
    ph = complex(math.cos(4e-6), math.sin(4e-6))

    def gm(M, q):
        return {"k": "gen", "n": len(q), "mat": [[[float(np.real(c)), float(np.imag(c))] for c in row] for row in M], "q": q}
    H = np.array([[0, 1], [1j, 0]], dtype=complex)          # not Hermitian (is_hermitian of a GeneralGate is an allclose test)
    S2 = np.diag([1, 1j, -1, -1j]).astype(complex)
    out = [
        (1, _leaf("Rot", [1], [300.0, 0.0, 0.0]), _leaf("Rot", [1], [300.002, 0.0, 0.0])),
        (1, _leaf("Rot", [1], [0.3, -0.4, 1.2]), _leaf("Rot", [1], [0.3000012, -0.4, 1.2000031])),
        (1, _leaf("Rot", [1], [0.0, 0.0, 0.0]), _leaf("Rot", [1], [4e-9, 0.0, -6e-9])),
        (1, _leaf("Rx", [1], [1000.0]), _leaf("Rx", [1], [1000.004])),
        (1, _leaf("Ry", [1], [2.0]), _leaf("Ry", [1], [2.000008])),
        (1, _leaf("Rz", [1], [0.0]), _leaf("Rz", [1], [7e-9])),
        (2, _leaf("Rxx", [1, 2], [50.0]), _leaf("Rxx", [1, 2], [50.0002])),
        (2, _leaf("Rzz", [1, 2], [-3.0]), _leaf("Rzz", [1, 2], [-3.00001])),
        (2, _leaf("Phase", [1, 2], [1.0], n=2), _leaf("Phase", [1, 2], [1.000004], n=2)),
        (1, gm(H, [1]), gm(H * ph, [1])),
        (2, gm(S2, [1, 2]), gm(S2 @ np.diag([1, ph, 1, ph.conjugate()]), [1, 2])),
        (1, {"k": "prep", "n": 1, "vec": [0.25, 0.75], "tr": False, "q": [1]}, {"k": "prep", "n": 1, "vec": [0.250002, 0.749998], "tr": False, "q": [1]}),
        (2, {"k": "prep", "n": 2, "vec": [0.5, -0.25, 0.0, 0.25], "tr": True, "q": [1, 2]},
         {"k": "prep", "n": 2, "vec": [0.500002, -0.249999, 0.0, 0.249999], "tr": True, "q": [1, 2]}),
        (1, {"k": "tevo", "t": 100.0, "h": {"op": "pauli", "n": 1, "fid": 1, "terms": [["X", 0.5], ["Z", 0.25]]}},
         {"k": "tevo", "t": 100.0004, "h": {"op": "pauli", "n": 1, "fid": 1, "terms": [["X", 0.5], ["Z", 0.25]]}}),
    ]
    return out


def close_parameter_specs():
    """composites holding two nearly equal targets (and, as controls, two exactly equal ones / the same spec twice)"""
    specs = []
    for w, a, b in close_pairs():
        specs.append({"k": "mux", "nc": 1, "cq": [0], "gs": [a, b]})
        specs.append({"k": "mux", "nc": 1, "cq": [0], "gs": [b, a]})
        specs.append({"k": "mux", "nc": 2, "cq": [w + 1, 0], "gs": [a, b, a, b]})
        specs.append({"k": "mux", "nc": 1, "cq": [0], "gs": [a, a]})
        specs.append({"k": "ctrl", "pat": [0], "cq": [w + 1], "g": {"k": "mux", "nc": 1, "cq": [0], "gs": [a, b]}})
    return specs


def check_close_circuit(ctx, pid, inp):
    """a circuit [a, b, a] of nearly equal gates: C.inverse() C = 1 and C.inverse() = a^dagger b^dagger a^dagger"""
    if pid != "C03":
        return
    import qib
    try:
        w = max(nqubits_of(x) for x in inp["gates"])
        world = World(w)
        gates = [build(x, world) for x in inp["gates"]]
        if any(len(g.particles()) != g.num_wires for g in gates):
            return
        C = qib.Circuit(gates)
        fields = C.fields()
        if sum(f.lattice.nsites for f in fields) > 8:
            return
        M, Mi = dense(C.as_matrix(fields)), dense(C.inverse().as_matrix(fields))
    except Exception as e:
        ctx.fail("close-parameters:circuit-raises", inp, "circuit matrices", repr(e)[:200])
        return
    if maxerr(Mi @ M, np.eye(M.shape[0])) > TOL:
        ctx.fail("close-parameters:circuit-inverse-does-not-invert", inp, "C.inverse() C = 1", maxerr(Mi @ M, np.eye(M.shape[0])))


def object_history_checks(ctx, pid):
    ctx.rules.append(
        "gate objects along histories, EVERY gate class of qib.operator (found by introspection; a class without a spec breaks an "
        "obligation): (i) write in place into every matrix handed out by the gate, its inverse() and their parts, then as_matrix / "
        "inverse / flags of the same object and of a fresh instance against the values reported before; the same with the arrays that "
        "were handed to constructors (the gate may follow them but must remain a gate); (ii) multiplexers (1-2 controls, nested in a "
        "controlled gate) and circuits whose targets differ by less than numpy's allclose tolerance but more than 1e-9 (rotation vectors / "
        "angles, large and tiny, phase factors, user-defined matrices, preparation vectors, evolution times): all oracles of the property; "
        "(iii) g.inverse() moved to other qubits through on / set_control / set_auxiliary_qubits, then inverse() and inverse().inverse(): "
        "particles, matrices, Circuit([g]).inverse() and Circuit([g, g.inverse()]) on the register")
    missing = gate_classes_without_spec()
    ctx.oblige("object-histories:every-gate-class-has-a-spec", "correspondence", not missing, "no spec for: %s" % ", ".join(missing))
    for cls, specs in sorted(class_specs().items()):
        for spec in specs:
            ctx.count("object_history:" + cls)
            # re-binding first: a defect of class (i) (shared arrays) would otherwise be reported under its name too
            check_rebind(ctx, pid, {"comp": True, "what": "rebind", "spec": spec})
            check_fresh_arrays(ctx, pid, {"comp": True, "what": "fresh-arrays", "spec": spec})
            ctx.nontriv(("object-history", cls, repr(spec)[:600]))
    for spec in close_parameter_specs():
        ctx.count("close_parameter_composites")
        check_tree(ctx, pid, spec, [], [], only_oracle=True)
        ctx.nontriv(("close-parameters", repr(spec)[:900]))
    for w, a, b in close_pairs():
        if a["k"] != "tevo":
            check_close_circuit(ctx, pid, {"comp": True, "what": "close-circuit", "gates": [a, b, a]})
    constructor_array_checks(ctx, pid)


# =============================================================================== mixed element types inside one composite
# A composite assembles the matrices its parts report into ONE array.  The parts' arrays have different element types: user
# matrices of int / bool / float32 / complex64 entries (GeneralGate keeps the dtype it is given), float64 for H, Ry,
# PrepareGate, the real Pauli gates, complex128 for S, T, Y, Rz ...  An assembly that allocates its result from ONE part (the
# first, the last) and copies the others into it truncates (1/sqrt2 -> 0 in an int array), drops imaginary parts or wraps
# around.  So: multiplexers over targets of every pair / triple / quadruple of element types in EVERY order (1-3 controls, one-
# and two-qubit targets, composite targets), controlled gates over each, nesting, inverse(), and circuits of such gates.
TYPED_MATS = {
    "X": [[0, 1], [1, 0]], "Z": [[1, 0], [0, -1]], "I": [[1, 0], [0, 1]], "iY": [[0, 1], [-1, 0]], "-X": [[0, -1], [-1, 0]],
    "rot": [[0.6, -0.8], [0.8, 0.6]], "refl": [[0.28, 0.96], [0.96, -0.28]], "Y": [[0, -1j], [1j, 0]], "S": [[1, 0], [0, 1j]],
    "SWAP": [[1, 0, 0, 0], [0, 0, 1, 0], [0, 1, 0, 0], [0, 0, 0, 1]], "CNOT": [[1, 0, 0, 0], [0, 1, 0, 0], [0, 0, 0, 1], [0, 0, 1, 0]],
    "SHIFT": [[0, 0, 0, 1], [1, 0, 0, 0], [0, 1, 0, 0], [0, 0, 1, 0]], "mSWAP": [[1, 0, 0, 0], [0, 0, -1, 0], [0, 1, 0, 0], [0, 0, 0, -1]],
    "iSWAPm": [[1, 0, 0, 0], [0, 0, 1j, 0], [0, 1j, 0, 0], [0, 0, 0, 1]],
}


def typed_gen(name, dtype, q):
    M = TYPED_MATS[name]
    return {"k": "gen", "n": len(q), "dtype": dtype, "q": list(q),
            "mat": [[[float(np.real(c)), float(np.imag(c))] for c in row] for row in M]}


def typed_pool(q):
    """one-qubit targets on qubit list q by element type of the matrix they report (category -> list of specs)"""
    return {
        "int": [typed_gen("X", "int64", q), typed_gen("iY", "int64", q), typed_gen("Z", "int8", q), typed_gen("X", "uint8", q),
                typed_gen("-X", "int32", q), typed_gen("I", "int16", q)],
        "bool": [typed_gen("X", "bool", q), typed_gen("I", "bool", q)],
        "lowfloat": [typed_gen("X", "float32", q), typed_gen("Z", "float32", q), typed_gen("iY", "float32", q)],
        "realfrac": [_leaf("H", q), _leaf("Ry", q, [0.3]), {"k": "prep", "n": 1, "vec": [0.2, -0.8], "tr": False, "q": list(q)},
                     typed_gen("rot", "float64", q), _leaf("Ry", q, [-1.1]), {"k": "prep", "n": 1, "vec": [0.5, 0.5], "tr": True, "q": list(q)},
                     typed_gen("refl", "longdouble", q)],
        "realint": [_leaf("X", q), _leaf("Z", q), typed_gen("iY", "float64", q), _leaf("I", q)],
        "complex": [_leaf("S", q), _leaf("Rz", q, [0.4]), _leaf("Y", q), _leaf("T", q), _leaf("Rx", q, [0.7]), _leaf("Rot", q, [0.3, -0.4, 1.2]),
                    _leaf("Sx", q)],
        "complex64": [typed_gen("Y", "complex64", q), typed_gen("S", "complex64", q)],
    }


def typed_pool2(q, c):
    """two-wire targets (q = two qubits; c = an inner control qubit + target for the composite ones)"""
    return {
        "int": [typed_gen("SWAP", "int64", q), typed_gen("SHIFT", "int8", q), typed_gen("mSWAP", "int32", q)],
        "bool": [typed_gen("CNOT", "bool", q), typed_gen("SWAP", "bool", q)],
        "lowfloat": [typed_gen("mSWAP", "float32", q), typed_gen("SHIFT", "float32", q)],
        "realfrac": [{"k": "ctrl", "pat": [1], "cq": [c[0]], "g": _leaf("H", [c[1]])},
                     {"k": "ctrl", "pat": [0], "cq": [c[0]], "g": _leaf("Ry", [c[1]], [2.0])},
                     {"k": "prep", "n": 2, "vec": [0.1, -0.2, 0.3, 0.4], "tr": False, "q": list(q)},
                     {"k": "mux", "nc": 1, "cq": [c[0]], "gs": [_leaf("H", [c[1]]), _leaf("Ry", [c[1]], [2.0])]}],
        "realint": [{"k": "ctrl", "pat": [1], "cq": [c[0]], "g": _leaf("X", [c[1]])},
                    {"k": "mux", "nc": 1, "cq": [c[0]], "gs": [typed_gen("X", "int64", [c[1]]), typed_gen("iY", "int64", [c[1]])]}],
        # (ISwap / Rzz leaves are not mixed with user matrices here: their fields() lists the field once per qubit, a GeneralGate's
        #  once, and MultiplexedGate.fields() asserts equality - recorded in notes/gates_comp.md, a loud refusal, not a wrong matrix)
        "complex": [typed_gen("iSWAPm", "complex128", q), {"k": "ctrl", "pat": [0], "cq": [c[0]], "g": _leaf("Rz", [c[1]], [0.4])},
                    {"k": "ctrl", "pat": [1], "cq": [c[0]], "g": _leaf("S", [c[1]])}, typed_gen("iSWAPm", "complex64", q)],
    }


def mixed_dtype_inputs(thorough):
    """deterministic (no PRNG); every input {"comp", "what": "mixed-dtype", "nq", "gates": [bound tree specs]}"""
    out = []
    pick = [0]

    def take(pool, cat):
        pick[0] += 1
        lst = pool[cat]
        return lst[pick[0] % len(lst)]

    def emit(*specs):
        out.append({"comp": True, "what": "mixed-dtype", "nq": max(nqubits_of(s) for s in specs), "gates": list(specs)})

    cats = ["int", "bool", "lowfloat", "realfrac", "realint", "complex", "complex64"]
    # (a) one control: every ordered pair of element types (both members of a category pair rotate through its representatives)
    P1 = typed_pool([1])
    for a in cats:
        for b in cats:
            if a == b and a not in ("int", "realfrac"):
                continue
            for rep in range(len(P1[a]) * len(P1[b]) if thorough else 1):
                emit({"k": "mux", "nc": 1, "cq": [0], "gs": [take(P1, a), take(P1, b)]})
    # (b) two controls: an integer-typed / bool / single-precision first block, then every ORDER of three further types;
    #     and the integer-typed block at every later position
    P2 = typed_pool([2])
    first = ["int", "bool", "lowfloat"] + (["realint", "realfrac", "complex64"] if thorough else [])
    rest_sets = [("realfrac", "complex", "int"), ("realfrac", "realfrac", "complex"), ("bool", "realfrac", "complex64"),
                 ("realint", "lowfloat", "realfrac"), ("realfrac", "realfrac", "realfrac"), ("complex", "realfrac", "realfrac")]
    for f in first:
        for k, rs in enumerate(rest_sets):
            perms = sorted(set(itertools.permutations(rs)))
            if not thorough:
                perms = perms[(k % 2)::2] if len(perms) > 2 else perms
            for perm in perms:
                emit({"k": "mux", "nc": 2, "cq": [0, 1], "gs": [take(P2, f)] + [take(P2, c) for c in perm]})
    for pos in range(4):
        gs = [take(P2, "realfrac") for _ in range(4)]
        gs[pos] = take(P2, "int")
        emit({"k": "mux", "nc": 2, "cq": [1, 0], "gs": gs})
    # (c) three controls: eight blocks, the only non-integer real block at every index behind an integer-typed first block; all types
    P3 = typed_pool([3])
    for pos in (range(1, 8) if thorough else (1, 4, 7)):
        gs = [take(P3, "int") if i % 2 == 0 else take(P3, "bool") for i in range(8)]
        gs[pos] = take(P3, "realfrac")
        emit({"k": "mux", "nc": 3, "cq": [0, 1, 2], "gs": gs})
    emit({"k": "mux", "nc": 3, "cq": [2, 0, 1], "gs": [take(P3, c) for c in cats] + [take(P3, "realfrac")]})
    emit({"k": "mux", "nc": 3, "cq": [0, 1, 2], "gs": [take(P3, c) for c in reversed(cats)] + [take(P3, "int")]})
    # (d) two-wire targets: user-defined integer permutations next to controlled-H / controlled-Ry / preparations / multiplexers
    Q = typed_pool2([1, 2], [1, 2])
    cats2 = list(Q)
    for a in cats2:
        for b in cats2:
            if a == b and a != "int":
                continue
            emit({"k": "mux", "nc": 1, "cq": [0], "gs": [take(Q, a), take(Q, b)]})
    Q3 = typed_pool2([2, 3], [2, 3])
    for k, perm in enumerate(itertools.permutations(("int", "realfrac", "complex", "bool"))):
        if thorough or k % 3 == 0:
            emit({"k": "mux", "nc": 2, "cq": [0, 1], "gs": [take(Q3, c) for c in perm]})
    # (e) controlled gates (1, 2 controls; active on 0 / 1) over every element type, and around mixed multiplexers; nesting
    P0 = typed_pool([0])
    for k, c in enumerate(cats):
        for rep in range(len(P0[c]) if thorough else 2):
            emit({"k": "ctrl", "pat": [k % 2], "cq": [1], "g": take(P0, c)})
        emit({"k": "ctrl", "pat": [1, k % 2], "cq": [2, 1], "g": take(P0, c)})
    for a, b in (("int", "realfrac"), ("bool", "realfrac"), ("realfrac", "int"), ("int", "complex"), ("lowfloat", "realfrac")):
        inner = {"k": "mux", "nc": 1, "cq": [1], "gs": [take(P2, a), take(P2, b)]}
        emit({"k": "ctrl", "pat": [0], "cq": [0], "g": inner})
        emit({"k": "ctrl", "pat": [1], "cq": [0], "default_state": True, "g": inner})
    emit({"k": "ctrl", "pat": [0], "cq": [0], "g": {"k": "mux", "nc": 1, "cq": [1], "gs": [take(Q3, "int"), take(Q3, "realfrac")]}})
    for a, b in (("int", "realfrac"), ("realfrac", "int"), ("bool", "complex"), ("int", "lowfloat")):
        emit({"k": "mux", "nc": 1, "cq": [0], "gs": [{"k": "mux", "nc": 1, "cq": [1], "gs": [take(P2, a), take(P2, a)]},
                                                      {"k": "mux", "nc": 1, "cq": [1], "gs": [take(P2, b), take(P2, b)]}]})
    # (f) circuits of gates of different element types on overlapping wires, in every order
    trio = [("int", "realfrac", "complex"), ("bool", "lowfloat", "realfrac"), ("int", "int", "realfrac"), ("complex64", "int", "realfrac")]
    for t in trio:
        for k, perm in enumerate(sorted(set(itertools.permutations(range(3))))):
            if not thorough and k % 2:
                continue
            g0 = take(typed_pool([0]), t[0])
            g1 = {"k": "mux", "nc": 1, "cq": [2], "gs": [take(typed_pool([1]), t[1]), take(typed_pool([1]), t[2])]}
            g2 = take(typed_pool2([2, 0], [2, 0]), t[0] if t[0] in ("int", "bool") else "int")
            gs = [g0, g1, g2]
            emit(*[gs[i] for i in perm])
    return out


def embed_on_wires(U, wires, nw):
    """numpy reference: U acting on `wires` (first = most significant index of U) of an nw-wire register, identity elsewhere"""
    m = len(wires)
    rest = [w for w in range(nw) if w not in wires]
    T = np.kron(U, np.eye(2 ** (nw - m))).reshape((2,) * (2 * nw))
    inv = [int(i) for i in np.argsort(list(wires) + rest)]
    return T.transpose(inv + [nw + i for i in inv]).reshape((2 ** nw, 2 ** nw))


def check_mixed_dtype(ctx, pid, inp):
    import qib
    world = World(inp["nq"])
    try:
        gates = [build(s, world) for s in inp["gates"]]
    except Exception as e:
        ctx.fail("mixed-dtype:construction-raises", inp, "gates", repr(e)[:200])
        return
    I = lambda M: np.eye(M.shape[0])
    for i, (s, g) in enumerate(zip(inp["gates"], gates)):
        where = dict(inp, gate=i) if len(gates) > 1 else inp

        def fail(sig, expected, observed):
            ctx.fail("mixed-dtype:" + sig, where, expected, observed)
        try:
            oracle(ctx, pid, s, g, world, fail)
            inv = g.inverse()
            Ui = dense(inv.as_matrix())
            if pid == "C01" and (Ui.shape != (2 ** g.num_wires,) * 2 or maxerr(Ui @ Ui.conj().T, I(Ui)) > TOL or not inv.is_unitary()):
                fail("inverse().as_matrix:not-unitary:" + s["k"], "unitary of size 2^num_wires", maxerr(Ui @ Ui.conj().T, I(Ui)))
            if pid == "C02" and maxerr(Ui, ref_matrix(g, s).conj().T) > TOL:
                fail("inverse().as_matrix:differs-from-adjoint-of-the-reference:" + s["k"], "adjoint of the bitwise reference",
                     maxerr(Ui, ref_matrix(g, s).conj().T))
            if pid == "C16" and inv.is_hermitian() and maxerr(Ui, Ui.conj().T) > TOL:
                fail("inverse().is_hermitian:true-but-matrix-not-hermitian:" + s["k"], "U = U^dagger", maxerr(Ui, Ui.conj().T))
        except Exception as e:
            ctx.fail("mixed-dtype:oracle-raises:" + s["k"], where, "matrix / inverse / flags evaluate", repr(e)[:300])
            return
    if len(gates) < 2:
        return
    try:
        fields = list(world.order)
        off, o = {}, 0
        for k, f in enumerate(fields):
            off[k] = o
            o += f.lattice.nsites
        nw = o
        R = np.eye(2 ** nw, dtype=complex)
        for i, g in enumerate(gates):
            wires = [off[world.num(p) // 100] + world.num(p) % 100 for p in g.particles()]
            E = embed_on_wires(dense(g.as_matrix()), wires, nw)
            A = dense(g.as_circuit_matrix(fields))
            if pid == "C01" and (A.shape != (2 ** nw,) * 2 or maxerr(A @ A.conj().T, I(A)) > TOL):
                ctx.fail("mixed-dtype:as_circuit_matrix:not-unitary", dict(inp, gate=i), "unitary", maxerr(A @ A.conj().T, I(A)))
            if pid == "C02" and maxerr(A, E) > TOL:
                ctx.fail("mixed-dtype:as_circuit_matrix:differs-from-embedded-matrix", dict(inp, gate=i), "gate matrix on its wires", maxerr(A, E))
            R = E @ R
        C = qib.Circuit(gates)
        M = dense(C.as_matrix(fields))
        if pid == "C01" and (M.shape != (2 ** nw,) * 2 or maxerr(M @ M.conj().T, I(M)) > TOL):
            ctx.fail("mixed-dtype:circuit:matrix-not-unitary", inp, "unitary", maxerr(M @ M.conj().T, I(M)))
        if pid == "C02" and maxerr(M, R) > TOL:
            ctx.fail("mixed-dtype:circuit:matrix-differs-from-ordered-product", inp, "G_k ... G_1 (numpy embedding)", maxerr(M, R))
        if pid == "C03":
            Mi = dense(C.inverse().as_matrix(fields))
            if maxerr(Mi @ M, I(M)) > TOL or maxerr(Mi, R.conj().T) > TOL:
                ctx.fail("mixed-dtype:circuit:inverse-does-not-invert", inp, "C.inverse() C = 1", maxerr(Mi @ M, I(M)))
    except Exception as e:
        ctx.fail("mixed-dtype:circuit:raises", inp, "circuit matrices evaluate", repr(e)[:300])


def mixed_dtype_checks(ctx, pid):
    ctx.rules.append("mixed element types: multiplexers (1-3 controls; one- and two-wire targets) whose targets report matrices of different "
                     "dtypes - user matrices of int64/32/16/8, uint8, bool, float32, longdouble, complex64 entries, float64 (H, Ry, "
                     "PrepareGate, controlled-H, X, Z), complex128 (S, T, Y, Rz, Rx, ISwap, Rzz) - every ordered pair of types, an integer / "
                     "bool / single-precision first block followed by every order of three further types, the integer block at every "
                     "position, the single non-integer block at every index of eight; controlled gates over each type and around mixed "
                     "multiplexers, nested multiplexers, inverse() of each, circuits of three such gates in every order (all oracles of "
                     "the property; no PRNG)")
    for inp in mixed_dtype_inputs(ctx.thorough):
        ctx.count("mixed_dtype_" + ("circuit" if len(inp["gates"]) > 1 else inp["gates"][0]["k"]))
        check_mixed_dtype(ctx, pid, inp)
        if pid != "C16" or len(inp["gates"]) == 1:
            ctx.nontriv(("mixed-dtype", repr(inp["gates"])[:3000]))


# =============================================================================== C03, circuit level
def gen_circuit(rng, thorough):
    """a circuit of 2..8 bound gates (gate trees of <= 3 wires, depth <= 2) on a register of 2..5 qubits"""
    nq = rng.randint(2, 5)
    length = rng.randint(2, 8 if thorough else 6)
    g = Gen(rng, exact=rng.random() < 0.3, bind=True)
    gates = []
    for _ in range(length):
        w = rng.randint(1, min(3, nq))
        qs = rng.sample(range(nq), w)
        if w == 1:
            spec = g.leaf(1, qs) if rng.random() < 0.8 else g.general(1, qs)
        else:
            spec = g.tree(rng.randint(0, 2), w, qs)
        gates.append(spec)
    return {"comp": True, "what": "circuit", "nq": nq, "gates": gates}


def check_circuit(ctx, inp):
    """oracle on the implementation: Circuit.inverse().as_matrix(fields) @ Circuit.as_matrix(fields) = 1 (both orders), and
    C.inverse() equals the independent reference (product of the adjoint gate matrices in reversed order).
    Returns False when the circuit was skipped (register too large / a gate not fully bound)."""
    import qib
    world = World(inp["nq"])
    try:
        gates = [build(s, world) for s in inp["gates"]]
        C = qib.Circuit(gates)
        fields = C.fields()
    except Exception:
        # not a circuit (e.g. a multiplexer whose targets live on different fields refuses fields()/particles())
        ctx.count("circuit_not_constructible")
        return False
    if sum(f.lattice.nsites for f in fields) > 7:
        return False
    try:
        if any(len(g.particles()) != g.num_wires for g in gates):
            return False
    except Exception:
        return False
    try:
        M = dense(C.as_matrix(fields))
    except Exception as e:
        ctx.fail("circuit:as_matrix-raises", inp, "a matrix", repr(e)[:200])
        return True
    try:
        Ci = C.inverse()
        Mi = dense(Ci.as_matrix(fields))
    except Exception as e:
        ctx.fail("circuit-inverse:raises:multi", inp, "matrix of C.inverse()", repr(e)[:200])
        return True
    I = np.eye(M.shape[0])
    if Mi.shape != M.shape or maxerr(Mi @ M, I) > TOL or maxerr(M @ Mi, I) > TOL:
        ctx.fail("circuit-inverse:not-inverse:multi", inp, "C.inverse() C = C C.inverse() = I",
                 maxerr(Mi @ M, I) if Mi.shape == M.shape else Mi.shape)
    # reference: adjoint of the product, built gate by gate from the embedded gate matrices
    R = I.astype(complex)
    for g in gates:
        R = R @ dense(g.as_circuit_matrix(fields)).conj().T       # (G_k ... G_1)^dagger = G_1^dagger ... G_k^dagger
    if maxerr(Mi, R) > TOL:
        ctx.fail("circuit-inverse:differs-from-reversed-adjoints", inp, "G_1^dagger ... G_k^dagger", maxerr(Mi, R))
    # the inverse circuit lists the same particles, gate by gate in reversed order
    try:
        pa = [[world.num(p) for p in g.particles()] for g in reversed(gates)]
        pb = [[world.num(p) for p in g.particles()] for g in Ci.gates]
        if pa != pb:
            ctx.fail("circuit-inverse:particles-differ:multi", inp, pa, pb)
    except Exception as e:
        ctx.fail("circuit-inverse:particles-raise:multi", inp, "particles", repr(e)[:200])
    return True


def check_circuit_history(ctx, inp):
    """Circuit.inverse() along a history of uses.  inp = {"nq", "gates": [...], "extra": [...], "ops": [...]};
    ops (each followed by the oracle  C.inverse() * C = 1  on the CURRENT C, with as many gates as C):
      "inverse"            Ci = C.inverse()
      "extend-returned"    append / prepend the extra gates to the circuit the last inverse() returned
      "append" / "prepend" add an extra gate to C through the builder API
      "pop"                edit the public list C.gates directly
      "twice"              C.inverse().inverse() has the matrix of C
    and every circuit returned earlier must still have the matrix it had when it was returned, unless the harness itself
    extended it.  Returns False when skipped."""
    import qib
    from copy import copy
    world = World(inp["nq"])
    try:
        gates = [build(s, world) for s in inp["gates"]]
        extra = [build(s, world) for s in inp["extra"]]
        C = qib.Circuit(gates)
        fields = qib.Circuit(gates + extra).fields()
        if sum(f.lattice.nsites for f in fields) > 7 or any(len(g.particles()) != g.num_wires for g in gates + extra):
            return False
    except Exception:
        return False
    returned = []        # (circuit object, matrix when returned, touched by the harness)
    k_extra = 0

    def mat(c):
        return dense(c.as_matrix(fields))

    def oracle(step):
        Ci = C.inverse()
        M, Mi = mat(C), mat(Ci)
        if len(Ci.gates) != len(C.gates):
            ctx.fail("circuit-inverse:history:wrong-number-of-gates", dict(inp, step=step), len(C.gates), len(Ci.gates))
        if maxerr(Mi @ M, np.eye(M.shape[0])) > TOL:
            ctx.fail("circuit-inverse:history:not-inverse-of-current-circuit", dict(inp, step=step), "C.inverse() C = I",
                     maxerr(Mi @ M, np.eye(M.shape[0])))
        for j, (c, m0, touched) in enumerate(returned):
            if not touched and maxerr(mat(c), m0) > TOL:
                ctx.fail("circuit-inverse:history:earlier-result-changed", dict(inp, step=step, earlier=j),
                         "a circuit returned by inverse() keeps its matrix", maxerr(mat(c), m0))
        returned.append([Ci, Mi, False])

    try:
        for step, op in enumerate(inp["ops"]):
            if op == "inverse":
                pass
            elif op == "extend-returned":
                if returned:
                    tgt = returned[-1]
                    tgt[0].append_gate(extra[k_extra % len(extra)])
                    tgt[0].prepend_circuit(qib.Circuit([extra[(k_extra + 1) % len(extra)]]))
                    tgt[2] = True
                    k_extra += 1
            elif op == "append":
                C.append_gate(extra[k_extra % len(extra)])
                k_extra += 1
            elif op == "prepend":
                C.prepend_gate(extra[k_extra % len(extra)])
                k_extra += 1
            elif op == "pop":
                if len(C.gates) > 1:
                    C.gates.pop()
            elif op == "twice":
                M2 = mat(C.inverse().inverse())
                if maxerr(M2, mat(C)) > TOL:
                    ctx.fail("circuit-inverse:history:double-inverse-differs", dict(inp, step=step), "C", maxerr(M2, mat(C)))
            else:
                raise ValueError(op)
            oracle(step)
    except Exception as e:
        ctx.fail("circuit-inverse:history:raises", inp, "history evaluates", repr(e)[:300])
    return True


CIRCUIT_HISTORIES = [
    ["inverse", "extend-returned", "inverse", "twice"],
    ["inverse", "inverse", "extend-returned", "append", "extend-returned", "inverse"],
    ["append", "inverse", "prepend", "extend-returned", "pop", "inverse"],
    ["inverse", "pop", "twice", "extend-returned", "prepend"],
]


def circuit_level(ctx):
    """C03 'for every circuit C and register': theorem file coq/props/C03i.v (compiled after C03c.v, against the
    regenerated Circuit.inverse form) + oracle sweep over random multi-gate circuits of non-commuting gates"""
    ctx.trusted.append("C03 circuit level: Circuit.inverse's gate list is regenerated from circuit.py (gen/gates_comp.py, fail-closed; "
                       "Circuit.__init__ storing list(gates) and the as_matrix loop are asserted textually); the circuit matrix is the "
                       "model of C05 (Qib.Embed.CircModel.cmat, gate embedding = C04's embed); the link 'particles -> distinct in-range "
                       "wires' (map_particle_to_wire) is a hypothesis of the theorem, shown in C04")
    ctx.rules.append("circuit level: random circuits of 2-%d bound gates (elementary / general / prepare / controlled / multiplexed / "
                     "block-encoding / time-evolution trees of <= 3 wires) on 2-5 qubits (+ operator fields, register <= 7 wires); oracle: "
                     "C.inverse() C = C C.inverse() = 1, C.inverse() = G_1^dagger ... G_k^dagger, same particles gate by gate in reversed "
                     "order; histories of uses (inverse / extend the returned circuit / inverse again / change C through the builder API or "
                     "its public gate list / inverse twice) with C.inverse() C = 1 on the current C and earlier results unchanged. "
                     "non-trivial = circuit whose matrix differs from the matrix of the reversed circuit (order matters)"
                     % (8 if ctx.thorough else 6))
    ctx.lib(["Gates/CircInverse"])
    forbidden_gate(ctx, os.path.join(COQ, "theories", "Gates", "CircInverse.v"))
    src = os.path.join(COQ, "props", "C03i.v")
    forbidden_gate(ctx, src)
    deps_ok = all(o["ok"] for o in ctx.obligations if o["name"] == "translator:GenGatesComp") and \
        os.path.exists(os.path.join(ctx.build, "Prop_C03c.vo"))
    if deps_ok:
        ctx.props(src)
    else:
        ctx.oblige("props:C03i", "theorem", False, "not compiled: GenGatesComp / Prop_C03c missing")
    import qib
    n, done = (400 if ctx.thorough else 60), 0
    for _ in range(4 * n):
        if done >= n:
            break
        inp = gen_circuit(ctx.rng, ctx.thorough)
        if not check_circuit(ctx, inp):
            ctx.count("circuit_skipped")
            continue
        done += 1
        ctx.count("circuit_len=%d" % len(inp["gates"]))
        ctx.count("circuits_checked")
        try:
            world = World(inp["nq"])
            gs = [build(s, world) for s in inp["gates"]]
            fl = qib.Circuit(gs).fields()
            A, B = dense(qib.Circuit(gs).as_matrix(fl)), dense(qib.Circuit(gs[::-1]).as_matrix(fl))
            if maxerr(A, B) > 1e-6:
                ctx.nontriv(repr(inp)[:4000])
                ctx.count("circuit_order_matters")
        except Exception:
            pass
        if done <= 2:
            ctx.sample({"circuit": [kinds_of(s)[:6] for s in inp["gates"]], "nq": inp["nq"]}, cap=7)
        # histories of uses of inverse() on every 4th circuit (all of them in the thorough tier)
        if ctx.thorough or done % 4 == 1:
            g2 = Gen(ctx.rng, exact=True, bind=True)
            extra = [g2.leaf(1, [ctx.rng.randrange(inp["nq"])]) for _ in range(3)]
            hist = {"comp": True, "what": "circuit-history", "nq": inp["nq"], "gates": inp["gates"], "extra": extra,
                    "ops": CIRCUIT_HISTORIES[(done // 4) % len(CIRCUIT_HISTORIES)]}
            if check_circuit_history(ctx, hist):
                ctx.count("circuit_histories")


def replay(ctx, pid, data):
    inp = data.get("input")
    if not (isinstance(inp, dict) and inp.get("comp")):
        return False
    before = len(ctx.failing)
    if inp["what"] == "tree":
        check_tree(ctx, pid, inp["spec"], [], [], only_oracle=True)
    elif inp["what"] == "circuit":
        check_circuit(ctx, inp)
    elif inp["what"] == "history":
        check_history(ctx, pid, inp)
    elif inp["what"] == "wide-control":
        check_wide_control(ctx, inp)
    elif inp["what"] == "layout":
        check_layout(ctx, pid, inp)
    elif inp["what"] == "mixed-dtype":
        check_mixed_dtype(ctx, pid, inp)
    elif inp["what"] == "fresh-arrays":
        check_fresh_arrays(ctx, pid, inp)
    elif inp["what"] == "constructor-arrays":
        check_constructor_arrays(ctx, pid, inp)
    elif inp["what"] == "rebind":
        check_rebind(ctx, pid, inp)
    elif inp["what"] == "close-circuit":
        check_close_circuit(ctx, pid, inp)
    elif inp["what"] == "generator-rep":
        check_generator_rep(ctx, pid, dict(inp, gates=[inp["gate"]] if "gate" in inp else inp["gates"]))
    elif inp["what"] == "circuit-history":
        check_circuit_history(ctx, inp)
    elif inp["what"] == "general":
        import qib
        M = np.array([[complex(a, b) for a, b in row] for row in inp["mat"]])
        try:
            g = qib.GeneralGate(M, inp["n"])
        except ValueError:
            g = None
        if g is None:
            if inp["kind"] != "wrong-shape" and M.shape[0] == M.shape[1]:
                D = np.abs(M @ M.conj().T - np.eye(M.shape[0]))
                if np.all(D <= (1e-8 + 1e-5 * np.eye(M.shape[0])) * (1 - 1e-6)):
                    ctx.fail(data["sig"], inp, data.get("expected"), "still rejects")
        else:
            U = dense(g.as_matrix())
            D = np.abs(U @ U.conj().T - np.eye(U.shape[0]))
            want = bool(np.all(np.abs(U - U.conj().T) <= 1e-8 + 1e-5 * np.abs(U.conj().T)))
            if (pid == "C01" and not np.all(D <= 1e-8 + 1e-5 * np.eye(U.shape[0]))) or \
                    (pid == "C16" and bool(g.is_hermitian()) != want):
                ctx.fail(data["sig"], inp, data.get("expected"), "still fails")
    else:
        run_special(ctx, pid, inp)
    # report under the recorded signature
    new = ctx.failing[before:]
    del ctx.failing[before:]
    if new:
        ctx.fail(data["sig"], inp, data.get("expected"), new[0]["observed"])
    return True
