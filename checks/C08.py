"""C08 - network surgery keeps the network consistent and means what it says."""
import copy, os, sys
import numpy as np
from vlib import coqterm as ct

sys.path.insert(0, os.path.join(os.path.dirname(os.path.dirname(os.path.abspath(__file__))), "gen"))
import tn

HEADER = "From Qib Require Import TN.TNCheck.\n"
CAP = 40000


def exec_sequence(desc, ops):
    """Run the implementation on an operation sequence.  Returns (records, fails, final):
    records: per op  dict(op=..., obs=None | (stn snapshot term data...)),
    fails:   [(sig, expected, observed)] found by the independent oracles."""
    from qib.tensor_network.tensor_network import to_full_tensor
    fails = []
    net = tn.build(desc)
    refs = tn.Refs()
    for t in net.net.tensors.values():
        refs.code(t.dataref)
    rec = {"net0": tn.net_term(net.net, refs), "consistent0": bool(safe_consistent(net.net)), "steps": [], "refs": refs}
    if not rec["consistent0"] or not tn.ref_consistent(net.net):
        fails.append(("generator:initial-network-not-consistent", True, False))
        return rec, fails, net
    val = tn.ref_dense(net.net, net.data)
    others = []
    stopped = False
    for op in ops:
        kind = op[0]
        before = tn.snapshot(net.net)
        before_vbids = list(net.net.tensors[-1].bids)
        cnt0 = (net.num_tensors, net.num_bonds, net.num_open_axes)
        accepted, clash = True, False
        term = None
        try:
            if kind == "rename_tensor":
                term = "ORenT %s %s" % (ct.z(op[1]), ct.z(op[2]))
                net.net.rename_tensor(op[1], op[2])
            elif kind == "rename_bond":
                term = "ORenB %s %s" % (ct.z(op[1]), ct.z(op[2]))
                net.net.rename_bond(op[1], op[2])
            elif kind == "transpose":
                axes = op[1]
                eff = list(reversed(range(net.num_open_axes))) if axes is None else list(axes)
                term = "OTrans %s" % tn.nl(eff)
                net.transpose(None if axes is None else list(axes))
            elif kind == "merge":
                other = tn.build(op[1])
                for t in other.net.tensors.values():
                    refs.code(t.dataref)
                joins = [tuple(j) for j in op[2]]
                ordT = list(net.net.tensors.keys() & other.net.tensors.keys())
                ordB = list(net.net.bonds.keys() & other.net.bonds.keys())
                term = "OMerge %s %s %s %s" % (tn.net_term(other.net, refs),
                                               ct.lst([ct.pair(ct.nat(a), ct.nat(b)) for a, b in joins]),
                                               tn.zl(ordT), tn.zl(ordB))
                osnap = (tn.snapshot(other.net), {k: np.array(v) for k, v in other.data.items()})
                ovalue = tn.ref_dense(other.net, other.data)
                ocnt = (other.num_tensors, other.num_bonds, other.num_open_axes)
                clash = any(k in net.data and not np.array_equal(net.data[k], other.data[k]) for k in other.data)
                others.append((other, osnap))
                try:
                    net.merge(other, list(joins))
                except ValueError as e:
                    if clash and "do not match" in str(e):
                        pass          # raised after the symbolic merge (recorded only; outside the property text)
                    else:
                        raise
                if (tn.snapshot(other.net), ) != (osnap[0], ) or any(not np.array_equal(other.data[k], osnap[1][k]) for k in osnap[1]) \
                        or set(other.data) != set(osnap[1]):
                    fails.append(("merge:second-operand-modified", "other unchanged", "other changed"))
            else:
                raise RuntimeError("unknown op " + kind)
        except ValueError:
            accepted = False
        except Exception as e:
            fails.append(("%s:exception:%s" % (kind, type(e).__name__), "ValueError or accept", repr(e)))
            rec["steps"].append({"op": op, "term": term, "obs": "crash"})
            stopped = True
            break
        if not accepted:
            if tn.snapshot(net.net) != before:
                fails.append((kind + ":refused-but-state-changed", "unchanged", "changed"))
            rec["steps"].append({"op": op, "term": term, "obs": None})
            continue
        cons = bool(safe_consistent(net.net))
        cnt = (net.num_tensors, net.num_bonds, net.num_open_axes)
        rec["steps"].append({"op": op, "term": term,
                             "obs": (tn.net_term(net.net, refs), cons, cnt)})
        # ---------------- oracles on the implementation
        if not cons:
            fails.append((kind + ":is_consistent-false-after-accepted-op", True, False))
        if not tn.ref_consistent(net.net):
            fails.append((kind + ":incidence-broken-after-accepted-op", "exact incidence", "broken"))
            stopped = True
            break
        if kind in ("rename_tensor", "rename_bond", "transpose"):
            if cnt != cnt0:
                fails.append((kind + ":counts-changed", cnt0, cnt))
        if clash:
            rec["clash"] = True
            stopped = True
            break
        newval = tn.ref_dense(net.net, net.data)
        if kind in ("rename_tensor", "rename_bond"):
            expect = val
        elif kind == "transpose":
            expect = np.transpose(val, eff)
        else:
            expect = tn.ref_merge_value(val, ovalue, joins)
            uf = {}

            def find(x):
                while uf.get(x, x) != x:
                    x = uf[x]
                return x
            fused = 0
            for a, b in joins:
                ra, rb = find(("a", before_vbids[a])), find(("b", other_vbids(other)[b]))
                if ra != rb:
                    uf[rb] = ra
                    fused += 1
            want = (cnt0[0] + ocnt[0], cnt0[1] + ocnt[1] - fused,
                    cnt0[2] + ocnt[2] - len({j[0] for j in joins}) - len({j[1] for j in joins}))
            if cnt != want:
                fails.append(("merge:counts-do-not-add-up", want, cnt))
        if newval.shape != expect.shape or not np.array_equal(newval, expect):
            fails.append((kind + ":value-semantics", "shape %s" % (expect.shape,), "shape %s, differs" % (newval.shape,)))
        if tuple(net.shape) != tuple(newval.shape):
            fails.append((kind + ":shape-property", tuple(newval.shape), tuple(net.shape)))
        val = newval
    # aliasing: later operations on the merged network must not reach into the operands
    for other, osnap in others:
        if tn.snapshot(other.net) != osnap[0]:
            fails.append(("merge:second-operand-modified-later", "other unchanged", "changed by later operations"))
    rec["stopped"] = stopped
    return rec, fails, net


def other_vbids(other):
    return list(other.net.tensors[-1].bids)


def safe_consistent(stn):
    try:
        return bool(stn.is_consistent())
    except Exception:
        return False


def gen_ops(rng, desc, thorough):
    """random operation sequence for the network `desc` (simulated on a scratch copy to keep
    the operations meaningful)"""
    scratch = tn.build(desc)
    ops = []
    L = rng.randint(1, 12)
    nmerge = 0
    for _ in range(L):
        stn = scratch.net
        r = rng.random()
        try:
            if r < 0.22:
                tids = [t for t in stn.tensors if t != -1]
                if not tids:
                    continue
                a = rng.choice(tids) if rng.random() < 0.9 else rng.randint(-6, 12)
                c = rng.randint(-6, 12)
                if a == -1:
                    continue
                op = ["rename_tensor", a, c]
                stn.rename_tensor(a, c)
            elif r < 0.44:
                bids = list(stn.bonds)
                if not bids:
                    continue
                a = rng.choice(bids) if rng.random() < 0.9 else rng.randint(-8, 20)
                c = rng.randint(-8, 20)
                op = ["rename_bond", a, c]
                stn.rename_bond(a, c)
            elif r < 0.64:
                n = stn.num_open_axes
                q = rng.random()
                if q < 0.15:
                    axes = None
                elif q < 0.25 and n >= 2:
                    axes = [rng.randrange(n) for _ in range(n)]
                    if len(set(axes)) == n:
                        axes[0] = axes[1]          # repeated axis -> refused
                else:
                    axes = list(range(n))
                    rng.shuffle(axes)
                op = ["transpose", axes]
                scratch.transpose(axes)
            else:
                if nmerge >= 3:
                    continue
                if rng.random() < 0.15:
                    odesc = copy.deepcopy(desc)             # merge with a copy of the initial network
                else:
                    odesc, _ = tn.gen_net(rng, nt_max=3, open_max=3, cap=400, refprefix="")
                # shared data references: mostly equal (same key, same array), sometimes unequal (clash)
                for k in list(odesc["data"]):
                    if k in scratch.data:
                        same_shape = np.shape(scratch.data[k]) == tuple(odesc["data"][k]["shape"])
                        q = rng.random()
                        if same_shape and q < 0.6:
                            a = np.asarray(scratch.data[k])
                            odesc["data"][k] = {"shape": list(a.shape), "re": [int(x) for x in a.real.reshape(-1)],
                                                "im": [int(x) for x in a.imag.reshape(-1)] if np.iscomplexobj(a) else None}
                        elif q < 0.93:
                            k2 = "m%d_%s" % (len(ops), k)      # keep the data, use a fresh key
                            odesc["data"][k2] = odesc["data"].pop(k)
                            for t in odesc["tensors"]:
                                if t[3] == k:
                                    t[3] = k2
                other = tn.build(odesc)
                s1, s2 = stn.tensors[-1].shape, other.net.tensors[-1].shape
                compat = [(a, b) for a in range(len(s1)) for b in range(len(s2)) if s1[a] == s2[b]]
                joins = []
                if compat:
                    k = rng.randint(0, min(3, len(compat)))
                    q = rng.random()
                    if q < 0.55:      # injective joins
                        rng.shuffle(compat)
                        for a, b in compat:
                            if len(joins) < k and all(a != x and b != y for x, y in joins):
                                joins.append((a, b))
                    else:             # joins that may reuse axes (all of one dimension)
                        d = rng.choice(s1)
                        same = [(a, b) for a, b in compat if s1[a] == d]
                        joins = [rng.choice(same) for _ in range(rng.randint(1, 4))] if same else []
                if rng.random() < 0.06:
                    joins.append((len(s1) + rng.randint(0, 1), 0))    # out of range -> refused
                op = ["merge", odesc, [list(j) for j in joins]]
                clash = any(k in scratch.data and not np.array_equal(scratch.data[k], other.data[k]) for k in other.data)
                scratch.merge(other, joins)
                nmerge += 1
                p, o = tn.ref_size(scratch.net)
                if p * max(o, 1) > CAP:
                    break
        except ValueError:
            pass
        except Exception:
            break
        ops.append(op)
        if op[0] == "merge" and "clash" in locals() and clash:
            break
    return ops


DIRECTED = [
    # (name, net, ops): joins that reuse an axis while another open axis shares the bond  (defect #8)
    ("reused-join-axis-shared-open-bond",
     {"tensors": [[0, [2], [0], "a"], [-1, [2, 2], [0, 0], None]], "bonds": None,
      "data": {"a": {"shape": [2], "re": [1, 2], "im": None}}},
     [["merge", {"tensors": [[0, [2, 2, 2], [0, 1, 2], "b"], [-1, [2, 2, 2], [0, 1, 2], None]], "bonds": None,
                 "data": {"b": {"shape": [2, 2, 2], "re": [1, 2, 3, 4, 5, 6, 7, 8], "im": None}}},
       [[1, 0], [1, 2]]]]),
    ("test-suite-merge-pattern",
     {"tensors": [[3, [2, 2], [3, 14], "a"], [1, [2, 2], [14, 7], "b"], [-1, [2, 2], [3, 7], None]], "bonds": None,
      "data": {"a": {"shape": [2, 2], "re": [1, 2, 3, 4], "im": None}, "b": {"shape": [2, 2], "re": [0, 1, 1, 2], "im": None}}},
     [["rename_tensor", 3, 8], ["rename_bond", 14, 10],
      ["merge", {"tensors": [[1, [2, 2, 2], [3, 1, 4], "g"], [-1, [2, 2, 2], [3, 1, 4], None]], "bonds": None,
                 "data": {"g": {"shape": [2, 2, 2], "re": [1, 0, 2, 1, -1, 1, 0, 3], "im": None}}},
       [[1, 1], [1, 2], [0, 0]]],
      ["transpose", None]]),
    ("colliding-and-negative-ids",
     {"tensors": [[-1, [3, 2], [-2, 5], None], [-4, [3, 2], [-2, 0], "a"], [7, [2, 2], [0, 5], "b"]], "bonds": None,
      "data": {"a": {"shape": [3, 2], "re": [1, 2, 3, 4, 5, 6], "im": None}, "b": {"shape": [2, 2], "re": [1, -1, 2, 0], "im": None}}},
     [["merge", {"tensors": [[-4, [3, 2], [-2, 0], "a"], [7, [2, 2], [0, 5], "b"], [-1, [3, 2], [-2, 5], None]], "bonds": None,
                 "data": {"a": {"shape": [3, 2], "re": [1, 2, 3, 4, 5, 6], "im": None},
                          "b": {"shape": [2, 2], "re": [1, -1, 2, 0], "im": None}}}, [[0, 0]]],
      ["rename_tensor", -4, 8], ["rename_bond", -2, 6], ["transpose", [1, 0]]]),
]


def case_term(rec, net, fails):
    """CSeq term for one executed sequence"""
    steps = []
    for s in rec["steps"]:
        if s["obs"] == "crash" or s["term"] is None:
            break
        if s["obs"] is None:
            o = "None"
        else:
            d, c, k = s["obs"]
            o = "(Some %s)" % ct.pair(d, ct.b(c), ct.pair(ct.nat(k[0]), ct.nat(k[1]), ct.nat(k[2])))
        steps.append(ct.pair("(%s)" % s["term"], o))
    final = "None"
    if not rec.get("stopped") and not rec.get("clash") and len(steps) == len(rec["steps"]):
        p, o = tn.ref_size(net.net)
        if p * max(o, 1) <= CAP:
            final = "(Some %s)" % tn.dense_term(tn.ref_dense(net.net, net.data))
    return "CSeq %s %s %s %s %s" % (rec["net0"], ct.b(rec["consistent0"]), ct.lst(steps),
                                    tn.data_term(net.data, rec["refs"]), final)


def run(ctx):
    ctx.trusted.append("C08: SymbolicTensorNetwork (rename_tensor, rename_bond, transpose, merge incl. merge_tensors/merge_bonds/"
                       "get_bond_axes, is_consistent, counts) is hand-modelled (Qib.TN.TNModel, association lists in dict insertion "
                       "order) and tied by exact correspondence of every intermediate state; the iteration order of the Python sets "
                       "`self.keys() & other.keys()` in merge is an input of the model (recorded from the run; the theorems hold "
                       "for every order); TensorNetwork.merge's data-dictionary union is not modelled (datarefs are codes); "
                       "'never modifies the second operand' is checked on the implementation by deep snapshots")
    ctx.assumes.append("model = /repo with the proposed repairs proposed_fixes/C08-merge-dedupe-del-axes.diff, C08-transpose-default-axes.diff and C07-is-consistent-leg-count.diff; joins are dimension-"
                       "compatible and the transposition is a permutation (the code validates neither); the virtual tensor -1 is not renamed")
    ctx.rules.append("random consistent networks (0-6 tensors, degree<=4, bond dims 1-3, hyper-bonds, multi-edges, self-traces, shared "
                     "open bonds, identity wires, negative/colliding ids) x random operation sequences (length<=12; rename_tensor, "
                     "rename_bond, transpose incl. refused ones, merge with colliding ids / shared datarefs equal+unequal / joins "
                     "reusing axes / out-of-range joins). non-trivial = sequence with >=1 accepted operation on a network with >=1 bond")
    ctx.lib(["TN/TNCheck", "TN/TNSem"])
    ctx.props()
    rng = ctx.rng
    cases = []
    nseq = 500 if ctx.thorough else 90
    seqs = [(name, d, o) for name, d, o in DIRECTED]
    for i in range(nseq):
        desc, feats = tn.gen_net(rng, nt_max=5, open_max=4, cap=3000)
        seqs.append(("random", desc, None))
    for name, desc, ops in seqs:
        if ops is None:
            ops = gen_ops(rng, desc, ctx.thorough)
        inp = {"net": desc, "ops": ops}
        rec, fails, net = exec_sequence(copy.deepcopy(desc), copy.deepcopy(ops))
        for sig, exp, obs in fails:
            ctx.fail(sig, tn.to_jsonable(inp), exp, obs)
        for s in rec["steps"]:
            ctx.count("op_%s_%s" % (s["op"][0], "refused" if s["obs"] is None else ("crash" if s["obs"] == "crash" else "ok")))
            if s["op"][0] == "merge" and s["obs"] not in (None, "crash"):
                js = s["op"][2]
                if len({j[0] for j in js}) < len(js) or len({j[1] for j in js}) < len(js):
                    ctx.count("merge_with_reused_join_axis")
                if js:
                    ctx.count("merge_with_joins")
        if rec.get("clash"):
            ctx.count("merge_data_clash_raised_after_symbolic_merge")
        ctx.count("seq_len=%d" % len(ops))
        desc_s = {"kind": name, "ntensors": len(desc["tensors"]) - 1, "ops": [o[0] for o in ops]}
        cases.append((case_term(rec, net, fails), tn.to_jsonable(inp)))
        if any(s["obs"] not in (None, "crash") for s in rec["steps"]) and len(net.net.bonds) >= 1:
            ctx.nontriv(repr(tn.to_jsonable(inp)))
        ctx.sample(desc_s)
    dis = ctx.cases("surgery", HEADER, cases)
    for i, d in dis[:5]:
        ctx.log("model/impl disagree on", str(d)[:600])
        # turn a disagreement into a failing input when the oracles see it
        rec, fails, net = exec_sequence(copy.deepcopy(d["net"]), copy.deepcopy(d["ops"]))
        for sig, exp, obs in fails:
            ctx.fail(sig, d, exp, obs)


def replay(ctx, data):
    inp = data["input"]
    rec, fails, net = exec_sequence(copy.deepcopy(inp["net"]), copy.deepcopy(inp["ops"]))
    for sig, exp, obs in fails:
        if sig == data["sig"]:
            ctx.fail(sig, inp, exp, obs)
