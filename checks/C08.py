"""C08 - network surgery keeps the network consistent and means what it says."""
import copy, os, sys
import numpy as np
from vlib import coqterm as ct

sys.path.insert(0, os.path.join(os.path.dirname(os.path.dirname(os.path.abspath(__file__))), "gen"))
import tn
import tnloops

HEADER = "From Qib Require Import TN.TNCheck.\n"
CAP = 40000


def op_valid(kind, op, net, other=None, clash=False):
    """Must the implementation accept this operation?  Decided from the state before the call
    (ids present, the virtual tensor, ranges, permutation, dimensions, at least two legs left on every
    fused bond) - independent of what the implementation then does.  An operation that is not valid must be refused (ValueError) and
    leave the network unchanged; a valid one must be accepted."""
    stn = net.net
    if kind == "rename_tensor":
        return op[1] != -1 and op[1] in stn.tensors and op[2] not in stn.tensors
    if kind == "rename_bond":
        return op[1] in stn.bonds and op[2] not in stn.bonds
    if kind == "transpose":
        # the reference is numpy.transpose itself ("analogous to numpy.transpose"): on an array with as
        # many axes as the network has open axes it accepts exactly the permutations of all axes,
        # negative entries counting from the last axis
        n = stn.num_open_axes
        if op[1] is None:
            return True
        try:
            np.transpose(np.empty((1,) * n), [int(a) for a in op[1]])
            return True
        except Exception:
            return False
    if kind in ("merge", "merge_self"):
        s1, s2 = stn.tensors[-1].shape, other.net.tensors[-1].shape
        return (all(0 <= a < len(s1) and 0 <= b < len(s2) and s1[a] == s2[b] for a, b in op[2]) and not clash
                and not merge_starves_a_bond(net, other, [tuple(j) for j in op[2]]))
    raise RuntimeError(kind)


def merge_starves_a_bond(net, other, joins):
    """Do the joins leave a (fused) bond with fewer than two legs?  Decided from the two operands before the call.  The joined
    open axes disappear; a bond that consists of open legs only (an idle wire) and is joined at ALL its legs with such bonds
    becomes a free loop (a scalar factor = its dimension), one that keeps a single leg a free sum - neither is a network the
    consistency check admits (every bond needs >= 2 legs), so such a merge is INVALID: it must be refused (ValueError) with
    both operands unchanged (op_valid).  The unrepaired code noticed it by `assert len(bond.tids) >= 2` AFTER it had included
    the second operand's tensors and bonds and fused the virtual tensors (repaired defect, see notes/C08.md); this
    classification (union-find over ALL bonds of the operands) is independent of the code's own test (sequential fusing of the
    labelled bonds of the joined axes)."""
    b1, b2 = list(net.net.tensors[-1].bids), list(other.net.tensors[-1].bids)
    if not all(0 <= a < len(b1) and 0 <= b < len(b2) for a, b in joins):
        return False
    uf = {}

    def find(x):
        while uf.get(x, x) != x:
            x = uf[x]
        return x
    for a, b in joins:
        ra, rb = find(("a", b1[a])), find(("b", b2[b]))
        if ra != rb:
            uf[rb] = ra
    legs = {}
    for side, stn in (("a", net.net), ("b", other.net)):
        for bid, bond in stn.bonds.items():
            r = find((side, bid))
            legs[r] = legs.get(r, 0) + len(bond.tids)
    for a in {j[0] for j in joins}:
        legs[find(("a", b1[a]))] -= 1
    for b in {j[1] for j in joins}:
        legs[find(("b", b2[b]))] -= 1
    touched = {find(("a", b1[a])) for a, _ in joins}
    return any(legs[r] < 2 for r in touched)


# the repaired defect: reported under its own sig when it comes back (listed under `fixed`, so it is a VIOLATION)
STARVED_SIG = "merge:joins-leave-a-bond-with-fewer-than-two-legs:AssertionError-after-the-operands-were-half-merged"


def contraction_side(net, ref, kind, fails):
    """the IMPLEMENTATION's contractions on the current network object (same object along the whole
    history, so anything remembered from before the last operation shows): both must expand to the
    brute-force defining sum `ref` of the current state"""
    from qib.tensor_network.tensor_network import to_full_tensor
    stn = net.net
    if tn.ref_size(stn)[0] * max(1, tn.ref_size(stn)[1]) > 6000:
        return
    try:
        if net.num_tensors or net.num_open_axes:      # (the empty network is a KNOWN FINDING of C07)
            c, am = net.contract_einsum()
            c = np.asarray(c)
            if tuple(c.shape[i] for i in am) != tuple(ref.shape) or not np.array_equal(to_full_tensor(c, am), ref):
                fails.append((kind + ":contract_einsum-of-the-result-is-not-its-defining-sum", "defining sum", "differs"))
        tids = sorted(t for t in stn.tensors if t != -1)
        idle = any(all(t == -1 for t in b.tids) for b in stn.bonds.values())
        if len(tids) >= 2 and not idle:
            sc = tids[0]
            for t in tids[1:]:
                sc = [sc, t]
            c, am, _ = net.contract_tree(sc)
            c, am = np.asarray(c), [int(a) for a in am]
            if tuple(c.shape[i] for i in am) != tuple(ref.shape) or not np.array_equal(to_full_tensor(c, am), ref):
                fails.append((kind + ":contract_tree-of-the-result-is-not-its-defining-sum", "defining sum", "differs"))
    except Exception as e:
        fails.append((kind + ":contraction-of-the-result-raises:" + type(e).__name__, "contracts", repr(e)[:200]))


def exec_sequence(desc, ops, build=None):
    """Run the implementation on an operation sequence.  Returns (records, fails, final):
    records: per op  dict(op=..., obs=None | (stn snapshot term data...)),
    fails:   [(sig, expected, observed)] found by the independent oracles.
    `build`: how a description becomes a network (default tn.build: every constructor argument a fresh object)."""
    from qib.tensor_network.tensor_network import to_full_tensor
    fails = []
    build = build or tn.build
    net = build(desc)
    refs = tn.Refs()
    for t in net.net.tensors.values():
        refs.code(t.dataref)
    rec = {"net0": tn.net_term(net.net, refs), "consistent0": bool(safe_consistent(net.net)), "steps": [], "refs": refs}
    if not rec["consistent0"] or not tn.ref_consistent(net.net):
        fails.append(("generator:initial-network-not-consistent", True, False))
        return rec, fails, net
    val = tn.ref_dense(net.net, net.data)
    contraction_side(net, val, "initial", fails)
    others = []
    stopped = False
    for op in ops:
        kind = op[0]
        before = tn.snapshot(net.net)
        before_vbids = list(net.net.tensors[-1].bids)
        cnt0 = (net.num_tensors, net.num_bonds, net.num_open_axes)
        accepted, clash, starved = True, False, False
        term = None
        other = None
        valid = None
        try:
            if kind == "rename_tensor":
                term = "ORenT %s %s" % (ct.z(op[1]), ct.z(op[2]))
                valid = op_valid(kind, op, net)
                net.net.rename_tensor(op[1], op[2])
            elif kind == "rename_bond":
                term = "ORenB %s %s" % (ct.z(op[1]), ct.z(op[2]))
                valid = op_valid(kind, op, net)
                net.net.rename_bond(op[1], op[2])
            elif kind == "transpose":
                axes = op[1]
                n = net.num_open_axes
                raw = list(reversed(range(n))) if axes is None else list(axes)
                valid = op_valid(kind, op, net)
                # a negative axis counts from the last one (numpy.transpose); the model gets the raw axes
                eff = [a + n if a < 0 else a for a in raw]
                term = "OTrans %s" % tn.zl(raw)
                net.transpose(None if axes is None else list(axes))
            elif kind in ("merge", "merge_self"):
                other = net if kind == "merge_self" else build(op[1])
                for t in other.net.tensors.values():
                    refs.code(t.dataref)
                joins = [tuple(j) for j in op[2]]
                ordT = list(net.net.tensors.keys() & other.net.tensors.keys())
                ordB = list(net.net.bonds.keys() & other.net.bonds.keys())
                other_term = tn.net_term(other.net, refs)

                def merge_term(oT, oB):
                    if all(a >= 0 and b >= 0 for a, b in joins):
                        return "OMerge %s %s %s %s" % (other_term, ct.lst([ct.pair(ct.nat(a), ct.nat(b)) for a, b in joins]),
                                                       tn.zl(oT), tn.zl(oB))
                    return None
                term = merge_term(ordT, ordB)
                osnap = (tn.snapshot(other.net), {k: np.array(v) for k, v in other.data.items()})
                ovalue = tn.ref_dense(other.net, other.data)
                ocnt = (other.num_tensors, other.num_bonds, other.num_open_axes)
                ovb = other_vbids(other)
                clash = any(k in net.data and not np.array_equal(net.data[k], other.data[k]) for k in other.data)
                valid = op_valid(kind, op, net, other, clash)
                # joins that would leave a bond with fewer than two legs: invalid (op_valid), to be refused before anything changes
                starved = merge_starves_a_bond(net, other, joins)
                if kind == "merge":
                    others.append((other, osnap))
                # the iteration order of the Python sets `self.keys() & other.keys()` inside merge is an input
                # of the model: RECORD it from this very call (merge renames the shared ids of its private
                # copy in that order), do not only recompute it
                from qib.tensor_network.symbolic_network import SymbolicTensorNetwork as _STN
                called = {"t": [], "b": []}
                # merge relabels its private copy through _rename_tensor (the public rename_tensor refuses -1)
                _rtname = "_rename_tensor" if hasattr(_STN, "_rename_tensor") else "rename_tensor"
                _rt, _rb = getattr(_STN, _rtname), _STN.rename_bond

                def _rec_t(self_, a, c, _f=_rt):
                    called["t"].append(a)
                    return _f(self_, a, c)

                def _rec_b(self_, a, c, _f=_rb):
                    called["b"].append(a)
                    return _f(self_, a, c)
                setattr(_STN, _rtname, _rec_t)
                _STN.rename_bond = _rec_b
                try:
                    try:
                        net.merge(other, list(joins))
                    finally:
                        setattr(_STN, _rtname, _rt)
                        _STN.rename_bond = _rb
                        if len(called["t"]) == len(ordT) and len(called["b"]) == len(ordB):
                            if called["t"] != ordT or called["b"] != ordB:
                                rec["set_order_differs"] = rec.get("set_order_differs", 0) + 1
                            term = merge_term(called["t"], called["b"])
                            rec["set_order_recorded"] = rec.get("set_order_recorded", 0) + 1
                    if clash:
                        # the data dictionaries disagree on a key: the merged network cannot mean the
                        # contraction of the two values; the code must refuse (ValueError)
                        fails.append(("merge:data-clash-not-refused", "ValueError", "accepted"))
                except ValueError as e:
                    if clash and "do not match" in str(e):
                        pass          # raised after the symbolic merge (recorded only; outside the property text)
                    else:
                        raise
                if kind == "merge" and ((tn.snapshot(other.net), ) != (osnap[0], ) or any(not np.array_equal(other.data[k], osnap[1][k]) for k in osnap[1])
                                        or set(other.data) != set(osnap[1])):
                    fails.append(("merge:second-operand-modified", "other unchanged", "other changed"))
            else:
                raise RuntimeError("unknown op " + kind)
        except ValueError:
            accepted = False
        except IndexError as e:
            if kind == "transpose" and valid is False:
                accepted = False          # an axis out of range: refused by IndexError
            else:
                fails.append(("%s:exception:%s" % (kind, type(e).__name__), "ValueError or accept", repr(e)))
                rec["steps"].append({"op": op, "term": term, "obs": "crash"})
                stopped = True
                break
        except Exception as e:
            if starved and isinstance(e, AssertionError):
                fails.append((STARVED_SIG, "ValueError before anything is changed",
                              "AssertionError; first operand unchanged: %s, consistent afterwards: %s"
                              % (tn.snapshot(net.net) == before, safe_consistent(net.net))))
            else:
                fails.append(("%s:exception:%s" % (kind, type(e).__name__), "ValueError or accept", repr(e)))
            rec["steps"].append({"op": op, "term": term, "obs": "crash"})
            stopped = True
            break
        if not accepted:
            if tn.snapshot(net.net) != before:
                fails.append((kind + ":refused-but-state-changed", "unchanged", "changed"))
            if valid:
                fails.append((kind + ":refuses-valid-operation", "accepted", "ValueError"))
            if starved and valid is False:
                rec["starved_refused"] = rec.get("starved_refused", 0) + 1
            rec["steps"].append({"op": op, "term": term, "obs": None, "skip": term is None})
            continue
        cons = bool(safe_consistent(net.net))
        if valid is False and not clash:
            # the code must refuse it: renaming the virtual tensor, axes that are not a permutation of all
            # open axes, joins out of range, of unequal dimension or leaving a bond with fewer than two legs.
            # Nothing is claimed about the state
            # such a call leaves; the sequence ends here
            fails.append((kind + ":accepts-invalid-operation", "ValueError", "accepted"))
            if not cons:
                fails.append((kind + ":is_consistent-false-after-accepted-op", True, False))
            try:
                cnt = (net.num_tensors, net.num_bonds, net.num_open_axes)
            except RuntimeError:
                cnt = (0, net.num_bonds, 0)
            rec["steps"].append({"op": op, "term": term, "obs": (tn.net_term(net.net, refs), cons, cnt), "skip": term is None})
            stopped = True
            break
        try:
            cnt = (net.num_tensors, net.num_bonds, net.num_open_axes)
        except RuntimeError:
            cnt = (0, net.num_bonds, 0)       # no virtual tensor any more (model: counts default to 0)
        rec["steps"].append({"op": op, "term": term,
                             "obs": (tn.net_term(net.net, refs), cons, cnt), "skip": term is None})
        # ---------------- oracles on the implementation
        if term is None:
            stopped = True
            break
        if not cons:
            fails.append((kind + ":is_consistent-false-after-accepted-op", True, False))
        if not tn.ref_consistent(net.net):
            fails.append((kind + ":incidence-broken-after-accepted-op", "exact incidence", "broken"))
            stopped = True
            break
        if kind in ("rename_tensor", "rename_bond", "transpose"):
            if cnt != cnt0:
                fails.append((kind + ":counts-changed", cnt0, cnt))
        if clash:
            rec["clash"] = True
            stopped = True
            break
        if kind in ("merge", "merge_self"):
            # counts first (they need no data): tensors add up, bonds add up minus the fused ones, open axes minus the joined ones
            uf = {}

            def find(x):
                while uf.get(x, x) != x:
                    x = uf[x]
                return x
            fused = 0
            for a, b in joins:
                ra, rb = find(("a", before_vbids[a])), find(("b", ovb[b]))
                if ra != rb:
                    uf[rb] = ra
                    fused += 1
            want = (cnt0[0] + ocnt[0], cnt0[1] + ocnt[1] - fused,
                    cnt0[2] + ocnt[2] - len({j[0] for j in joins}) - len({j[1] for j in joins}))
            if cnt != want:
                fails.append(("merge:counts-do-not-add-up", want, cnt))
            if any(t.dataref is None for k, t in net.net.tensors.items() if k != -1):
                fails.append(("merge:leaves-a-logical-tensor-without-data-reference", "every tensor but -1 refers to data", "dataref None"))
            if cons and not net.is_consistent():
                fails.append(("merge:TensorNetwork.is_consistent-false-after-accepted-op", True, False))
        try:
            newval = tn.ref_dense(net.net, net.data)
        except Exception as e:
            fails.append((kind + ":result-has-no-defining-sum:" + type(e).__name__, "a network over the data dictionary", repr(e)[:200]))
            stopped = True
            break
        if kind in ("rename_tensor", "rename_bond"):
            expect = val
        elif kind == "transpose":
            expect = np.transpose(val, eff)
        else:
            expect = tn.ref_merge_value(val, ovalue, joins)
        if newval.shape != expect.shape or not np.array_equal(newval, expect):
            fails.append((kind + ":value-semantics", "shape %s" % (expect.shape,), "shape %s, differs" % (newval.shape,)))
        if tuple(net.shape) != tuple(newval.shape):
            fails.append((kind + ":shape-property", tuple(newval.shape), tuple(net.shape)))
        contraction_side(net, newval, kind, fails)
        val = newval
    # aliasing: later operations on the merged network must not reach into the operands
    for other, osnap in others:
        if tn.snapshot(other.net) != osnap[0]:
            fails.append(("merge:second-operand-modified-later", "other unchanged", "changed by later operations"))
    rec["stopped"] = stopped
    return rec, fails, net


def other_vbids(other):
    return list(other.net.tensors[-1].bids)


def safe_consistent(stn):
    try:
        return bool(stn.is_consistent())
    except Exception:
        return False


def gen_ops(rng, desc, thorough, prefix=None, maxlen=12):
    """random operation sequence for the network `desc` (simulated on a scratch copy to keep
    the operations meaningful); `prefix`: operations to start with"""
    scratch = tn.build(desc)
    ops = []
    L = rng.randint(1, maxlen)
    nmerge = 0
    for op in (prefix or []):
        ops.append(op)
        try:
            if op[0] == "rename_tensor":
                scratch.net.rename_tensor(op[1], op[2])
            elif op[0] == "rename_bond":
                scratch.net.rename_bond(op[1], op[2])
            elif op[0] == "transpose":
                scratch.transpose(None if op[1] is None else list(op[1]))
            elif op[0] == "merge":
                scratch.merge(tn.build(op[1]), [tuple(j) for j in op[2]])
                nmerge += 1
        except ValueError:
            pass
        except Exception:
            # the implementation misbehaves on the prefix itself (anything but a refusal): no random continuation,
            # the whole prefix goes to the oracles, which report it (the harness used to die here: 0 cases, no failing input)
            return [list(o) for o in prefix]
    for _ in range(L):
        stn = scratch.net
        r = rng.random()
        op, clash = None, False
        try:
            g = rng.random()
            if g < 0.10:
                # ---- inputs at and beyond the edge of what the code validates
                n = stn.num_open_axes
                q = rng.randrange(8)
                if q == 0:
                    op = ["rename_tensor", -1, rng.randint(-6, 12)]            # the virtual tensor: must be refused
                elif q == 1 and n >= 2:
                    axes = list(range(n)); rng.shuffle(axes)
                    op = ["transpose", axes[:rng.randint(1, n - 1)]]           # not all axes: must be refused
                elif q == 2 and n >= 1:
                    axes = list(range(n)); rng.shuffle(axes)
                    op = ["transpose", [a - n if rng.random() < 0.5 else a for a in axes]]   # negative axes, a permutation
                elif q == 3 and n >= 2:
                    axes = list(range(n)); rng.shuffle(axes)
                    axes[0] = axes[1] - n                                       # repeats an axis through a negative index: must be refused
                    op = ["transpose", axes]
                elif q == 4:
                    axes = list(range(n)); rng.shuffle(axes)
                    if n:
                        axes[rng.randrange(n)] = rng.choice([n, n + 1, -n - 1])
                    op = ["transpose", axes if n else [0]]                      # an axis out of range: refused
                elif q == 5:
                    op = ["merge_self", None, []]
                    if n and rng.random() < 0.7:
                        sh = stn.tensors[-1].shape
                        pairs = [(a, b) for a in range(n) for b in range(n) if sh[a] == sh[b]]
                        rng.shuffle(pairs)
                        for a, b in pairs[:rng.randint(0, 2)]:
                            if all(a != x and b != y for x, y in op[2]):
                                op[2].append([a, b])
                    p, o = tn.ref_size(stn)
                    if (p * p) * max(o * o, 1) > CAP or nmerge >= 3:
                        continue
                    nmerge += 1
                else:
                    odesc, _ = tn.gen_net(rng, nt_max=2, open_max=3, cap=200, refprefix="x%d_" % len(ops))
                    other = tn.build(odesc)
                    s1, s2 = stn.tensors[-1].shape, other.net.tensors[-1].shape
                    if q == 6:
                        bad = [(a, b) for a in range(len(s1)) for b in range(len(s2)) if s1[a] != s2[b]]
                        if not bad:
                            continue
                        joins = [list(rng.choice(bad))]                         # unequal dimensions: must be refused
                    else:
                        a = rng.randrange(len(s1)) if len(s1) else 0
                        joins = [rng.choice([[a, len(s2)], [a, len(s2) + 1], [a, -1], [-1, 0], [len(s1), 0]])]   # out of range: refused
                    op = ["merge", odesc, joins]
                ops.append(op)
                # simulate; the sequence ends after an operation that leaves an inconsistent network
                try:
                    if op[0] == "rename_tensor":
                        stn.rename_tensor(op[1], op[2])
                    elif op[0] == "transpose":
                        scratch.transpose(list(op[1]))
                    elif op[0] == "merge_self":
                        scratch.merge(scratch, [tuple(j) for j in op[2]])
                    else:
                        scratch.merge(tn.build(op[1]), [tuple(j) for j in op[2]])
                except (ValueError, IndexError):
                    continue
                except Exception:
                    break
                if not safe_consistent(stn):
                    break
                continue
            if r < 0.22:
                tids = [t for t in stn.tensors if t != -1]
                if not tids:
                    continue
                a = rng.choice(tids) if rng.random() < 0.9 else rng.randint(-6, 12)
                c = rng.randint(-6, 12)
                if a == -1:
                    continue
                op = ["rename_tensor", a, c]
                stn.rename_tensor(a, c)
            elif r < 0.44:
                bids = list(stn.bonds)
                if not bids:
                    continue
                a = rng.choice(bids) if rng.random() < 0.9 else rng.randint(-8, 20)
                c = rng.randint(-8, 20)
                op = ["rename_bond", a, c]
                stn.rename_bond(a, c)
            elif r < 0.64:
                n = stn.num_open_axes
                q = rng.random()
                if q < 0.15:
                    axes = None
                elif q < 0.25 and n >= 2:
                    axes = [rng.randrange(n) for _ in range(n)]
                    if len(set(axes)) == n:
                        axes[0] = axes[1]          # repeated axis -> refused
                else:
                    axes = list(range(n))
                    rng.shuffle(axes)
                op = ["transpose", axes]
                scratch.transpose(axes)
            else:
                if nmerge >= 3:
                    continue
                if rng.random() < 0.15:
                    odesc = copy.deepcopy(desc)             # merge with a copy of the initial network
                else:
                    odesc, _ = tn.gen_net(rng, nt_max=3, open_max=3, cap=400, refprefix="")
                # shared data references: mostly equal (same key, same array), sometimes unequal (clash)
                for k in list(odesc["data"]):
                    if k in scratch.data:
                        same_shape = np.shape(scratch.data[k]) == tuple(odesc["data"][k]["shape"])
                        q = rng.random()
                        if same_shape and q < 0.6:
                            a = np.asarray(scratch.data[k])
                            odesc["data"][k] = {"shape": list(a.shape), "re": [int(x) for x in a.real.reshape(-1)],
                                                "im": [int(x) for x in a.imag.reshape(-1)] if np.iscomplexobj(a) else None}
                        elif q < 0.93:
                            k2 = "m%d_%s" % (len(ops), k)      # keep the data, use a fresh key
                            odesc["data"][k2] = odesc["data"].pop(k)
                            for t in odesc["tensors"]:
                                if t[3] == k:
                                    t[3] = k2
                other = tn.build(odesc)
                s1, s2 = stn.tensors[-1].shape, other.net.tensors[-1].shape
                compat = [(a, b) for a in range(len(s1)) for b in range(len(s2)) if s1[a] == s2[b]]
                joins = []
                if compat:
                    k = rng.randint(0, min(3, len(compat)))
                    q = rng.random()
                    if q < 0.55:      # injective joins
                        rng.shuffle(compat)
                        for a, b in compat:
                            if len(joins) < k and all(a != x and b != y for x, y in joins):
                                joins.append((a, b))
                    else:             # joins that may reuse axes (all of one dimension)
                        d = rng.choice(s1)
                        same = [(a, b) for a, b in compat if s1[a] == d]
                        joins = [rng.choice(same) for _ in range(rng.randint(1, 4))] if same else []
                if rng.random() < 0.06:
                    joins.append((len(s1) + rng.randint(0, 1), 0))    # out of range -> refused
                op = ["merge", odesc, [list(j) for j in joins]]
                clash = any(k in scratch.data and not np.array_equal(scratch.data[k], other.data[k]) for k in other.data)
                scratch.merge(other, joins)
                nmerge += 1
                p, o = tn.ref_size(scratch.net)
                if p * max(o, 1) > CAP:
                    break
        except ValueError:
            pass
        except Exception:
            # the scratch simulation runs the implementation under test: an operation on which it misbehaves (raises something
            # else, leaves a network whose size cannot be evaluated) must reach the oracles, not vanish from the sequence
            if op is not None:
                ops.append(op)
            break
        if op is None:
            continue
        ops.append(op)
        if op[0] == "merge" and clash:
            break
    return ops


# ----------------------------------------------------------------------------- who owns the constructor arguments
OWNER_MODES = ["shared", "mutate-after"]
OWNER_KINDS = ["list", "tuple", "array"]


class CallerArgs:
    """Builds networks the way a caller does who KEEPS the objects he passes to the constructors
    (SymbolicTensor(tid, shape, bids, ref), SymbolicBond(bid, tids)):
      mode 'shared':        equal sequences are ONE object (kind list / tuple / numpy array), re-used for every tensor
                            and bond of every network built by this caller - the logical tensor and the virtual tensor
                            of a wrap, the virtual tensors of both operands of a merge, bonds with equal tensor lists;
      mode 'mutate-after':  every argument a fresh object that the caller overwrites after the constructor calls.
    The networks must be exactly the described ones and behave like networks built from fresh arguments."""
    def __init__(self, mode, kind):
        assert mode in OWNER_MODES and kind in OWNER_KINDS
        self.mode, self.kind = mode, kind
        self.pool = {}
        self.fails = []

    def make(self, values):
        values = [int(v) for v in values]
        if self.kind == "tuple":
            return tuple(values)
        if self.kind == "array":
            return np.array(values, dtype=int)
        return list(values)

    def seq(self, values):
        if self.mode == "shared":
            key = tuple(values)
            if key not in self.pool:
                self.pool[key] = self.make(values)
            return self.pool[key]
        return self.make(values)

    @staticmethod
    def scramble(c):
        if isinstance(c, list):
            c.reverse()
            c.append(97)
            c[0:1] = [-55, 41]
        elif isinstance(c, np.ndarray) and c.size:
            c[...] = c[::-1] * 3 + 50

    def build(self, desc):
        from qib.tensor_network import SymbolicTensor, SymbolicBond, SymbolicTensorNetwork, TensorNetwork
        stn = SymbolicTensorNetwork()
        mine = []
        for tid, shape, bids, ref in desc["tensors"]:
            s, b = self.seq(shape), self.seq(bids)
            mine += [s, b]
            stn.add_tensor(SymbolicTensor(tid, s, b, ref))
        if desc.get("bonds") is None:
            stn.generate_bonds()
        else:
            for bid, tids in desc["bonds"]:
                t = self.seq(tids)
                mine.append(t)
                stn.add_bond(SymbolicBond(bid, t))
        if self.mode == "mutate-after":
            for c in mine:
                self.scramble(c)
        want = tn.snapshot(tn.build_symbolic(desc))
        want_t = [(t[0], t[0], tuple(t[1]), tuple(t[2]), t[3]) for t in desc["tensors"]]
        got = tn.snapshot(stn)
        if got[0] != want_t or got != want:
            self.fails.append(("constructor:network-is-not-the-described-one-when-the-caller-%s"
                               % ("re-uses-his-argument-objects" if self.mode == "shared" else "overwrites-his-arguments-afterwards"),
                               "the described network", "differs"))
        return TensorNetwork(stn, {k: tn.arr(v) for k, v in desc["data"].items()})


def run_owned(desc, ops, owner):
    """exec_sequence with every network (the first operand and every merge operand) built by ONE CallerArgs"""
    b = CallerArgs(owner["mode"], owner["kind"])
    rec, fails, net = exec_sequence(copy.deepcopy(desc), copy.deepcopy(ops), build=b.build)
    # the caller's pooled objects must still hold what he put in
    for key, c in b.pool.items():
        if tuple(int(x) for x in c) != key:
            fails.append(("surgery:modifies-an-argument-object-of-the-caller", list(key), [int(x) for x in c]))
            break
    return rec, b.fails + fails, net


def gen_owned(rng):
    """(family, desc, prefix ops): networks in which several tensors are described by EQUAL sequences (so a caller may
    pass one object), and merges whose operands are described by equal sequences"""
    fam = rng.choice(["wrap", "wrap", "two-equal", "two-equal-closed", "random", "random"])
    if fam == "random":
        desc, _ = tn.gen_net(rng, nt_max=4, open_max=3, cap=1500)
        pre = []
        if rng.random() < 0.6:
            pre.append(["merge", copy.deepcopy(desc), []])
        return fam, desc, pre
    nd = rng.randint(1, 3)
    shape = [rng.choice([1, 2, 2, 3]) for _ in range(nd)]
    bids = list(range(nd)) if rng.random() < 0.4 else rng.sample(range(-8, 20), nd)
    tids = rng.sample([x for x in range(-6, 12) if x != -1], 2)
    tl = [[tids[0], list(shape), list(bids), "p"]]
    data = {"p": tn.rand_data(rng, shape, rng.random() < 0.2)}
    if fam.startswith("two-equal"):
        tl.append([tids[1], list(shape), list(bids), "q"])
        data["q"] = tn.rand_data(rng, shape)
    if fam == "two-equal-closed":
        k = rng.randint(0, nd - 1)
        vt = [-1, shape[:k], bids[:k], None]
    else:
        vt = [-1, list(shape), list(bids), None]
    tl.insert(rng.randint(0, len(tl)), vt)
    desc = {"tensors": tl, "bonds": None, "data": data}
    if rng.random() < 0.4:
        desc["bonds"] = [[b, [t[0] for t in tl if b in t[2]]] for b in bids]
    # operands of the merges: a wrap described by the same sequences; the network itself once more
    wrap = {"tensors": [[0, list(shape), list(bids), "w"], [-1, list(shape), list(bids), None]], "bonds": None,
            "data": {"w": tn.rand_data(rng, shape)}}
    nv = len(vt[1])
    pre = []
    if rng.random() < 0.5 and bids:
        b = rng.choice(bids)
        pre.append(["rename_bond", b, max(bids) + rng.randint(1, 3)])
    cands = []
    if nv:
        a = rng.randrange(nv)
        cands.append(["merge", wrap, [[a, a]] if rng.random() < 0.7 else []])
        cands.append(["merge", copy.deepcopy(desc), [[a, a]] if rng.random() < 0.7 else []])
    else:
        cands.append(["merge", wrap, []])
        cands.append(["merge", copy.deepcopy(desc), []])
    rng.shuffle(cands)
    pre += cands[:rng.randint(1, 2)]
    if rng.random() < 0.3 and nv >= 2:
        pm = list(range(nv))
        rng.shuffle(pm)
        pre.insert(rng.randint(0, len(pre)), ["transpose", pm])
    return fam, desc, pre


_W = {"tensors": [[0, [2, 3], [0, 1], "a"], [-1, [2, 3], [0, 1], None]], "bonds": None,
      "data": {"a": {"shape": [2, 3], "re": [1, 2, 3, 4, 5, 6], "im": None}}}
_WB = {"tensors": [[0, [3, 2], [0, 1], "b"], [-1, [3, 2], [0, 1], None]], "bonds": None,
       "data": {"b": {"shape": [3, 2], "re": [1, 0, 2, -1, 1, 3], "im": None}}}
_WX = {"tensors": [[1, [2, 3], [0, 1], "x"], [-1, [2, 3], [0, 1], None]], "bonds": None,
       "data": {"x": {"shape": [2, 3], "re": [2, 1, 0, -1, 1, 1], "im": None}}}
DIRECTED_OWNED = [
    # (name, net, ops): equal sequences in one network / in both operands, then surgery
    ("wrap-by-hand-rename-merge-transpose-merge", _W,
     [["rename_bond", 1, 7], ["merge", _WB, [[1, 0]]], ["transpose", [1, 0]],
      ["merge", {"tensors": [[0, [2, 2, 2], [0, 1, 2], "c"], [-1, [2, 2, 2], [0, 1, 2], None]], "bonds": None,
                 "data": {"c": {"shape": [2, 2, 2], "re": [1, 2, 0, 1, -1, 1, 2, 0], "im": None}}}, [[0, 0], [1, 2]]]]),
    ("two-networks-with-equal-open-bond-lists", _W, [["merge", _WX, [[0, 0]]], ["rename_tensor", 0, 5], ["merge", _WX, []]]),
    ("merge-with-an-equal-network-then-renames", _W, [["merge", _W, []], ["rename_bond", 0, 9], ["rename_tensor", 0, 4], ["transpose", None]]),
]


DIRECTED = [
    # (name, net, ops): joins that reuse an axis while another open axis shares the bond  (defect #8)
    ("reused-join-axis-shared-open-bond",
     {"tensors": [[0, [2], [0], "a"], [-1, [2, 2], [0, 0], None]], "bonds": None,
      "data": {"a": {"shape": [2], "re": [1, 2], "im": None}}},
     [["merge", {"tensors": [[0, [2, 2, 2], [0, 1, 2], "b"], [-1, [2, 2, 2], [0, 1, 2], None]], "bonds": None,
                 "data": {"b": {"shape": [2, 2, 2], "re": [1, 2, 3, 4, 5, 6, 7, 8], "im": None}}},
       [[1, 0], [1, 2]]]]),
    ("test-suite-merge-pattern",
     {"tensors": [[3, [2, 2], [3, 14], "a"], [1, [2, 2], [14, 7], "b"], [-1, [2, 2], [3, 7], None]], "bonds": None,
      "data": {"a": {"shape": [2, 2], "re": [1, 2, 3, 4], "im": None}, "b": {"shape": [2, 2], "re": [0, 1, 1, 2], "im": None}}},
     [["rename_tensor", 3, 8], ["rename_bond", 14, 10],
      ["merge", {"tensors": [[1, [2, 2, 2], [3, 1, 4], "g"], [-1, [2, 2, 2], [3, 1, 4], None]], "bonds": None,
                 "data": {"g": {"shape": [2, 2, 2], "re": [1, 0, 2, 1, -1, 1, 0, 3], "im": None}}},
       [[1, 1], [1, 2], [0, 0]]],
      ["transpose", None]]),
    ("colliding-and-negative-ids",
     {"tensors": [[-1, [3, 2], [-2, 5], None], [-4, [3, 2], [-2, 0], "a"], [7, [2, 2], [0, 5], "b"]], "bonds": None,
      "data": {"a": {"shape": [3, 2], "re": [1, 2, 3, 4, 5, 6], "im": None}, "b": {"shape": [2, 2], "re": [1, -1, 2, 0], "im": None}}},
     [["merge", {"tensors": [[-4, [3, 2], [-2, 0], "a"], [7, [2, 2], [0, 5], "b"], [-1, [3, 2], [-2, 5], None]], "bonds": None,
                 "data": {"a": {"shape": [3, 2], "re": [1, 2, 3, 4, 5, 6], "im": None},
                          "b": {"shape": [2, 2], "re": [1, -1, 2, 0], "im": None}}}, [[0, 0]]],
      ["rename_tensor", -4, 8], ["rename_bond", -2, 6], ["transpose", [1, 0]]]),
]


def _wide(shape, name, tid=0, b0=0):
    """one tensor whose axes are all open (a wrap), many axes of small dimension"""
    n = 1
    for d in shape:
        n *= d
    bids = list(range(b0, b0 + len(shape)))
    return {"tensors": [[tid, list(shape), bids, name], [-1, list(shape), bids, None]], "bonds": None,
            "data": {name: {"shape": list(shape), "re": [((7 * i) % 5) - 2 + (i % 3 == 0) for i in range(n)], "im": None}}}


DIRECTED += [
    # many open axes (the random networks have at most 4 per operand): 9 and more combined axes, few of them remaining, the
    # remaining ones at high combined positions - their order is "first's axes, then second's" whatever container holds them
    ("wide-merge-6+4-over-3-joins", _wide([2, 1, 2, 1, 2, 3], "wa"),
     [["merge", _wide([2, 1, 2, 2], "wb"), [[0, 0], [1, 1], [2, 2]]], ["transpose", None]]),
    ("wide-merge-5+5-scattered-joins", _wide([2, 2, 1, 3, 2], "wa"),
     [["merge", _wide([2, 3, 2, 1, 2], "wb"), [[0, 0], [3, 1], [4, 2], [2, 3]]], ["transpose", [1, 0]]]),
    ("wide-merge-8+3-then-again", _wide([2, 1, 1, 2, 1, 2, 1, 3], "wa"),
     [["merge", _wide([2, 2, 3], "wb"), [[0, 0], [3, 1]]],
      ["merge", _wide([2, 1, 1, 1, 3, 2], "wc", tid=5, b0=20), [[0, 1], [1, 2], [2, 3], [3, 0], [4, 4]]]]),
    ("wide-merge-9+2-no-joins-then-transpose", _wide([1, 2, 1, 1, 2, 1, 1, 1, 2], "wa"),
     [["merge", _wide([2, 1], "wb"), []], ["transpose", [10, 9, 8, 7, 6, 5, 4, 3, 2, 1, 0]]]),
]


_G = {"tensors": [[0, [2, 3, 2], [0, 1, 2], "a"], [-1, [2, 3, 2], [0, 1, 2], None]], "bonds": None,
      "data": {"a": {"shape": [2, 3, 2], "re": list(range(1, 13)), "im": None}}}
_H = {"tensors": [[4, [2, 3], [7, 8], "h"], [-1, [2, 3], [7, 8], None]], "bonds": None,
      "data": {"h": {"shape": [2, 3], "re": [1, 0, 2, -1, 1, 3], "im": None}}}
DIRECTED += [
    # calls the code used to accept and that left an inconsistent network (repaired defects): must be
    # refused, the network must stay as it was and usable
    ("rename-virtual-tensor", _G, [["rename_tensor", -1, 5]]),
    ("transpose-not-all-axes", _G, [["transpose", [2]]]),
    ("transpose-negative-axis-repeats-an-axis", _G, [["transpose", [-1, 0, 2]]]),
    ("merge-unequal-dimensions", _G, [["merge", _H, [[0, 1]]]]),
    ("merge-one-join-equal-one-unequal", _G, [["merge", _H, [[0, 0], [1, 0]]], ["merge", _H, [[2, 0], [1, 1]]]]),
    ("transpose-no-axes-or-too-many", _G, [["transpose", []], ["transpose", [0, 1, 2, 0]], ["transpose", [0, 1, 2, 3]], ["transpose", [1, 1, 1]]]),
    ("refused-operations-leave-the-network-usable", _G,
     [["rename_tensor", -1, 5], ["transpose", [2]], ["merge", _H, [[0, 1]]], ["transpose", [-1, 0, 2]], ["rename_tensor", -1, -1],
      ["merge", _H, [[0, 0]]], ["rename_tensor", 0, 5], ["transpose", [-1, 1, 0]], ["rename_tensor", -1, 9]]),
    ("no-open-axes", {"tensors": [[0, [2], [0], "a"], [1, [2], [0], "b"], [-1, [], [], None]], "bonds": None,
                      "data": {"a": {"shape": [2], "re": [1, 2], "im": None}, "b": {"shape": [2], "re": [3, -1], "im": None}}},
     [["transpose", []], ["transpose", None], ["transpose", [0]], ["rename_tensor", -1, 4], ["merge", _H, []], ["transpose", [1, 0]]]),
    # edges that must be refused / accepted
    ("transpose-negative-axes-permutation", _G, [["transpose", [-1, 0, -2]], ["transpose", [1, -3, 2]]]),
    ("transpose-axis-out-of-range", _G, [["transpose", [0, 1, 3]], ["transpose", [0, -4, 1]], ["transpose", [0, 1, 2]]]),
    ("merge-join-out-of-range", _G, [["merge", _H, [[0, 2]]], ["merge", _H, [[3, 0]]], ["merge", _H, [[0, -1]]],
                                     ["merge", _H, [[-1, 0]]], ["merge", _H, [[0, 0]]]]),
    ("merge-with-itself", _G, [["merge_self", None, [[0, 2]]], ["merge_self", None, []]]),
    ("rename-to-existing-and-missing", _G, [["rename_tensor", 0, -1], ["rename_tensor", 7, 8], ["rename_tensor", 0, 0],
                                            ["rename_bond", 1, 2], ["rename_bond", 9, 3], ["rename_bond", 1, -1], ["rename_tensor", 0, -7]]),
    # joins that close idle wires completely / leave one leg: must be REFUSED with both operands unchanged and the network still
    # usable (repaired defect: the unrepaired code raised AssertionError after a partial merge and left the first operand broken)
    ("merge-closes-an-idle-wire-onto-an-idle-wire", {"tensors": [[-1, [2, 2], [0, 0], None]], "bonds": None, "data": {}},
     [["merge", {"tensors": [[-1, [2, 2], [0, 0], None]], "bonds": None, "data": {}}, [[0, 0], [1, 1]]],
      ["merge", {"tensors": [[-1, [2, 2], [0, 0], None]], "bonds": None, "data": {}}, [[1, 1], [0, 0], [1, 1]]],
      ["merge", {"tensors": [[-1, [2, 2], [0, 0], None]], "bonds": None, "data": {}}, [[1, 0]]], ["transpose", [1, 0]],
      ["merge", {"tensors": [[-1, [2, 2], [0, 0], None]], "bonds": None, "data": {}}, [[0, 1], [1, 0]]]]),
    ("merge-joins-both-ends-of-a-wire-with-one-open-leg", {"tensors": [[0, [2], [3], "a"], [-1, [2], [3], None]], "bonds": None,
                                                           "data": {"a": {"shape": [2], "re": [1, 2], "im": None}}},
     [["merge", {"tensors": [[-1, [2, 2], [5, 5], None]], "bonds": None, "data": {}}, [[0, 0], [0, 1]]],
      ["merge", {"tensors": [[-1, [2, 2], [5, 5], None]], "bonds": None, "data": {}}, [[0, 1]]], ["rename_tensor", 0, 4], ["transpose", [0]]]),
    ("merge-four-open-legs-on-one-bond-lose-three-or-four", {"tensors": [[-1, [2, 2, 2, 2], [7, 7, 7, 7], None]], "bonds": None, "data": {}},
     [["merge", {"tensors": [[-1, [2, 2], [0, 0], None], [3, [2], [1], "v"], [5, [2], [1], "v"]], "bonds": None,
                 "data": {"v": {"shape": [2], "re": [1, 2], "im": None}}}, [[0, 0], [1, 1], [2, 0], [3, 1]]],
      ["merge", {"tensors": [[-1, [2, 2], [0, 0], None]], "bonds": None, "data": {}}, [[0, 0], [1, 1], [2, 0]]],
      ["merge", {"tensors": [[-1, [2, 2], [0, 0], None]], "bonds": None, "data": {}}, [[0, 0], [1, 1]]], ["transpose", None]]),
    ("merge-wire-with-one-end-joined-stays-fine", _G,
     [["merge", {"tensors": [[-1, [2, 2], [5, 5], None]], "bonds": None, "data": {}}, [[0, 0]]],
      ["merge", {"tensors": [[-1, [2, 2], [5, 5], None]], "bonds": None, "data": {}}, [[1, 0], [2, 1]]], ["transpose", None]]),
    ("merge-with-itself-closes-an-idle-wire", {"tensors": [[-1, [2, 2], [0, 0], None]], "bonds": None, "data": {}}, [["merge_self", None, [[0, 0], [1, 1]]], ["merge_self", None, [[0, 1]]], ["transpose", None]]),
    # data dictionaries that disagree on a key: must be refused
    ("merge-data-clash", _G, [["merge", {"tensors": [[1, [2], [0], "a"], [-1, [2], [0], None]], "bonds": None,
                                         "data": {"a": {"shape": [2], "re": [1, 1], "im": None}}}, [[0, 0]]]]),
]


# ----------------------------------------------------------------------------- merges with closed / empty / scalar operands
def _d(shape, vals):
    return {"shape": list(shape), "re": list(vals), "im": None}


def closed_networks():
    """name -> description: networks at the degenerate end of 'number of open axes' and 'number of tensors' (no PRNG):
    closed ones (no open axis; the virtual tensor has degree 0) - an inner product, a trace, a three-tensor hyper-bond, a bare
    scalar (0-d tensor), two scalars, a scalar next to an inner product, colliding / negative ids -, the empty network, a network
    of idle wires only (no tensor), a scalar next to open legs, and ordinary open networks as partners"""
    return {
        "inner": {"tensors": [[0, [2], [0], "u"], [1, [2], [0], "v"], [-1, [], [], None]], "bonds": None,
                  "data": {"u": _d([2], [1, 2]), "v": _d([2], [3, -1])}},
        "inner5": {"tensors": [[-1, [], [], None], [3, [3], [7], "p"], [-2, [3], [7], "q"]], "bonds": [[7, [-2, 3]]],
                   "data": {"p": _d([3], [1, 0, 2]), "q": _d([3], [2, 5, -1])}},
        "trace": {"tensors": [[0, [2, 2], [4, 4], "m"], [-1, [], [], None]], "bonds": None, "data": {"m": _d([2, 2], [1, 2, 3, 5])}},
        "hyper3": {"tensors": [[0, [2], [0], "u"], [1, [2], [0], "v"], [2, [2], [0], "w"], [-1, [], [], None]], "bonds": None,
                   "data": {"u": _d([2], [1, 2]), "v": _d([2], [3, -1]), "w": _d([2], [2, 1])}},
        "scalar": {"tensors": [[0, [], [], "s"], [-1, [], [], None]], "bonds": None, "data": {"s": _d([], [3])}},
        "scalars2": {"tensors": [[-1, [], [], None], [5, [], [], "s"], [0, [], [], "t"]], "bonds": [], "data": {"s": _d([], [3]), "t": _d([], [-2])}},
        "scalar+inner": {"tensors": [[1, [], [], "t"], [0, [2], [0], "u"], [4, [2], [0], "u"], [-1, [], [], None]], "bonds": None,
                         "data": {"t": _d([], [-2]), "u": _d([2], [1, 2])}},
        "empty": {"tensors": [[-1, [], [], None]], "bonds": None, "data": {}},
        "wire": {"tensors": [[-1, [2, 2], [0, 0], None]], "bonds": None, "data": {}},
        "scalar+open": {"tensors": [[0, [], [], "s"], [1, [2, 3], [0, 1], "a"], [-1, [3, 2], [1, 0], None]], "bonds": None,
                        "data": {"s": _d([], [3]), "a": _d([2, 3], [1, 2, 3, 4, 5, 6])}},
        "matprod": {"tensors": [[0, [2, 3], [0, 1], "a"], [1, [3, 2], [1, 2], "b"], [-1, [2, 2], [0, 2], None]], "bonds": None,
                    "data": {"a": _d([2, 3], [1, 2, 3, 4, 5, 6]), "b": _d([3, 2], [1, 0, 2, -1, 1, 3])}},
        "wrap": copy.deepcopy(_W),
    }


def closed_merge_sequences(rng, thorough):
    """(name, first operand, ops): every ordered pair (first, second) of the networks above in which at least one is closed /
    empty / tensor-free, merged (joins only between open partners: none here, or one when both have an open axis of equal
    dimension), then the history CONTINUES: a second merge with a closed and with an open operand, renames of a tensor / bond
    that came from the closed operand, transposition, merge with itself, and random surgery (gen_ops) after that"""
    N = closed_networks()
    degenerate = ["inner", "inner5", "trace", "hyper3", "scalar", "scalars2", "scalar+inner", "empty", "wire", "scalar+open"]
    out = []
    k = 0
    for a in N:
        for b in N:
            if a not in degenerate and b not in degenerate:
                continue
            k += 1
            if not thorough and a not in ("inner", "scalar", "empty", "matprod", "wire") and b not in ("inner", "scalar", "empty") and k % 3:
                continue
            A, B = N[a], N[b]
            va = [t for t in A["tensors"] if t[0] == -1][0]
            vb = [t for t in B["tensors"] if t[0] == -1][0]
            joins = [[i, j] for i in range(len(va[1])) for j in range(len(vb[1])) if va[1][i] == vb[1][j]][:1] if k % 2 else []
            ops = [["merge", copy.deepcopy(B), joins]]
            # continue the history: touch what came from the second operand, merge again (closed, then open), transpose
            tb = [t[0] for t in B["tensors"] if t[0] != -1]
            if tb:
                ops.append(["rename_tensor", tb[0], 17])
            follow = [["merge", copy.deepcopy(N["inner"]), []], ["merge", copy.deepcopy(N["scalar"]), []],
                      ["merge", copy.deepcopy(N["wrap"]), []], ["merge_self", None, []], ["merge", copy.deepcopy(N["empty"]), []]]
            ops.append(follow[k % len(follow)])
            nopen = len(va[1]) + len(vb[1]) - 2 * len(joins)
            if k % len(follow) == 2:
                nopen += 2
            elif k % len(follow) == 3:
                nopen *= 2
            if nopen <= 6:
                ops.append(["transpose", list(reversed(range(nopen)))])
            ops.append(follow[(k + 1) % 2])
            out.append(("%s<-%s" % (a, b), copy.deepcopy(A), ops))
    return out


def case_term(rec, net, fails):
    """CSeq term for one executed sequence"""
    steps = []
    for s in rec["steps"]:
        if s["obs"] == "crash":
            break
        if s["term"] is None:
            if s["obs"] is None:
                continue          # refused and not representable in the model (negative index): state unchanged
            break
        if s["obs"] is None:
            o = "None"
        else:
            d, c, k = s["obs"]
            o = "(Some %s)" % ct.pair(d, ct.b(c), ct.pair(ct.nat(k[0]), ct.nat(k[1]), ct.nat(k[2])))
        steps.append(ct.pair("(%s)" % s["term"], o))
    final = "None"
    if not rec.get("stopped") and not rec.get("clash") and len(steps) == len([x for x in rec["steps"] if not x.get("skip")]):
        try:
            p, o = tn.ref_size(net.net)
            if p * max(o, 1) <= CAP:
                final = "(Some %s)" % tn.dense_term(tn.ref_dense(net.net, net.data))
        except Exception:
            final = "None"          # a network the implementation has left broken (reported by the oracles)
    return "CSeq %s %s %s %s %s" % (rec["net0"], ct.b(rec["consistent0"]), ct.lst(steps),
                                    tn.data_term(net.data, rec["refs"]), final)


def run(ctx):
    ctx.trusted.append("C08: SymbolicTensorNetwork (rename_tensor, rename_bond, transpose, merge incl. merge_tensors/merge_bonds/"
                       "get_bond_axes, is_consistent, counts) is hand-modelled (Qib.TN.TNModel, association lists in dict insertion "
                       "order) and tied by exact correspondence of every intermediate state; the iteration order of the Python sets "
                       "`self.keys() & other.keys()` in merge is an input of the model (recorded from the run; the theorems hold "
                       "for every order); TensorNetwork.merge's data-dictionary union is not modelled (datarefs are codes); "
                       "'never modifies the second operand' is checked on the implementation by deep snapshots")
    ctx.assumes.append("model = /repo with the repairs C08-merge-dedupe-del-axes, C08-transpose-default-axes, C07-is-consistent-leg-count (applied) and "
                       "proposed_fixes/C08-transpose-requires-permutation.diff, C08-merge-checks-join-dimensions.diff, C08-rename-tensor-refuses-virtual.diff, "
                       "C08-merge-refuses-joins-that-starve-a-bond.diff: "
                       "the code itself refuses renaming the virtual tensor -1, axes that are not a permutation of all open axes (negative entries count "
                       "from the last axis), joins of unequal dimension and (before it changes anything) joins that would leave a fused bond with fewer "
                       "than two legs, so the theorems carry no guard on the arguments; the only hypothesis left is that "
                       "the second operand of a merge is itself consistent")
    ctx.trusted.append("TN translation (gen/tn.py -> Run.GenTN, fail-closed): merge's fresh-id arithmetic / join validation / del_axes / kept axes, "
                       "the preconditions of rename_tensor, rename_bond, SymbolicBond, SymbolicTensor.transpose, every `return False` condition of "
                       "is_consistent, the first tree id and bump rule, as_einsum's sort key and axes-map rule, rename_tensor's guard on the virtual tensor and its "
                       "delegation to _rename_tensor, transpose's normalisation of negative axes / permutation test / selection, merge's dimension test are "
                       "regenerated from symbolic_network.py and proved equal to what the model uses (C07_source_*, C08_source_*); PINNED by exact source text, "
                       "not translated: the loop skeleton of is_consistent, its pair-repetition test, as_einsum's first-occurrence rule, the statement order of "
                       "transpose and of merge's validation loop, the statements of merge's leg-count refusal (gen/tn.py MERGE_LEGS_GUARD, hand model "
                       "TNModel.joins_starve; only its final comparison is translated and proved to have the assertion's threshold); that this refusal "
                       "fires exactly when the assertion of the deletion loop would is proved for a finite family only (C08_..._bounded) and otherwise checked "
                       "on every merge of the run by an independent union-find classification; "
                       "the remaining loops (get_bond_axes, as_einsum unification/condensation, tree builder) stay hand-modelled")
    ctx.trusted.append("TN loops (gen/tnloops.py -> Run.GenTNLoops, fail-closed statement-by-statement `ast` walk): the bodies of _rename_tensor, rename_tensor, rename_bond, "
                       "merge_tensors, merge_bonds, SymbolicTensor.transpose, SymbolicTensorNetwork.transpose and every statement of merge except the five pinned statements of its "
                       "leg-count refusal (validation loop with its property reads; deep copy = nothing in a value model; the two relabelling "
                       "loops, dictionary updates, fusion of the virtual tensors, the join loop with axes_map, del_axes, the deletion loop with its assertion, the "
                       "final selection) are regenerated as Gallina state transformers and PROVED EQUAL to TNModel.rename_tensor_priv / rename_tensor / rename_bond / merge_tensors / "
                       "merge_bonds / merge_changes / merge for all arguments and to TNModel.transpose when len(bids) = len(shape) on the virtual tensor "
                       "(C08_source_merge_loops_are_model, C08_source_rename_transpose_loops_are_model: gen_* = TNLoops.lit_* by reflexivity, lit_* = model proved "
                       "in TN/TNLoops.v); trusted in this translation: objects are referenced through (dictionary, key) - two names are the same object only if they were "
                       "fetched under the same key (merge_tensors / merge_bonds return early when the two ids are equal), every list is owned by one object (the "
                       "ownership oracles of this check test that on the implementation), `copy.deepcopy` really copies, a comprehension index `l[i] for i in axes_map` "
                       "is in range (for transpose: behind its permutation test); the iteration orders of the two Python sets `keys() & keys()` are inputs (ordT, ordB) recorded from the call; "
                       "the defaults `join_axes=None`, `axes=None` are pinned")
    ctx.rules.append("random consistent networks (0-6 tensors, degree<=4, bond dims 1-3, hyper-bonds, multi-edges, self-traces, shared "
                     "open bonds, identity wires, negative/colliding ids) x random operation sequences (length<=12; rename_tensor, "
                     "rename_bond, transpose incl. refused ones, merge with colliding ids / shared datarefs equal+unequal / joins "
                     "reusing axes / out-of-range joins; ~10% edge inputs: rename of the virtual tensor, partial / repeating / negative / "
                     "out-of-range axes, joins of unequal dimension, merge with itself; joins that close identity wires / leave a bond with 0 or 1 legs). Every operation is classified valid/invalid from the "
                     "state before the call (numpy.transpose is the reference for axes): valid ones must be accepted, invalid ones refused "
                     "with the state unchanged. Ownership of constructor arguments: wraps built by hand / two tensors with equal bond lists / "
                     "random networks, merged with an equally described wrap and with an equal copy of themselves, then random surgery, built by a caller who "
                     "(shared) passes ONE list / tuple / numpy array object for all equal shape, bond-id and tensor-id sequences of all tensors, bonds and "
                     "operands, or (mutate-after) overwrites his lists / arrays after the constructor calls; all oracles as above + the caller's objects unchanged. "
                     "Degenerate operands of merge (no PRNG): every ordered pair of {inner products, trace, three-tensor hyper-bond, bare scalar, two scalars, "
                     "scalar + inner product, empty network, idle wires only, scalar + open legs, matrix product, wrap} with at least one closed / empty / "
                     "tensor-free member, then the history continues (rename what came from the operand, merge again with a closed and an open network, "
                     "with itself, transpose, random surgery); counts, TensorNetwork.is_consistent, value, both contractions after every step. "
                     "non-trivial = sequence with >=1 accepted operation on a network with >=1 bond")
    ctx.lib(["TN/TNCheck", "TN/TNSem", "TN/TNMergeValue", "TN/TNConsistentConv", "TN/TNGenBase", "TN/TNMergeGuard", "TN/TNLoops"])
    ctx.translate("GenTN", tn.generate)
    ctx.translate("GenTNLoops", tnloops.generate_loops)
    ctx.props()
    rng = ctx.rng
    cases = []
    nseq = 500 if ctx.thorough else 90
    seqs = [(name, d, o, None) for name, d, o in DIRECTED]
    for i in range(nseq):
        desc, feats = tn.gen_net(rng, nt_max=5, open_max=4, cap=3000)
        seqs.append(("random", desc, None, None))
    # who owns the constructor arguments: the same histories with re-used / overwritten argument objects
    owners = [{"mode": m, "kind": k} for m in OWNER_MODES for k in OWNER_KINDS if (m, k) != ("mutate-after", "tuple")]
    for name, d, o in DIRECTED_OWNED:
        for ow in owners:
            seqs.append(("owned:" + name, d, o, ow))
    for i in range(150 if ctx.thorough else 45):
        fam, desc, pre = gen_owned(rng)
        seqs.append(("owned:" + fam, desc, gen_ops(rng, desc, ctx.thorough, prefix=pre, maxlen=5), owners[i % len(owners)]))
    # the degenerate end of the open-axes / tensor-count dimensions: closed, empty, scalar-only operands of merge, histories continue
    for i, (name, d, o) in enumerate(closed_merge_sequences(rng, ctx.thorough)):
        o = gen_ops(rng, d, ctx.thorough, prefix=o, maxlen=3) if i % 2 else o
        seqs.append(("closed:" + name, d, o, owners[i % len(owners)] if i % 4 == 3 else None))
        ctx.count("closed_operand_sequences")
    for name, desc, ops, owner in seqs:
        if ops is None:
            ops = gen_ops(rng, desc, ctx.thorough)
        inp = {"net": desc, "ops": ops}
        if owner is None:
            rec, fails, net = exec_sequence(copy.deepcopy(desc), copy.deepcopy(ops))
        else:
            inp["owner"] = owner
            rec, fails, net = run_owned(desc, ops, owner)
            ctx.count("owned_%s_%s" % (owner["mode"], owner["kind"]))
            ctx.count("owned_family_" + name.split(":")[1].split("<-")[0])
        for sig, exp, obs in fails:
            ctx.fail(sig, tn.to_jsonable(inp), exp, obs)
        for s in rec["steps"]:
            ctx.count("op_%s_%s" % (s["op"][0], "refused" if s["obs"] is None else ("crash" if s["obs"] == "crash" else "ok")))
            if s["op"][0] in ("merge", "merge_self") and s["obs"] not in (None, "crash"):
                js = s["op"][2]
                if len({j[0] for j in js}) < len(js) or len({j[1] for j in js}) < len(js):
                    ctx.count("merge_with_reused_join_axis")
                if js:
                    ctx.count("merge_with_joins")
        if rec.get("clash"):
            ctx.count("merge_data_clash_raised_after_symbolic_merge")
        ctx.count("merge_refused_because_the_joins_would_leave_a_bond_with_fewer_than_two_legs", rec.get("starved_refused", 0))
        ctx.count("merge_set_order_recorded_from_the_call", rec.get("set_order_recorded", 0))
        ctx.count("merge_set_order_differs_from_recomputation", rec.get("set_order_differs", 0))
        ctx.count("seq_len=%d" % len(ops))
        desc_s = {"kind": name, "ntensors": len(desc["tensors"]) - 1, "ops": [o[0] for o in ops]}
        cases.append((case_term(rec, net, fails), tn.to_jsonable(inp)))
        if any(s["obs"] not in (None, "crash") for s in rec["steps"]) and len(net.net.bonds) >= 1:
            ctx.nontriv(repr(tn.to_jsonable(inp)))
        ctx.sample(desc_s)
    dis = ctx.cases("surgery", HEADER, cases)
    for i, d in dis[:5]:
        ctx.log("model/impl disagree on", str(d)[:600])
        # turn a disagreement into a failing input when the oracles see it
        if d.get("owner"):
            rec, fails, net = run_owned(d["net"], d["ops"], d["owner"])
        else:
            rec, fails, net = exec_sequence(copy.deepcopy(d["net"]), copy.deepcopy(d["ops"]))
        for sig, exp, obs in fails:
            ctx.fail(sig, d, exp, obs)


def replay(ctx, data):
    inp = data["input"]
    if inp.get("owner"):
        rec, fails, net = run_owned(inp["net"], inp["ops"], inp["owner"])
    else:
        rec, fails, net = exec_sequence(copy.deepcopy(inp["net"]), copy.deepcopy(inp["ops"]))
    for sig, exp, obs in fails:
        if sig == data["sig"]:
            ctx.fail(sig, inp, exp, obs)
