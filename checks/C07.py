"""C07 - network contraction is independent of strategy and equals the defining sum."""
import copy, os, sys
import numpy as np
from vlib import coqterm as ct

sys.path.insert(0, os.path.join(os.path.dirname(os.path.dirname(os.path.abspath(__file__))), "gen"))
import tn
import tnloops

HEADER = "From Qib Require Import TN.TNCheck.\n"

SIG_LEAF_TRACE = "contract_tree:single-leaf-scaffold:self-trace-assertion"
SIG_LEAF_DIAG = "contract_tree:single-leaf-scaffold:two-legs-on-one-open-bond-refused"
SIG_EMPTY = "contract_einsum:network-without-tensors-and-open-axes:einsum-without-operands"


def D(shape, re, im=None):
    return {"shape": list(shape), "re": list(re), "im": im}


DIRECTED = [
    # identity (idle) wires whose einsum label differs from their position (defect #6)
    ("idle-wire-label-vs-position",
     {"tensors": [[0, [2], [5], "t"], [-1, [3, 2, 3], [7, 5, 7], None]], "bonds": None, "data": {"t": D([2], [1, 2])}}),
    ("idle-wires-only", {"tensors": [[-1, [2, 3, 2, 3], [1, 2, 1, 2], None]], "bonds": None, "data": {}}),
    ("idle-wire-after-tensor",
     {"tensors": [[0, [2], [5], "t"], [-1, [3, 3, 2, 2, 2], [1, 1, 5, 2, 2], None]], "bonds": None, "data": {"t": D([2], [1, 2])}}),
    # identity wires AFTER open axes that share a bond, dimensions differ (position in the compressed output != logical position)
    ("idle-wire-after-repeated-open-bond",
     {"tensors": [[0, [3], [0], "t"], [-1, [3, 3, 2, 2], [0, 0, 1, 1], None]], "bonds": None, "data": {"t": D([3], [1, 2, -1])}}),
    ("two-idle-wires-after-repeated-open-bonds-dim1",
     {"tensors": [[4, [2, 3], [6, 2], "t"], [-1, [2, 2, 2, 3, 1, 3, 1, 3, 2, 2], [6, 6, 6, 2, 9, 2, 9, 11, -3, -3], None],
                  ], "bonds": [[6, [4, -1, -1, -1]], [2, [-1, 4, -1]], [9, [-1, -1]], [11, [-1, -1]], [-3, [-1, -1]]],
      "data": {"t": D([2, 3], [1, 2, 3, -1, 0, 2])}}),
    ("idle-wires-only-mixed-dimensions", {"tensors": [[-1, [3, 3, 3, 1, 2, 1, 2], [5, 5, 5, 0, 1, 0, 1], None]], "bonds": None, "data": {}}),
    # single tensor, open axes a non-identity permutation of its legs (repaired defect: the root permutation
    # was applied to the leaf's index lists only) - contract_tree must be right
    ("single-leaf-permuted",
     {"tensors": [[8, [2, 1, 3], [0, 1, 2], "a"], [-1, [3, 2, 1], [2, 0, 1], None]], "bonds": None,
      "data": {"a": D([2, 1, 3], [1, 2, 3, 4, 5, 6])}}),
    ("single-leaf-self-trace",
     {"tensors": [[4, [2, 2, 3], [0, 0, 1], "a"], [-1, [3], [1], None]], "bonds": None,
      "data": {"a": D([2, 2, 3], [1, 2, 3, 4, 5, 6, 7, 8, 9, 10, 11, 12])}}),
    ("single-leaf-shared-open-bond",
     {"tensors": [[0, [2, 3], [0, 1], "a"], [-1, [3, 3, 2], [1, 1, 0], None]], "bonds": None,
      "data": {"a": D([2, 3], [1, 2, 3, 4, 5, 6])}}),
    # single-leaf scaffolds OUTSIDE the known defect classes: contract_tree must be right
    ("single-leaf-in-order-2d",
     {"tensors": [[3, [2, 3], [4, 9], "a"], [-1, [2, 3], [4, 9], None]], "bonds": None,
      "data": {"a": D([2, 3], [1, 2, 3, 4, 5, 6])}}),
    ("single-leaf-in-order-shared-open-bond",
     {"tensors": [[0, [2, 3], [0, 1], "a"], [-1, [2, 2, 3, 3, 2], [0, 0, 1, 1, 0], None]], "bonds": None,
      "data": {"a": D([2, 3], [1, 2, 3, 4, 5, 6])}}),
    ("single-leaf-in-order-negative-ids",
     {"tensors": [[-5, [3, 2, 2], [-2, -7, 6], "a"], [-1, [3, 2, 2, 2], [-2, -7, 6, -7], None]], "bonds": None,
      "data": {"a": D([3, 2, 2], list(range(1, 13)))}}),
    ("single-leaf-permuted-but-all-dimensions-one",
     {"tensors": [[7, [1, 1], [3, 6], "a"], [-1, [1, 1, 1], [6, 3, 3], None]], "bonds": None,
      "data": {"a": D([1, 1], [2])}}),
    ("single-leaf-permuted-4d-with-shared-open-bonds",
     {"tensors": [[2, [2, 3, 2, 1], [5, 6, 7, 8], "a"], [-1, [1, 2, 3, 2, 3, 1], [8, 7, 6, 5, 6, 8], None]], "bonds": None,
      "data": {"a": D([2, 3, 2, 1], [((7 * i + 3) % 11) - 5 for i in range(12)])}}),
    ("single-leaf-permuted-cyclic-complex",
     {"tensors": [[-3, [3, 2, 2], [1, 2, 3], "a"], [-1, [2, 2, 3], [2, 3, 1], None]], "bonds": None,
      "data": {"a": D([3, 2, 2], list(range(1, 13)), [(-1) ** i * (i % 4) for i in range(12)])}}),
    ("single-leaf-transposed-matrix",
     {"tensors": [[0, [2, 3], [0, 1], "a"], [-1, [3, 2], [1, 0], None]], "bonds": None,
      "data": {"a": D([2, 3], [1, 2, 3, 4, 5, 6])}}),
    ("wrapped-tensor",
     {"tensors": [[0, [2, 1, 2, 3], [0, 1, 2, 3], "a"], [-1, [2, 1, 2, 3], [0, 1, 2, 3], None]],
      "bonds": [[0, [-1, 0]], [1, [-1, 0]], [2, [-1, 0]], [3, [-1, 0]]],
      "data": {"a": D([2, 1, 2, 3], list(range(12)))}}),
    # the topology of tests/test_tensor_network.py with small dimensions
    ("test-suite-topology",
     {"tensors": [[3, [2, 1, 2, 2], [3, -7, -3, 14], "a"], [1, [2, 2, 2, 1], [6, 17, 14, -7], "b"],
                  [7, [2, 2, 2, 2, 2], [6, 13, 3, 5, 5], "c06"], [0, [1, 2, 2], [2, 0, 3], "dd"],
                  [5, [1, 2, 2], [2, 11, -3], "e"], [-1, [2, 2, 2, 2, 2, 2], [0, 13, 11, 5, 17, 0], None]],
      "bonds": None,
      "data": {"a": D([2, 1, 2, 2], [1, 2, -1, 0, 3, 1, 1, -2]), "b": D([2, 2, 2, 1], [0, 1, 1, 2, -1, 1, 2, 0]),
               "c06": D([2] * 5, [(i * 7 + 3) % 5 - 2 for i in range(32)]), "dd": D([1, 2, 2], [1, -1, 2, 1]),
               "e": D([1, 2, 2], [2, 1, 0, -1])}}),
    ("empty-network", {"tensors": [[-1, [], [], None]], "bonds": None, "data": {}}),
    ("scalar-tensors", {"tensors": [[2, [], [], "s"], [-1, [], [], None], [5, [], [], "u"]], "bonds": None,
                        "data": {"s": D([], [3]), "u": D([], [-2])}}),
]

# networks the consistency check must reject (is_consistent tie + the dangling-leg defect)
INCONSISTENT = [
    ("dangling-leg", {"tensors": [[0, [2, 2], [0, 0], "t"], [1, [2], [0], "u"], [-1, [], [], None]], "bonds": [[0, [0, 1]]],
                      "data": {"t": D([2, 2], [1, 2, 3, 4]), "u": D([2], [5, 7])}}),
    ("extra-reference", {"tensors": [[0, [2], [0], "t"], [1, [2], [0], "u"], [-1, [], [], None]], "bonds": [[0, [0, 1, 1]]],
                         "data": {"t": D([2], [1, 2]), "u": D([2], [5, 7])}}),
    ("dimension-mismatch", {"tensors": [[0, [2], [0], "t"], [1, [3], [0], "u"], [-1, [], [], None]], "bonds": [[0, [0, 1]]],
                            "data": {"t": D([2], [1, 2]), "u": D([3], [5, 7, 1])}}),
    ("unknown-bond", {"tensors": [[0, [2, 2], [0, 4], "t"], [1, [2], [0], "u"], [-1, [], [], None]], "bonds": [[0, [0, 1]]],
                      "data": {"t": D([2, 2], [1, 2, 3, 4]), "u": D([2], [5, 7])}}),
    ("unknown-tensor", {"tensors": [[0, [2], [0], "t"], [-1, [2], [0], None]], "bonds": [[0, [0, -1, 9]]],
                        "data": {"t": D([2], [1, 2])}}),
    ("no-virtual-tensor", {"tensors": [[0, [2], [0], "t"], [1, [2], [0], "u"]], "bonds": [[0, [0, 1]]],
                           "data": {"t": D([2], [1, 2]), "u": D([2], [5, 7])}}),
    ("dangling-open-leg", {"tensors": [[0, [2], [0], "t"], [-1, [2, 2], [0, 0], None]], "bonds": [[0, [0, -1]]],
                           "data": {"t": D([2], [1, 2])}}),
]


SIG_LABELS = "contract_einsum:more-than-52-bonds:numpy-einsum-runs-out-of-labels"


def leaf_root_class(stn, tid):
    """Which of the known single-leaf-scaffold defects of contract_tree apply to the network
    `stn` whose only scaffold leaf is `tid` - decided from the network description alone, never
    from what the implementation returned:
      'diag'  two legs of the tensor lie on one open bond (RuntimeError 'inconsistency when tracking'),
      'trace' a leg of the tensor lies on a bond that is not open (assert c == tree.ndim).
    Empty set: every leg lies on its own open bond, in any order - contract_tree must be right (the
    stored tensor of a leaf root is transposed by the root permutation)."""
    t, vt = stn.tensors[tid], stn.tensors[-1]
    cls = set()
    if any(t.bids.count(b) >= 2 for b in set(vt.bids)):
        cls.add("diag")
    if any(b not in vt.bids for b in t.bids):
        cls.add("trace")
    return cls


def leaf_root_permuted(stn, tid):
    """the open axes do not meet the legs of the only tensor in leg order (evidence only)"""
    t, vt = stn.tensors[tid], stn.tensors[-1]
    first = []
    for b in vt.bids:
        if b in t.bids and t.bids.index(b) not in first:
            first.append(t.bids.index(b))
    return first != sorted(first)


def has_idle_bond(stn):
    return any(all(t == -1 for t in b.tids) for b in stn.bonds.values())


def scaffold_leaves(s):
    return [s] if isinstance(s, int) else scaffold_leaves(s[0]) + scaffold_leaves(s[1])


def probe_net(desc):
    """run the single-shot path of the implementation; returns dict with observations and fails"""
    from qib.tensor_network.tensor_network import to_full_tensor
    net = tn.build(desc)
    fails = []
    out = {"net": net, "fails": fails, "ref": None, "dense": None}
    cons = safe(lambda: bool(net.is_consistent()), False)
    refc = tn.ref_consistent(net.net)
    out["consistent"], out["ref_consistent"] = cons, refc
    if cons != refc:
        fails.append(("is_consistent:accepts-dangling-leg" if cons else "is_consistent:rejects-consistent-network", refc, cons))
    if not refc:
        return out
    ref = tn.ref_dense(net.net, net.data)
    out["ref"] = ref
    try:
        out["args"] = net.net.as_einsum()
        cnt, amap = net.contract_einsum()
        out["einsum"] = (np.asarray(cnt), list(amap))
        dense = to_full_tensor(np.asarray(cnt), amap)
        out["dense"] = dense
        if tuple(np.asarray(cnt).shape[i] for i in amap) != tuple(net.shape):
            fails.append(("contract_einsum:logical-shape-differs-from-net-shape", tuple(net.shape),
                          tuple(np.asarray(cnt).shape[i] for i in amap)))
        elif dense.shape != ref.shape or not np.array_equal(dense, ref):
            fails.append(("contract_einsum:not-the-defining-sum", "defining sum", "differs"))
    except Exception as e:
        out["einsum_exc"] = e
        if net.num_tensors == 0 and net.num_open_axes == 0:
            fails.append((SIG_EMPTY, "the scalar 1", repr(e)))
        else:
            fails.append(("contract_einsum:exception:" + type(e).__name__, "contracts", repr(e)))
    return out


def safe(f, default):
    try:
        return f()
    except Exception:
        return default


def probe_tree(net, ref, scaffold, rng=None):
    """contract along one scaffold; returns (obs, fails).  obs = None | (tree, amap, cnt)"""
    from qib.tensor_network.tensor_network import to_full_tensor
    from qib.tensor_network.contraction_tree import perform_tree_contraction
    fails = []
    leaf_root = isinstance(scaffold, int)
    lcls = leaf_root_class(net.net, scaffold) if leaf_root and scaffold in net.net.tensors and scaffold != -1 else set()
    try:
        cnt, amap, tree = net.contract_tree(copy.deepcopy(scaffold))
    except RuntimeError as e:
        if has_idle_bond(net.net) and "cannot track open axis" in str(e):
            return None, fails, "refused-idle-wire"
        if "diag" in lcls and "inconsistency when tracking open axis" in str(e):
            fails.append((SIG_LEAF_DIAG, "contracts", "RuntimeError"))
            return None, fails, "known"
        fails.append(("contract_tree:exception:RuntimeError", "contracts", repr(e)))
        return None, fails, "exception"
    except AssertionError as e:
        if "trace" in lcls:
            fails.append((SIG_LEAF_TRACE, "contracts", "AssertionError"))
            return None, fails, "known"
        fails.append(("contract_tree:exception:AssertionError", "contracts", repr(e)))
        return None, fails, "exception"
    except Exception as e:
        fails.append(("contract_tree:exception:" + type(e).__name__, "contracts", repr(e)))
        return None, fails, "exception"
    cnt = np.asarray(cnt)
    amap = [int(a) for a in amap]
    status = "ok"
    good = True
    try:
        if tuple(cnt.shape[i] for i in amap) != tuple(net.shape):
            good = False
        else:
            dense = to_full_tensor(cnt, amap)
            good = dense.shape == ref.shape and np.array_equal(dense, ref)
    except Exception:
        good = False
    if lcls:
        # the implementation must raise on these classes (see above); returning is a new behaviour
        fails.append(("contract_tree:single-leaf-scaffold:returns-on-trace-or-diagonal", "defining sum or the known refusal",
                      "returned; value %s" % ("right" if good else "wrong")))
        status = "wrong" if not good else "known-benign"
    elif not good:
        fails.append(("contract_tree:not-the-defining-sum", "defining sum", "differs"))
        status = "wrong"
    return (tree, amap, cnt), fails, status


def lay_out_leaves(tree, tensor_dict):
    """perform_tree_contraction reads the entry of a leaf as laid out by the leaf's idxout (range(ndim) as
    built; permute_axes only relabels a leaf).  contract_tree permutes a single-leaf root, so a dictionary
    built from the stored tensors has to be transposed accordingly before the tree is contracted by hand."""
    for _, nd in tn.tree_nodes(tree):
        if nd.is_leaf and nd.ndim and [int(i) for i in nd.idxout] != list(range(nd.ndim)):
            tensor_dict[nd.tid] = np.transpose(tensor_dict[nd.tid], [int(i) for i in nd.idxout])
    return tensor_dict


def probe_permute(net, tree, cnt, rng, nterm=None, amap=None):
    """permute_axes on a random node must not change the contraction (for a leaf the stored
    tensor is transposed by hand, as the test-suite does).  Returns (case term, fails)."""
    from qib.tensor_network.contraction_tree import perform_tree_contraction
    fails = []
    nodes = list(tn.tree_nodes(tree))
    path, node = rng.choice(nodes)
    if node.ndim == 0:
        return [], fails
    perm = list(range(node.ndim))
    rng.shuffle(perm)
    before = tn.tree_term(tree)
    tensor_dict = lay_out_leaves(tree, {t.tid: np.asarray(net.data[t.dataref]) for t in net.net.tensors.values() if t.tid != -1})
    try:
        node.permute_axes(np.array(perm))
    except Exception as e:
        fails.append(("permute_axes:exception:" + type(e).__name__, "permutes", repr(e)))
        return [], fails
    after = tn.tree_term(tree)
    if node.is_leaf:
        tensor_dict[node.tid] = tensor_dict[node.tid].transpose(perm)
    try:
        # trackaxes must still name the leg of the node tensor that carries each open leaf axis
        sub = np.asarray(perform_tree_contraction(node, tensor_dict))
        for (tid, ax), k in zip(node.openaxes, node.trackaxes):
            d_leaf = net.net.tensors[tid].shape[ax]
            if int(k) >= sub.ndim or sub.shape[int(k)] != d_leaf:
                fails.append(("permute_axes:trackaxes-point-to-wrong-leg", "dimension %d" % d_leaf, "leg %d of %s" % (int(k), sub.shape)))
                break
        cnt2 = np.asarray(perform_tree_contraction(tree, tensor_dict))
        expect = cnt.transpose(perm) if len(path) == 0 and not node.is_leaf else (cnt.transpose(perm) if len(path) == 0 else cnt)
        if cnt2.shape != expect.shape or not np.array_equal(cnt2, expect):
            fails.append(("permute_axes:changes-the-contraction", "unchanged", "differs"))
    except Exception as e:
        fails.append(("permute_axes:exception:" + type(e).__name__, "unchanged", repr(e)))
    term = "CPerm %s %s %s (Some %s)" % (before, ct.lst([ct.b(p == 0) for p in path]), tn.nl(perm), after)
    terms = [term]
    if nterm is not None:
        # the permuted tree must still be accepted by the verified checker (=> same dense tensor; for a
        # leaf: with its dictionary entry transposed as above); a permutation of the root moves the legs
        # the axes map points to
        am = [perm.index(a) for a in amap] if len(path) == 0 else list(amap)
        terms.append("CChk %s %s %s true" % (nterm, after, tn.nl(am)))
    return terms, fails


def _snap_dict(d):
    return {k: (id(v), np.array(v, copy=True)) for k, v in d.items()}


def _dict_unchanged(d, snap):
    return set(d) == set(snap) and all(id(d[k]) == snap[k][0] and np.array_equal(d[k], snap[k][1]) for k in snap)


def probe_history(desc, scaffold, rng):
    """A history of contraction calls on ONE network / ONE tree / ONE tensor dictionary; after every
    step the result is compared with the brute-force defining sum of the CURRENT tensors (nothing may
    be remembered from an earlier call) and the caller's dictionary must be left as it was.
    Returns [(sig, expected, observed)]."""
    from qib.tensor_network.tensor_network import to_full_tensor
    from qib.tensor_network.contraction_tree import perform_tree_contraction
    fails = []
    net = tn.build(desc)
    stn = net.net

    def dense_ok(cnt, amap, ref):
        cnt = np.asarray(cnt)
        try:
            if tuple(cnt.shape[i] for i in amap) != tuple(ref.shape):
                return False
            return np.array_equal(to_full_tensor(cnt, list(amap)), ref)
        except Exception:
            return False

    try:
        ref = tn.ref_dense(stn, net.data)
        # ---- the high-level calls, twice each
        for rnd in (1, 2):
            c, am = net.contract_einsum()
            if not dense_ok(c, am, ref):
                fails.append(("contract_einsum:call-%d-on-the-same-network-differs" % rnd, "defining sum", "differs"))
            c, am, tree = net.contract_tree(copy.deepcopy(scaffold))
            if not dense_ok(c, [int(a) for a in am], ref):
                fails.append(("contract_tree:call-%d-on-the-same-network-differs" % rnd, "defining sum", "differs"))
        amap = [int(a) for a in am]
        # ---- the tree by hand, repeatedly with the same dictionary
        tdict = lay_out_leaves(tree, {t.tid: np.asarray(net.data[t.dataref]) for t in stn.tensors.values() if t.tid != -1})
        snap = _snap_dict(tdict)
        r0 = np.asarray(perform_tree_contraction(tree, tdict))
        if not _dict_unchanged(tdict, snap):
            fails.append(("perform_tree_contraction:modifies-the-callers-tensor-dictionary", sorted(snap), sorted(tdict, key=str)))
            tdict = {k: v[1] for k, v in snap.items()}
        if not dense_ok(r0, amap, ref):
            fails.append(("perform_tree_contraction:first-call-not-the-defining-sum", "defining sum", "differs"))
        r0b = np.asarray(perform_tree_contraction(tree, tdict))
        if r0b.shape != r0.shape or not np.array_equal(r0b, r0):
            fails.append(("perform_tree_contraction:second-call-differs", "same tensor", "differs"))
        # ---- permute an inner (non-root) node: nothing may change
        inner = [n for pth, n in tn.tree_nodes(tree) if pth and not n.is_leaf and n.ndim >= 2]
        if inner:
            nd = rng.choice(inner)
            pm = list(range(nd.ndim))
            rng.shuffle(pm)
            nd.permute_axes(np.array(pm))
            r1 = np.asarray(perform_tree_contraction(tree, tdict))
            if r1.shape != r0.shape or not np.array_equal(r1, r0):
                fails.append(("permute_axes:inner-node:later-contraction-with-the-same-dictionary-differs", "unchanged", "differs"))
        # ---- permute the root: the result is transposed, the axes map moves with it
        if not tree.is_leaf and tree.ndim >= 2:
            pm = list(range(tree.ndim))
            while pm == list(range(tree.ndim)):
                rng.shuffle(pm)
            tree.permute_axes(np.array(pm))
            amap = [pm.index(a) for a in amap]
            r2 = np.asarray(perform_tree_contraction(tree, tdict))
            if r2.shape != tuple(r0.shape[q] for q in pm) or not np.array_equal(r2, r0.transpose(pm)):
                fails.append(("permute_axes:root:later-contraction-with-the-same-dictionary-ignores-it", "transposed tensor", "differs"))
        # ---- replace the entries of one leaf in the dictionary
        if not tree.is_leaf:
            leaves = [n.tid for _, n in tn.tree_nodes(tree) if n.is_leaf]
            tid = rng.choice(leaves)
            old = tdict[tid]
            new = np.array([rng.choice([-2, -1, 1, 2, 3]) for _ in range(max(1, old.size))], dtype=float).reshape(old.shape) if old.ndim else np.array(float(rng.choice([2, 3, -1])))
            tdict[tid] = new
            ref3 = tn.ref_dense(stn, net.data, by_tid={tid: new})
            r3 = np.asarray(perform_tree_contraction(tree, tdict))
            if not dense_ok(r3, amap, ref3):
                fails.append(("perform_tree_contraction:stale-result-after-replacing-a-leaf-tensor", "defining sum of the current tensors", "differs"))
            # ---- a second tree on the same dictionary
            tids = [t for t in stn.tensors if t != -1]
            sc2 = tn.rand_scaffold(rng, tids)
            tree2 = stn.build_contraction_tree(copy.deepcopy(sc2))
            net2 = tn.build(desc)      # axes map of the second tree from a fresh contract_tree on equal data
            c2, am2, tree2b = net2.contract_tree(copy.deepcopy(sc2))
            r4 = np.asarray(perform_tree_contraction(tree2b, tdict))
            if not dense_ok(r4, [int(a) for a in am2], ref3):
                fails.append(("perform_tree_contraction:second-tree-on-the-same-dictionary-differs", "defining sum of the current tensors", "differs"))
        # ---- a member tensor is stored with permuted axes (symbolic tensor and data alike, through the public
        #      SymbolicTensor.transpose): same network value, nothing remembered from the contractions above may be used
        cand = [t for t in stn.tensors.values() if t.tid != -1 and t.ndim >= 2]
        if cand:
            t = rng.choice(cand)
            pm = list(range(t.ndim))
            while pm == list(range(t.ndim)):
                rng.shuffle(pm)
            moved = np.transpose(np.asarray(net.data[t.dataref]), pm).copy()
            t.transpose(pm)
            t.dataref = "%s@moved%d" % (t.dataref, t.tid)      # the data entry may be shared with other tensors
            net.data[t.dataref] = moved
            if not net.is_consistent():
                fails.append(("is_consistent:false-after-transposing-a-member-tensor-and-its-data-alike", True, False))
            c, am = net.contract_einsum()
            if not dense_ok(c, am, ref):
                fails.append(("contract_einsum:after-member-transpose:not-the-defining-sum-of-the-current-network", "defining sum", "differs"))
            if not has_idle_bond(stn) and not (isinstance(scaffold, int) and leaf_root_class(stn, scaffold)):
                c, am, _ = net.contract_tree(copy.deepcopy(scaffold))
                if not dense_ok(c, [int(x) for x in am], ref):
                    fails.append(("contract_tree:after-member-transpose:not-the-defining-sum-of-the-current-network", "defining sum", "differs"))
        # ---- surgery between contractions on the same network object: no stale caches
        n_open = net.num_open_axes
        if n_open >= 2:
            pm = list(range(n_open))
            rng.shuffle(pm)
            net.transpose(pm)
        tids = [t for t in stn.tensors if t != -1]
        sc = copy.deepcopy(scaffold)
        if tids:
            a = rng.choice(tids)
            c_new = max(list(stn.tensors) + [0]) + 3
            stn.rename_tensor(a, c_new)

            def ren(x):
                return (c_new if x == a else x) if isinstance(x, int) else [ren(x[0]), ren(x[1])]
            sc = ren(sc)
        if stn.bonds:
            b = rng.choice(list(stn.bonds))
            stn.rename_bond(b, max(list(stn.bonds) + [0]) + 2)
        for step in ("after-transpose-and-renames", "after-merge"):
            if step == "after-merge":
                sh = net.shape
                if not sh:
                    break
                ax = rng.randrange(len(sh))
                w = np.array([rng.choice([-1, 1, 2]) for _ in range(sh[ax] * 2)], dtype=float).reshape(sh[ax], 2)
                from qib.tensor_network import TensorNetwork
                before_ids = set(stn.tensors)
                net.merge(TensorNetwork.wrap(w, "hist_w"), [(ax, 0)])
                (new_id,) = set(stn.tensors) - before_ids
                sc = [sc, new_id] if tids else new_id
            refn = tn.ref_dense(stn, net.data)
            c, am = net.contract_einsum()
            if not dense_ok(c, am, refn):
                fails.append(("contract_einsum:%s:not-the-defining-sum-of-the-current-network" % step, "defining sum", "differs"))
            if not has_idle_bond(stn) and [t for t in stn.tensors if t != -1]:
                leafroot = isinstance(sc, int)
                if not (leafroot and leaf_root_class(stn, sc)):
                    c, am, _ = net.contract_tree(copy.deepcopy(sc))
                    if not dense_ok(c, [int(x) for x in am], refn):
                        fails.append(("contract_tree:%s:not-the-defining-sum-of-the-current-network" % step, "defining sum", "differs"))
    except Exception as e:
        fails.append(("contraction-history:exception:" + type(e).__name__, "runs", repr(e)[:200]))
    return fails


# ----------------------------------------------------------------------------- contraction - surgery - contraction
def _ren_scaffold(sc, a, c):
    return (c if sc == a else sc) if isinstance(sc, int) else [_ren_scaffold(sc[0], a, c), _ren_scaffold(sc[1], a, c)]


def _bond_orders(stn):
    """per bond: the order in which the DISTINCT tensors appear in bond.tids"""
    out = {}
    for k, b in stn.bonds.items():
        seen = []
        for t in b.tids:
            if t not in seen:
                seen.append(t)
        out[k] = seen
    return out


def rename_target(rng, stn, a, mode):
    """a new id for tensor `a` that moves it, in the sorted id order, in the way `mode` says (None: impossible)"""
    ids = set(stn.tensors)
    nbrs = sorted({t for b in stn.bonds.values() if a in b.tids for t in b.tids if t != a})

    def free_above(x):
        c = x + 1
        while c in ids:
            c += 1
        return c

    def free_below(x):
        c = x - 1
        while c in ids:
            c -= 1
        return c
    if mode == "above-all":
        return max(ids) + rng.randint(1, 3)
    if mode == "below-all":                      # negative, below the virtual tensor -1
        return min(ids) - rng.randint(1, 3)
    if mode == "across-a-neighbour" and nbrs:
        t = rng.choice(nbrs)                     # a tensor sharing a bond with `a` (possibly the virtual tensor -1)
        return free_above(t) if a < t else free_below(t)
    if mode == "between":
        gaps = [c for c in range(min(ids) + 1, max(ids)) if c not in ids]
        return rng.choice(gaps) if gaps else None
    if mode == "same-side":                      # a different id that keeps the position relative to every neighbour
        lo = max([t for t in nbrs if t < a] + [min(ids) - 4])
        hi = min([t for t in nbrs if t > a] + [max(ids) + 4])
        gaps = [c for c in range(lo + 1, hi) if c not in ids]
        return rng.choice(gaps) if gaps else None
    return None


RENAME_MODES = ["above-all", "below-all", "across-a-neighbour", "across-a-neighbour", "across-a-neighbour", "between", "same-side"]


def gen_surgery_ops(desc, scaffold, rng):
    """an operation list  contract - surgery - contract - ...  (JSON): the contractions before a surgery step fill
    whatever the implementation remembers, the renames move a tensor in every direction of the id order"""
    scratch = tn.build(desc).net
    ops = [["contract", rng.choice(["einsum", "tree", "both", "both"])]]
    for _ in range(rng.randint(2, 5)):
        tids = [t for t in scratch.tensors if t != -1]
        r = rng.random()
        if tids and r < 0.7:
            a = rng.choice(tids)
            c = rename_target(rng, scratch, a, rng.choice(RENAME_MODES))
            if c is None or c == -1 or c in scratch.tensors:
                continue
            scratch.rename_tensor(a, c)
            ops.append(["rename_tensor", a, c])
        elif scratch.bonds and r < 0.85:
            b = rng.choice(list(scratch.bonds))
            c = rng.choice([min(scratch.bonds) - rng.randint(1, 2), max(scratch.bonds) + rng.randint(1, 2)])
            scratch.rename_bond(b, c)
            ops.append(["rename_bond", b, c])
        elif scratch.num_open_axes >= 2:
            pm = list(range(scratch.num_open_axes))
            rng.shuffle(pm)
            scratch.transpose(pm)
            ops.append(["transpose", pm])
        else:
            continue
        ops.append(["contract", rng.choice(["einsum", "tree", "both", "both"])])
    return ops


def probe_surgery_history(desc, scaffold, ops):
    """contraction - surgery - contraction on ONE network object.  Every contraction is compared with the brute-force
    defining sum of the CURRENT network (renaming must not change it, transposing transposes it); the network must
    stay consistent.  Returns ([(sig, expected, observed)], evidence counters)."""
    from qib.tensor_network.tensor_network import to_full_tensor
    fails, ev = [], {}
    net = tn.build(desc)
    stn = net.net
    sc = copy.deepcopy(scaffold)
    last = "construction"
    val0 = tn.ref_dense(stn, net.data)

    def bump(k):
        ev[k] = ev.get(k, 0) + 1

    def dense_ok(cnt, amap, ref):
        cnt = np.asarray(cnt)
        try:
            if tuple(cnt.shape[i] for i in amap) != tuple(ref.shape):
                return False
            return np.array_equal(to_full_tensor(cnt, list(amap)), ref)
        except Exception:
            return False

    for op in ops:
        kind = op[0]
        try:
            if kind == "rename_tensor":
                before = _bond_orders(stn)
                stn.rename_tensor(op[1], op[2])
                sc = _ren_scaffold(sc, op[1], op[2])
                after = _bond_orders(stn)
                moved = any([op[2] if t == op[1] else t for t in before[k]] != after[k] for k in before)
                bump("rename_tensor_changes_the_id_order_on_a_bond" if moved else "rename_tensor_keeps_the_id_order")
                if op[2] < -1:
                    bump("rename_tensor_to_an_id_below_the_virtual_tensor")
                last = kind
            elif kind == "rename_bond":
                stn.rename_bond(op[1], op[2])
                last = kind
            elif kind == "transpose":
                net.transpose(list(op[1]))
                val0 = np.transpose(val0, list(op[1]))
                last = kind
            elif kind == "contract":
                ref = tn.ref_dense(stn, net.data)
                if ref.shape != val0.shape or not np.array_equal(ref, val0):
                    fails.append(("%s:changes-the-defining-sum" % last, "unchanged (up to the transposition)", "differs"))
                    val0 = ref
                if op[1] in ("einsum", "both") and (net.num_tensors or net.num_open_axes):
                    try:
                        c, am = net.contract_einsum()
                        if not dense_ok(c, am, ref):
                            fails.append(("contract_einsum:after-%s:not-the-defining-sum-of-the-current-network" % last, "defining sum", "differs"))
                    except Exception as e:
                        fails.append(("contract_einsum:after-%s:raises:%s" % (last, type(e).__name__), "contracts", repr(e)[:200]))
                    bump("contract_einsum_after_" + last)
                tids = [t for t in stn.tensors if t != -1]
                if op[1] in ("tree", "both") and tids and not has_idle_bond(stn) \
                        and not (isinstance(sc, int) and leaf_root_class(stn, sc)):
                    try:
                        c, am, _ = net.contract_tree(copy.deepcopy(sc))
                        if not dense_ok(c, [int(x) for x in am], ref):
                            fails.append(("contract_tree:after-%s:not-the-defining-sum-of-the-current-network" % last, "defining sum", "differs"))
                    except Exception as e:
                        fails.append(("contract_tree:after-%s:raises:%s" % (last, type(e).__name__), "contracts", repr(e)[:200]))
                    bump("contract_tree_after_" + last)
                continue
            else:
                raise RuntimeError("unknown op " + kind)
        except Exception as e:
            fails.append(("%s:raises-on-valid-arguments:%s" % (kind, type(e).__name__), "accepted", repr(e)[:200]))
            break
        if not safe(lambda: bool(stn.is_consistent()), False) or not tn.ref_consistent(stn):
            fails.append(("%s:network-inconsistent-afterwards" % kind, True, False))
            break
    return fails, ev


def _chain3(dims, ids=(1, 2, 3)):
    """A[i,j] B[j,k] C[k,l] with bond dimensions dims = (i, j, k, l)"""
    a, b, c = ids
    d = dims
    return {"tensors": [[a, [d[0], d[1]], [0, 1], "A"], [b, [d[1], d[2]], [1, 2], "B"], [c, [d[2], d[3]], [2, 3], "C"],
                        [-1, [d[0], d[3]], [0, 3], None]], "bonds": None,
            "data": {"A": D([d[0], d[1]], [(3 * i + 1) % 7 - 3 for i in range(d[0] * d[1])]),
                     "B": D([d[1], d[2]], [(5 * i + 2) % 7 - 3 for i in range(d[1] * d[2])]),
                     "C": D([d[2], d[3]], [(2 * i + 3) % 5 - 2 for i in range(d[2] * d[3])])}}


_CE, _CT, _CB = ["contract", "einsum"], ["contract", "tree"], ["contract", "both"]
DIRECTED_SURGERY = [
    # (name, net, scaffold, ops): a rename that moves a tensor across its neighbour in the id order of their bond
    ("chain-rename-up-across-neighbour", _chain3((3, 3, 3, 3)), [[1, 2], 3], [_CB, ["rename_tensor", 1, 7], _CB]),
    ("chain-rename-up-across-neighbour-einsum-only", _chain3((2, 3, 3, 2)), [1, [2, 3]], [_CE, ["rename_tensor", 1, 7], _CE]),
    ("chain-rename-up-across-neighbour-tree-only", _chain3((2, 3, 3, 2)), [[3, 2], 1], [_CT, ["rename_tensor", 1, 7], _CT]),
    ("chain-rename-down-across-neighbour", _chain3((2, 2, 3, 3)), [[1, 2], 3], [_CB, ["rename_tensor", 3, 0], _CB, ["rename_tensor", 2, -4], _CB]),
    ("chain-rename-below-the-virtual-tensor", _chain3((2, 3, 2, 3)), [1, [2, 3]], [_CB, ["rename_tensor", 1, -5], _CB, ["rename_tensor", 3, -2], _CB]),
    ("chain-rename-keeps-order", _chain3((2, 3, 2, 3), (4, 6, 9)), [[4, 6], 9], [_CB, ["rename_tensor", 4, 5], _CB, ["rename_tensor", 9, 7], _CB]),
    ("chain-differing-dimensions-rename-middle", _chain3((2, 3, 1, 2)), [[1, 2], 3], [_CB, ["rename_tensor", 2, 8], _CB, ["rename_tensor", 8, 0], _CB]),
    ("chain-rename-between-other-surgery", _chain3((2, 3, 3, 2)), [[1, 2], 3],
     [_CB, ["transpose", [1, 0]], _CB, ["rename_tensor", 2, 9], _CT, ["rename_bond", 1, 11], _CE, ["rename_tensor", 9, -3], _CB]),
    ("hyper-bond-rename-middle-to-top",
     {"tensors": [[2, [2, 3], [5, 6], "a"], [4, [2, 2], [5, 7], "b"], [6, [2, 3, 2], [5, 6, 7], "c"], [-1, [2], [5], None]], "bonds": None,
      "data": {"a": D([2, 3], [1, 2, -1, 0, 3, 1]), "b": D([2, 2], [1, -1, 2, 1]), "c": D([2, 3, 2], [(i * 5 + 1) % 7 - 3 for i in range(12)])}},
     [[2, 4], 6], [_CB, ["rename_tensor", 4, 9], _CB, ["rename_tensor", 2, -6], _CB]),
    ("single-tensor-rename-below-the-virtual-tensor",
     {"tensors": [[3, [2, 3], [0, 1], "a"], [-1, [2, 3], [0, 1], None]], "bonds": None, "data": {"a": D([2, 3], [1, 2, 3, 4, 5, 6])}},
     3, [_CB, ["rename_tensor", 3, -4], _CB]),
]


def run_surgery(ctx, desc, sc, sops):
    inp = tn.to_jsonable({"net": desc, "scaffold": sc, "kind": "surgery-history", "ops": sops})
    fails, ev = probe_surgery_history(desc, sc, sops)
    for sig, e, g in fails:
        ctx.fail(sig, inp, e, g)
    for k, v in ev.items():
        ctx.count(k, v)
    ctx.count("surgery_histories")


def chain_desc(N):
    """N matrices [[1,1],[0,1]] in a row: N+1 bonds, value [[1,N],[0,1]]"""
    return {"tensors": [[i, [2, 2], [i, i + 1], "m"] for i in range(N)] + [[-1, [2, 2], [0, N], None]],
            "bonds": None, "data": {"m": D([2, 2], [1, 1, 0, 1])}}


def probe_label_limit(N):
    """numpy.einsum has 52 index letters: as_einsum needs one label per bond.  The model's einsum
    is the mathematical sum (no limit), so this bound of the implementation is probed here."""
    from qib.tensor_network.tensor_network import to_full_tensor
    net = tn.build(chain_desc(N))
    want = np.array([[1, N], [0, 1]], dtype=float)
    fails = []
    if not net.is_consistent():
        fails.append(("generator:initial-network-not-consistent", True, False))
        return fails
    try:
        cnt, amap = net.contract_einsum()
        if not np.array_equal(to_full_tensor(np.asarray(cnt), amap), want):
            fails.append(("contract_einsum:not-the-defining-sum", want.tolist(), "differs"))
    except Exception as e:
        if len(net.net.bonds) > 52:
            fails.append((SIG_LABELS, "contracts", repr(e)))
        else:
            fails.append(("contract_einsum:exception:" + type(e).__name__, "contracts", repr(e)))
    sc = 0
    for i in range(1, N):
        sc = [sc, i]
    try:
        cnt, amap, _ = net.contract_tree(sc)
        if not np.array_equal(to_full_tensor(np.asarray(cnt), [int(a) for a in amap]), want):
            fails.append(("contract_tree:not-the-defining-sum", want.tolist(), "differs"))
    except Exception as e:
        fails.append(("contract_tree:exception:" + type(e).__name__, "contracts", repr(e)))
    return fails


def run(ctx):
    ctx.trusted.append("C07: get_bond_axes, as_einsum, contract_einsum, to_full_tensor, _build_contraction_tree, contract_tree "
                       "(axis tracking, root permutation), permute_axes, perform_tree_contraction are hand-modelled (Qib.TN.TNValue, "
                       "TNTree) and tied by exact correspondence (index lists per tree node, axes maps, integer values); "
                       "numpy.einsum is modelled by its defining sum (einsum_sem), np.argsort of a permutation by the inverse permutation")
    ctx.assumes.append("numpy.einsum is modelled by its defining sum for ANY number of labels and operands; the real numpy.einsum "
                       "(optimize=True) has 52 index letters, so contract_einsum raises on networks with more than 52 bonds "
                       "(KNOWN FINDING, probed on every run); C07_einsum_answers is a statement about the model")
    ctx.assumes.append("model = /repo (incl. its commits f430c25 'contract_einsum looked up an einsum label in a list of positions', 0a2ab96 is_consistent leg count) "
                       "with proposed_fixes/C07-single-leaf-root-transpose.diff (contract_tree transposes the stored tensor of a single-leaf root by the root permutation; "
                       "the model's tree_eval reads a leaf's dictionary entry as the stored tensor laid out by the leaf's idxout); "
                       "tensor data are ring elements (exact arithmetic); the tree path is PROVED for every admissible scaffold (C07_builder_tree_is_defining_sum: "
                       "builder invariant TNBuilder + root check TNBuilderRoot + root permutation TNPermute); the verified checker (check_root_sound) is still executed in "
                       "Coq on every tree of the run as translation validation of the port; permute_axes: C07_permute_axes_keeps_value (all trees, paths, permutations)")
    ctx.trusted.append("TN translation (gen/tn.py -> Run.GenTN, fail-closed): merge's fresh-id arithmetic / join validation / del_axes / kept axes, "
                       "the preconditions of rename_tensor, rename_bond, SymbolicBond, SymbolicTensor.transpose, every `return False` condition of "
                       "is_consistent, the first tree id and bump rule, as_einsum's sort key and axes-map rule, rename_tensor's guard on the virtual tensor and its "
                       "delegation to _rename_tensor, transpose's normalisation of negative axes / permutation test / selection, merge's dimension test are "
                       "regenerated from symbolic_network.py and proved equal to what the model uses (C07_source_*, C08_source_*); PINNED by exact source text, "
                       "not translated: the loop skeleton of is_consistent, its pair-repetition test, as_einsum's first-occurrence rule, the statement order of "
                       "transpose and of merge's validation loop; "
                       "the loops of as_einsum (unification / condensation) and of the tree builder stay hand-modelled (exact correspondence on every network / tree of the run, "
                       "verified checker on every built tree)")
    ctx.trusted.append("TN loops (gen/tnloops.py -> Run.GenTNLoops, fail-closed statement-by-statement `ast` walk): get_bond_axes (both loops, the slice count, `break`, the final "
                       "assertion) is regenerated as a Gallina function and PROVED EQUAL to TNModel.get_bond_axes for all networks and bond ids "
                       "(C07_source_get_bond_axes_is_model: gen = TNLoops.lit_get_bond_axes by reflexivity, lit = model in TN/TNLoops.v); the same module carries the surgery "
                       "methods (merge / rename / transpose), whose bridge theorems are C08's; trusted: objects are referenced through (dictionary, key), lists are owned by one object")
    ctx.rules.append("random consistent networks (0-6 tensors, degree<=4, bond dims 1-3, hyper-bonds<=5 legs, multi-edges, self-traces, "
                     "shared open bonds, identity wires, negative ids) with small Gaussian-integer data; open-structure networks (0-2 tensors, several identity wires at "
                     "every position relative to repeated open bonds, all dimensions independently from {1,2,3}); contraction HISTORIES per network (both "
                     "contractions twice, perform_tree_contraction repeatedly on one dictionary, permute_axes on inner node / root, a replaced leaf tensor, a second "
                     "tree, then transpose/rename/merge on the same object) against the brute-force defining sum of the current state; "
                     "contraction - surgery - contraction histories (per network + directed chains / hyper-bond): contract_einsum / contract_tree / both, then "
                     "rename_tensor to an id above all / below all (negative, below the virtual tensor) / across a neighbour on a common bond / into a gap / "
                     "on the same side, rename_bond, transpose, each followed by a contraction again, bond dimensions independent; scaffolds: all binary trees with "
                     "both child orders for n<=3 (thorough: n<=5), random otherwise. non-trivial = >=2 tensors and one of hyper-bond, "
                     "multi-edge, shared open bond, self-trace")
    ctx.lib(["TN/TNCheck", "TN/TNTreeCheck", "TN/TNConsistentConv", "TN/TNGenBase", "TN/TNRootPermute", "TN/TNLoops"])
    ctx.translate("GenTN", tn.generate)
    ctx.translate("GenTNLoops", tnloops.generate_loops)
    ctx.props()
    rng = ctx.rng
    cases = []

    def add(term, desc):
        cases.append((term, tn.to_jsonable(desc)))

    nets = [(name, d, {"directed"}) for name, d in DIRECTED]
    for _ in range(300 if ctx.thorough else 70):
        d, feats = tn.gen_net(rng, nt_max=6, open_max=4, cap=60000 if ctx.thorough else 30000)
        nets.append(("random", d, feats))
    for i in range(240 if ctx.thorough else 60):
        d, feats = tn.gen_open_net(rng, [None, None, "wires-last", "wires-first"][i % 4])
        nets.append(("open-structure", d, feats))
    exhaustive_budget = {4: 20 if ctx.thorough else 1, 5: 4 if ctx.thorough else 0, 6: 0}
    ntrees = 0
    nhist = 0
    nsurg = 0
    for name, desc, sc, sops in DIRECTED_SURGERY:
        run_surgery(ctx, desc, sc, sops)
    for name, desc, feats in nets:
        inp = {"net": desc}
        o = probe_net(desc)
        net, ref = o["net"], o["ref"]
        for sig, e, g in o["fails"]:
            ctx.fail(sig, tn.to_jsonable(inp), e, g)
        refs = tn.Refs()
        nterm = tn.net_term(net.net, refs)
        dterm = tn.data_term(net.data, refs)
        nt = net.num_tensors
        ctx.count("ntensors=%d" % nt)
        for f in feats:
            ctx.count("feature_" + f)
        if nt >= 2 and feats & {"hyper", "multi-edge", "shared-open", "self-trace", "self-multi"}:
            ctx.nontriv(repr(tn.to_jsonable(desc)))
        ctx.sample({"kind": name, "ntensors": nt, "features": sorted(feats),
                    "tensors": [[t[0], t[1], t[2]] for t in desc["tensors"]]})
        if "einsum_exc" in o and "args" in o:
            tids, tidx, idxout, amap = o["args"]
            args = "(Some %s)" % ct.pair(tn.zl(tids), ct.lst([tn.nl(r) for r in tidx]), tn.nl(idxout), tn.nl(amap))
            add("CEin %s %s %s None None" % (nterm, dterm, args), dict(inp, kind="einsum"))
        if "einsum" in o:
            tids, tidx, idxout, amap = o["args"]
            args = "(Some %s)" % ct.pair(tn.zl(tids), ct.lst([tn.nl(r) for r in tidx]), tn.nl(idxout), tn.nl(amap))
            good = not any(s.startswith("contract_einsum") for s, _, _ in o["fails"])
            add("CEin %s %s %s (Some %s) %s" % (nterm, dterm, args, tn.dense_term(o["einsum"][0]),
                                                 "(Some %s)" % tn.dense_term(ref) if good else "None"),
                dict(inp, kind="einsum"))
        # ---------------- trees
        tids = [t for t in net.net.tensors if t != -1]
        if not tids:
            continue
        if nt <= 3 or exhaustive_budget.get(nt, 0) > 0:
            scaffolds = tn.all_scaffolds(tids)
            if nt > 3:
                exhaustive_budget[nt] -= 1
            ctx.count("exhaustive_scaffolds_n=%d" % nt)
        else:
            scaffolds = [tn.rand_scaffold(rng, tids) for _ in range(6 if ctx.thorough else 3)]
        did_history = False
        did_surgery = False
        for sc in scaffolds:
            tinp = dict(inp, scaffold=sc)
            obs, fails, status = probe_tree(net, ref, sc, rng)
            if status == "ok" and not did_history and nhist < (400 if ctx.thorough else 60) \
                    and tn.ref_size(net.net)[0] * max(1, tn.ref_size(net.net)[1]) <= 4000:
                nhist += 1
                did_history = True
                hseed = rng.randrange(10 ** 9)
                import random as _random
                for sig, e, g in probe_history(desc, sc, _random.Random(hseed)):
                    ctx.fail(sig, tn.to_jsonable(dict(tinp, kind="history", hseed=hseed)), e, g)
                ctx.count("contraction_histories")
            if status == "ok" and not did_surgery and nsurg < (600 if ctx.thorough else 150) \
                    and tn.ref_size(net.net)[0] * max(1, tn.ref_size(net.net)[1]) <= 4000:
                nsurg += 1
                did_surgery = True
                sops = gen_surgery_ops(desc, sc, rng)
                run_surgery(ctx, desc, sc, sops)
            ctx.count("tree_" + status)
            for sig, e, g in fails:
                ctx.fail(sig, tn.to_jsonable(tinp), e, g)
            ntrees += 1
            if obs is None:
                add("CTree %s %s %s None None" % (nterm, dterm, tn.scaffold_term(sc)), dict(tinp, kind="tree"))
                continue
            tree, amap, cnt = obs
            add("CTree %s %s %s (Some %s) %s" % (
                nterm, dterm, tn.scaffold_term(sc), ct.pair(tn.tree_term(tree), tn.nl(amap), tn.dense_term(cnt)),
                "(Some %s)" % tn.dense_term(ref) if status == "ok" else "None"), dict(tinp, kind="tree"))
            if isinstance(sc, int) and status == "ok" and leaf_root_permuted(net.net, sc):
                ctx.count("single_leaf_root_permuted_ok")
            if isinstance(sc, int) and leaf_root_class(net.net, sc):
                # a single-leaf tree with a self-trace / a diagonal is outside the checker's domain: if the
                # implementation returns one at all (a VIOLATION above), the verified checker must refuse it
                add("CChk %s %s %s false" % (nterm, tn.tree_term(tree), tn.nl(amap)), dict(tinp, kind="checker-rejects"))
                ctx.count("checker_rejects_wrong_tree")
            if rng.random() < (0.25 if len(scaffolds) > 20 else 1.0):
                try:
                    raw = net.net.build_contraction_tree(copy.deepcopy(sc))
                    add("CBuild %s %s (Some %s)" % (nterm, tn.scaffold_term(sc), tn.tree_term(raw)), dict(tinp, kind="build"))
                except Exception as e:
                    ctx.fail("build_contraction_tree:exception:" + type(e).__name__, tn.to_jsonable(tinp), "tree", repr(e))
                if status == "ok":
                    terms, pf = probe_permute(net, tree, cnt, rng, nterm, amap)
                    for sig, e, g in pf:
                        ctx.fail(sig, tn.to_jsonable(tinp), e, g)
                    for term in terms:
                        add(term, dict(tinp, kind="permute"))
    ctx.count("trees", ntrees)
    # ---------------- the label limit of numpy.einsum (outside the model: einsum_sem has no limit)
    for N in (51, 52):
        for sig, e, g in probe_label_limit(N):
            ctx.fail(sig, {"kind": "label-limit", "chain": N}, e, g)
        ctx.count("label_limit_probe_bonds=%d" % (N + 1))
    # ---------------- consistency check: negatives
    for name, desc in INCONSISTENT:
        inp = {"net": desc, "kind": "inconsistent:" + name}
        try:
            stn = tn.build_symbolic(desc)
        except Exception as e:
            ctx.fail("generator:cannot-build:" + name, inp, "builds", repr(e))
            continue
        cons = safe(lambda: bool(stn.is_consistent()), False)
        refc = tn.ref_consistent(stn)
        ctx.count("inconsistent_network_" + ("rejected" if not cons else "accepted"))
        if cons != refc:
            ctx.fail("is_consistent:accepts-dangling-leg" if cons else "is_consistent:rejects-consistent-network",
                     tn.to_jsonable(inp), refc, cons)
        refs = tn.Refs()
        add("CSeq %s %s [] [] None" % (tn.net_term(stn, refs), ct.b(cons)), inp)
    ctx.log("implementation runs done: %d cases, %d trees" % (len(cases), ntrees))
    dis = ctx.cases("contract", HEADER, cases, shard=100)
    for i, d in dis[:6]:
        ctx.log("model/impl disagree on", str(d)[:500])


def replay(ctx, data):
    inp, sig = data["input"], data["sig"]
    if inp.get("kind") == "history":
        import random as _random
        for s, e, g in probe_history(inp["net"], inp["scaffold"], _random.Random(int(inp["hseed"]))):
            if s == sig:
                ctx.fail(sig, inp, e, g)
        return
    if inp.get("kind") == "surgery-history":
        for s, e, g in probe_surgery_history(inp["net"], inp["scaffold"], inp["ops"])[0]:
            if s == sig:
                ctx.fail(sig, inp, e, g)
        return
    if inp.get("kind") == "label-limit":
        for s, e, g in probe_label_limit(int(inp["chain"])):
            if s == sig:
                ctx.fail(sig, inp, e, g)
        return
    if str(inp.get("kind", "")).startswith("inconsistent"):
        stn = tn.build_symbolic(inp["net"])
        cons = safe(lambda: bool(stn.is_consistent()), False)
        if cons != tn.ref_consistent(stn):
            ctx.fail(sig, inp, tn.ref_consistent(stn), cons)
        return
    o = probe_net(inp["net"])
    fails = list(o["fails"])
    if "scaffold" in inp and o["ref"] is not None:
        import random
        obs, tf, status = probe_tree(o["net"], o["ref"], inp["scaffold"])
        fails += tf
        if obs is not None and status == "ok" and sig.startswith("permute_axes"):
            for seed in range(20):
                obs, _, _ = probe_tree(o["net"], o["ref"], inp["scaffold"])
                _, pf = probe_permute(o["net"], obs[0], obs[2], random.Random(seed))
                fails += pf
    for s, e, g in fails:
        if s == sig:
            ctx.fail(sig, inp, e, g)
