"""C11 - Jordan-Wigner encoding reproduces the operator exactly.
(The encoder part of the harness is shared with C12: `encoder_run(ctx, parity)`.)"""
import itertools, sys, os
import numpy as np
from vlib import coqterm as ct
from checks import C10 as base
from checks.C10 import (World, dense, ref_lad, ref_op_matrix, desc_terms, undesc_terms, cop, rand_terms, rand_coeffs,
                        special_terms, nontrivial, kron_all, I2, Z2, X2, Y2)

HEADER_GEN = ("From Qib Require Import Fermi.FermiCheck.\nFrom Coq Require Import QArith.\nFrom Run Require Import GenFermi.\n"
              "Definition half : QI := (Qmake 1%Z 2%positive, Qmake 0%Z 1%positive).\n"
              "Definition bad_cases := fbad_cases (gen_jw_params half) (gen_par_params half) gen_jw_tol gen_par_tol.\n")
# used only when the translator refuses the source: the hand copy of the tables, so that the
# correspondence run can still localise the difference
HEADER_HAND = ("From Qib Require Import Fermi.FermiCheck.\nFrom Coq Require Import QArith.\n"
               "Definition half : QI := (Qmake 1%Z 2%positive, Qmake 0%Z 1%positive).\n"
               "Definition pj : encparams QI := {| ep_tab := jw_tab; ep_weight := fun k c => smul (spow half k) c; ep_keepdim := false |}.\n"
               "Definition pp : encparams QI := {| ep_tab := par_tab; ep_weight := fun k c => smul (spow half k) c; ep_keepdim := false |}.\n"
               "Definition tol : Q := Qmake 6338253001141147%Z 633825300114114700748351602688%positive.\n"
               "Definition bad_cases := fbad_cases pj pp tol tol.\n")

SIG_ZERO = {False: "jw:all-zero-operator-encodes-to-empty-operator-without-dimension",
            True: "parity:all-zero-operator-encodes-to-empty-operator-without-dimension"}


def encoder_of(W, parity):
    t = W.qib.transform
    return t.parity_encode_field_operator if parity else t.jordan_wigner_encode_field_operator


def p3_of(ps):
    return ct.pair(ct.bits(ps.z), ct.bits(ps.x), ct.z(ps.q))


def enc_strings(enc):
    return ct.lst([ct.pair(p3_of(w.paulis), base.qi(w.weight)) for w in enc.pstrings])


def enc_lad_impl(W, L, parity):
    """matrices of the encoded single ladder operators, through the public API"""
    f = encoder_of(W, parity)
    cache = {}

    def lad(i, create):
        if (i, create) not in cache:
            e = np.zeros(L)
            e[i] = 1.0
            cache[(i, create)] = dense(f(W.op(L, [([1 if create else 0], e)])).as_matrix())
        return cache[(i, create)]
    return lad


def oracle_enc(ctx, W, L, terms, parity, exact=True, lad=None):
    """the property on one operator; returns (encoded operator, its matrix or None)"""
    name = "parity" if parity else "jw"
    d = dict(desc_terms(L, terms), kind="enc", parity=parity, exact=exact)
    fop = W.op(L, terms)
    enc = encoder_of(W, parity)(fop)
    E = enc.as_matrix()
    if not enc.pstrings or np.ndim(E) != 2:
        # the all-zero operator: no string is ever added, the result has no dimension
        ctx.fail(SIG_ZERO[parity], d, "a %dx%d (zero) matrix" % (2 ** L, 2 ** L), "as_matrix() = %r, num_qubits = %r" % (E, enc.num_qubits))
        return enc, None
    E = dense(E)
    if E.shape != (2 ** L, 2 ** L):
        ctx.fail(name + ":encoded-matrix-has-wrong-shape", d, (2 ** L, 2 ** L), E.shape)
        return enc, None
    if parity:
        R = ref_op_matrix(L, terms, lad)        # same sum of ordered products of the ENCODED ladder operators
        what = "sum coeff * ordered product of the encoded ladder operators"
    else:
        R = ref_op_matrix(L, terms)             # independent np.kron Jordan-Wigner reference
        what = "matrix of the field operator (np.kron reference)"
    scale = max(1.0, float(np.abs(R).max()))
    diff = float(np.abs(E - R).max())
    if (exact and diff != 0) or diff > 1e-12 * scale:
        ctx.fail(name + ":encoded-matrix-differs", d, what, "max diff %g" % diff)
    if not parity:
        M = dense(fop.as_matrix())
        diff = float(np.abs(E - M).max())
        if (exact and diff != 0) or diff > 1e-12 * scale:
            ctx.fail("jw:encoded-matrix-differs-from-as_matrix", d, "op.as_matrix()", "max diff %g" % diff)
    else:
        # spectra are preserved (checked on the Hermitian part)
        M = dense(fop.as_matrix())
        if L <= 4:
            ev1 = np.sort(np.linalg.eigvalsh(M + M.conj().T))
            ev2 = np.sort(np.linalg.eigvalsh(E + E.conj().T))
            if np.abs(ev1 - ev2).max() > 1e-9 * max(1.0, np.abs(ev1).max()):
                ctx.fail("parity:spectrum-differs", d, "same spectrum as the field operator", "max diff %g" % np.abs(ev1 - ev2).max())
    # the adjoint operator carries transposed (Fortran-ordered) coefficient arrays, which np.nditer visits in
    # memory order: the string order may differ, the matrix must be the adjoint matrix
    if terms and max(len(p) for p, _ in terms) >= 2:
        enc2 = encoder_of(W, parity)(fop.adjoint())
        if enc2.pstrings:
            E2 = dense(enc2.as_matrix())
            diff = float(np.abs(E2 - E.conj().T).max())
            if (exact and diff != 0) or diff > 1e-12 * scale:
                ctx.fail(name + ":encoding-of-adjoint-is-not-adjoint-matrix", d, "encode(op.adjoint()) = encode(op)^dagger", "max diff %g" % diff)
    # all surviving weights are above the pruning tolerance unless a single string is left
    if len(enc.pstrings) > 1 and any(abs(w.weight) <= 1e-14 for w in enc.pstrings):
        ctx.fail(name + ":negligible-string-not-pruned", d)
    return enc, E


def oracle_parity_ladders(ctx, W, L):
    """C12: CAR, vacuum, occupation number = (1 - Z_{i-1} Z_i)/2 for the encoded ladder operators"""
    lad = enc_lad_impl(W, L, True)
    base.oracle_car(ctx, W, L, lad, prefix="parity-lad", inp_extra={"parity": True})
    d = 2 ** L
    for i in range(L):
        N = lad(i, True) @ lad(i, False)
        zz = [I2] * L
        zz[i] = Z2
        if i > 0:
            zz[i - 1] = Z2
        want = 0.5 * (np.eye(d) - kron_all(zz))
        if not np.array_equal(N, want):
            ctx.fail("parity-lad:occupation-number-not-(1-Z_{i-1}Z_i)/2", {"kind": "car", "parity": True, "L": L, "i": i},
                     "(1 - Z_{i-1} Z_i)/2", "differs")
    return lad


def encoder_run(ctx, parity):
    import fermi as gen_fermi
    W = World()
    name = "parity" if parity else "jw"
    src = "parity_encoding.py" if parity else "jordan_wigner_encoding.py"
    ctx.trusted.append("%s: the za/zb/x list expressions, the q constants of the PauliString calls, the weight expression, the "
                       "pruning tolerance and the keep-dimension flag are regenerated from %s (gen/fermi.py); the loop over "
                       "terms / coefficients (np.nditer C order, zero coefficients skipped), the product expansion "
                       "[ps @ s0 ...] + [ps @ s1 ...], refactor_sign, add_pauli_string and remove_zero_weight_strings are "
                       "hand-modelled (Qib.Fermi.FermiModel on top of the C09 Pauli model) and tied by correspondence; np.nditer is "
                       "assumed to visit C-contiguous coefficient arrays in C order (for other memory layouts, e.g. the "
                       "transposed arrays of adjoint(), only the ORDER of the output strings differs - the matrix oracle "
                       "is run on those too)"
                       % (ctx.pid, src))
    ctx.assumes.append("exact ring arithmetic with a half element h (h+h=1) for the literal 0.5; binary64 rounding is not modelled; "
                       "pruning at 1e-14 is modelled as a predicate and the theorem says what is dropped")
    Lmax = 5
    ctx.rules.append("single fermionic field on L<=%d sites; operators with 1-3 terms, patterns of length 0-4, coefficient tensors "
                     "dense/sparse/single/zero/int/real with dyadic Gaussian entries (exact comparison of the string list, "
                     "weights and matrices), cancellation-heavy specials (a+a + aa+, (anti)symmetric pair terms), every single "
                     "ladder operator, every operator pair at every site pair; plus a float sweep (tolerance 1e-12) with "
                     "tiny coefficients around the pruning threshold. non-trivial = distinct operator with at least one "
                     "ladder operator and a non-zero coefficient" % Lmax)
    ctx.lib(["Fermi/FermiCheck", "Fermi/FermiParity", "Fermi/FermiInst"])
    ok = ctx.translate("GenFermi", gen_fermi.generate)
    if ok:
        pok, _ = ctx.props()
        if pok and ctx.thorough:
            ctx.coqchk()
    else:
        ctx.oblige("props:" + ctx.pid, "theorem", False, "not compiled: translator failed")
    header = HEADER_GEN if ok else HEADER_HAND

    rng = ctx.rng
    cases = []

    def add(term, desc, nt=True):
        cases.append((term, desc))
        if nt:
            ctx.nontriv(desc)
        ctx.sample(desc)

    ops = []
    # ------------------------------------------------------------ every ladder operator, every ordered pair
    for L in range(1, Lmax + 1):
        lad = None
        if parity:
            try:
                lad = oracle_parity_ladders(ctx, W, L)
            except Exception as e:
                ctx.fail("parity-lad:exception", {"kind": "car", "parity": True, "L": L}, "encoded ladder operators", repr(e))
        for i in range(L):
            for create in (0, 1):
                e = np.zeros(L, dtype=complex)
                e[i] = 1
                ops.append((L, [([create], e)], lad))
        if L <= 4:
            for i in range(L):
                for j in range(L):
                    for pat in ([1, 0], [0, 1], [0, 0], [1, 1]):
                        if L == 4 and not ctx.thorough and rng.random() < 0.5:
                            continue
                        c = np.zeros((L, L), dtype=complex)
                        c[i, j] = rng.choice([1, -2, 1j, 0.5 - 0.5j])
                        ops.append((L, [(pat, c)], lad))
        for nm, terms in special_terms(L):
            ops.append((L, terms, lad))
        # all-zero operators (known finding: no dimension information survives)
        ops.append((L, [([1, 0], np.zeros((L, L)))], lad))
    # ------------------------------------------------------------ random operators
    lads = {}
    nrand = 600 if ctx.thorough else 110
    for _ in range(nrand):
        L = rng.choice([1, 2, 2, 3, 3, 3, 4, 4, 5])
        if parity and L not in lads:
            lads[L] = enc_lad_impl(W, L, True)
        ops.append((L, rand_terms(rng, L, budget=700 if L < 5 or ctx.thorough else 130), lads.get(L)))
    for L, terms, lad in ops:
        ctx.count("op_L=%d" % L)
        for p, _ in terms:
            ctx.count("pattern_len=%d" % len(p))
        d = dict(desc_terms(L, terms), kind="enc", parity=parity)
        if parity and lad is None:
            lad = enc_lad_impl(W, L, True)
        try:
            enc, E = oracle_enc(ctx, W, L, terms, parity, exact=True, lad=lad)
        except Exception as e:
            ctx.fail(name + ":exception", d, "encoded operator", repr(e))
            continue
        nt = nontrivial(terms)
        ctx.count("strings<=%d" % (1 if len(enc.pstrings) <= 1 else 4 if len(enc.pstrings) <= 4 else 16 if len(enc.pstrings) <= 16 else 9999))
        add("CEnc %s %s %s %s" % (ct.b(parity), ct.nat(L), cop(terms), enc_strings(enc)), dict(d, op="encode"), nt)
        if E is not None and L <= 4 and len(enc.pstrings) <= 40 and rng.random() < 0.35:
            add("CEncMat %s %s %s %s" % (ct.b(parity), ct.nat(L), cop(terms), base.qimat(E)), dict(d, op="encode.as_matrix"), nt)

    # ------------------------------------------------------------ float sweep (oracle only): rounding and pruning
    nfl = 300 if ctx.thorough else 60
    for _ in range(nfl):
        L = rng.choice([2, 3, 3, 4])
        if parity and L not in lads:
            lads[L] = enc_lad_impl(W, L, True)
        terms = []
        for _t in range(rng.choice([1, 2, 3])):
            k = rng.choice([k for k in range(0, 5) if L ** k <= 300])
            c = np.array([complex(rng.gauss(0, 1), rng.gauss(0, 1)) * rng.choice([1, 1, 1, 0, 1e-15, 3e-14, 1e-10, 1e-6])
                          for _ in range(L ** k)]).reshape((L,) * k)
            terms.append((base.rand_pat(rng, k), c))
        if all(len(p) == 0 for p, _ in terms):
            terms.append(([1, 0], np.eye(L)))
        ctx.count("float_sweep")
        try:
            oracle_enc(ctx, W, L, terms, parity, exact=False, lad=lads.get(L))
        except Exception as e:
            ctx.fail(name + ":exception", dict(desc_terms(L, terms), kind="enc", parity=parity, exact=False), "encoded operator", repr(e))

    ctx.log("harness done: %d cases; evaluating the model in Coq" % len(cases))
    dis = ctx.cases("enc", header, cases, shard=40)
    for i, d in dis[:5]:
        ctx.log("model/impl disagree on", str(d)[:300])


def encoder_replay(ctx, data):
    W = World()
    inp, sig = data["input"], data["sig"]
    before = len(ctx.failing)
    parity = bool(inp.get("parity"))
    if inp.get("kind") == "car":
        oracle_parity_ladders(ctx, W, inp["L"])
    elif inp.get("kind") == "enc":
        L, terms = undesc_terms(inp)
        lad = enc_lad_impl(W, L, True) if parity else None
        oracle_enc(ctx, W, L, terms, parity, exact=inp.get("exact", True), lad=lad)
    if len(ctx.failing) > before:
        ctx.failing[:] = ctx.failing[:before]
        ctx.fail(sig, inp, data.get("expected"), "still fails")


def run(ctx):
    encoder_run(ctx, False)


def replay(ctx, data):
    encoder_replay(ctx, data)
