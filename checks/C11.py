"""C11 - Jordan-Wigner encoding reproduces the operator exactly.
(The encoder part of the harness is shared with C12: `encoder_run(ctx, parity)`.)"""
import itertools, sys, os
from fractions import Fraction
import numpy as np
from vlib import coqterm as ct
from checks import C10 as base
from checks.C10 import (World, dense, ref_lad, ref_op_matrix, desc_terms, undesc_terms, cop, rand_terms, rand_coeffs,
                        special_terms, nontrivial, kron_all, I2, Z2, X2, Y2)

HEADER_GEN = ("From Qib Require Import Fermi.FermiCheck.\nFrom Coq Require Import QArith.\nFrom Run Require Import GenFermi.\n"
              "Definition half : QI := (Qmake 1%Z 2%positive, Qmake 0%Z 1%positive).\n"
              "Definition bad_cases := fbad_cases (gen_jw_params half) (gen_par_params half) gen_jw_tol gen_par_tol.\n")
# used only when the translator refuses the source: the hand copy of the tables, so that the
# correspondence run can still localise the difference (keep-dimension flag as in /repo since the fix
# commits 1962abb / d91f9c2: an all-zero operator keeps a zero-weight identity string)
HEADER_HAND = ("From Qib Require Import Fermi.FermiCheck.\nFrom Coq Require Import QArith.\n"
               "Definition half : QI := (Qmake 1%Z 2%positive, Qmake 0%Z 1%positive).\n"
               "Definition pj : encparams QI := {| ep_tab := jw_tab; ep_weight := fun k c => smul (spow half k) c; ep_keepdim := true |}.\n"
               "Definition pp : encparams QI := {| ep_tab := par_tab; ep_weight := fun k c => smul (spow half k) c; ep_keepdim := true |}.\n"
               "Definition tol : Q := Qmake 6338253001141147%Z 633825300114114700748351602688%positive.\n"
               "Definition bad_cases := fbad_cases pj pp tol tol.\n")

SIG_ZERO = {False: "jw:all-zero-operator-encodes-to-empty-operator-without-dimension",
            True: "parity:all-zero-operator-encodes-to-empty-operator-without-dimension"}


def encoder_of(W, parity):
    t = W.qib.transform
    return t.parity_encode_field_operator if parity else t.jordan_wigner_encode_field_operator


def p3_of(ps):
    return ct.pair(ct.bits(ps.z), ct.bits(ps.x), ct.z(ps.q))


def enc_strings(enc):
    return ct.lst([ct.pair(p3_of(w.paulis), base.qi(w.weight)) for w in enc.pstrings])


def enc_lad_impl(W, L, parity):
    """matrices of the encoded single ladder operators, through the public API"""
    f = encoder_of(W, parity)
    cache = {}

    def lad(i, create):
        if (i, create) not in cache:
            e = np.zeros(L)
            e[i] = 1.0
            cache[(i, create)] = dense(f(W.op(L, [([1 if create else 0], e)])).as_matrix())
        return cache[(i, create)]
    return lad


def oracle_enc(ctx, W, L, terms, parity, exact=True, lad=None):
    """the property on one operator; returns (encoded operator, its matrix or None)"""
    name = "parity" if parity else "jw"
    d = dict(desc_terms(L, terms), kind="enc", parity=parity, exact=exact)
    fop = W.op(L, terms)
    enc = encoder_of(W, parity)(fop)
    E = enc.as_matrix()
    if not enc.pstrings or np.ndim(E) != 2:
        # the all-zero operator: no string is ever added, the result has no dimension
        ctx.fail(SIG_ZERO[parity], d, "a %dx%d (zero) matrix" % (2 ** L, 2 ** L), "as_matrix() = %r, num_qubits = %r" % (E, enc.num_qubits))
        return enc, None
    E = dense(E)
    if E.shape != (2 ** L, 2 ** L):
        ctx.fail(name + ":encoded-matrix-has-wrong-shape", d, (2 ** L, 2 ** L), E.shape)
        return enc, None
    if parity:
        R = ref_op_matrix(L, terms, lad)        # same sum of ordered products of the ENCODED ladder operators
        what = "sum coeff * ordered product of the encoded ladder operators"
    else:
        R = ref_op_matrix(L, terms)             # independent np.kron Jordan-Wigner reference
        what = "matrix of the field operator (np.kron reference)"
    scale = max(1.0, float(np.abs(R).max()))
    diff = float(np.abs(E - R).max())
    if (exact and diff != 0) or diff > 1e-12 * scale:
        ctx.fail(name + ":encoded-matrix-differs", d, what, "max diff %g" % diff)
    if not parity:
        M = dense(fop.as_matrix())
        diff = float(np.abs(E - M).max())
        if (exact and diff != 0) or diff > 1e-12 * scale:
            ctx.fail("jw:encoded-matrix-differs-from-as_matrix", d, "op.as_matrix()", "max diff %g" % diff)
    else:
        # spectra are preserved (checked on the Hermitian part)
        M = dense(fop.as_matrix())
        if L <= 4:
            ev1 = np.sort(np.linalg.eigvalsh(M + M.conj().T))
            ev2 = np.sort(np.linalg.eigvalsh(E + E.conj().T))
            if np.abs(ev1 - ev2).max() > 1e-9 * max(1.0, np.abs(ev1).max()):
                ctx.fail("parity:spectrum-differs", d, "same spectrum as the field operator", "max diff %g" % np.abs(ev1 - ev2).max())
    # the adjoint operator carries transposed (Fortran-ordered) coefficient arrays, which np.nditer visits in
    # memory order: the string order may differ, the matrix must be the adjoint matrix
    if terms and max(len(p) for p, _ in terms) >= 2:
        enc2 = encoder_of(W, parity)(fop.adjoint())
        if enc2.pstrings:
            E2 = dense(enc2.as_matrix())
            diff = float(np.abs(E2 - E.conj().T).max())
            if (exact and diff != 0) or diff > 1e-12 * scale:
                ctx.fail(name + ":encoding-of-adjoint-is-not-adjoint-matrix", d, "encode(op.adjoint()) = encode(op)^dagger", "max diff %g" % diff)
    # all surviving weights are above the pruning tolerance unless a single string is left
    if len(enc.pstrings) > 1 and any(abs(w.weight) <= 1e-14 for w in enc.pstrings):
        ctx.fail(name + ":negligible-string-not-pruned", d)
    return enc, E


# ---------------------------------------------------------------------------------------------
# The precise statement for ANY coefficient magnitude (what "up to rounding" / pruning at 1e-14 allows):
#   the operator matrix has a unique expansion  sum_{z,x} g(z,x) Z^z X^x ; the encoder's result must contain
#   * every string (z,x) with |g(z,x)| > 1e-14, with that weight (times its phase),
#   * no two equal strings, no string of weight <= 1e-14 unless it is the only one left,
#   and a string may be ABSENT only if |g(z,x)| <= 1e-14
#   (so: encoded matrix + pruned remainder = operator matrix, pruned strings negligible, nothing larger dropped).
# All comparisons in exact rational arithmetic, with a rigorous bound for binary64 accumulation error.
PRUNE_TOL = Fraction(1e-14)          # the documented threshold of remove_zero_weight_strings(tol=1e-14)
MIPOW = [(1, 0), (0, -1), (-1, 0), (0, 1)]       # (-i)^k as (re, im)


def mask_of(bits):
    m = 0
    for b in bits:
        m = (m << 1) | int(b)
    return m


def pauli_coefficients(ref):
    """g[(z,x)] = 2^-L sum_c (-1)^{z.(c^x)} R[c^x, c]  for the exact matrix R (site 0 = most significant bit)"""
    L = ref.L
    d = 2 ** L
    cols = {}
    for (r, c), v in ref.R.items():
        if v[0] or v[1]:
            cols.setdefault(r ^ c, []).append((c, v))
    g = {}
    for x, ent in cols.items():
        for z in range(d):
            re, im = Fraction(0), Fraction(0)
            for c, v in ent:
                if bin(z & (c ^ x)).count("1") & 1:
                    re -= v[0]
                    im -= v[1]
                else:
                    re += v[0]
                    im += v[1]
            if re or im:
                g[(z, x)] = (re / d, im / d)
    return g


_selftest_done = set()


def selftest_pauli_convention(W, L, rng):
    """Z^z X^x with the phase (-i)^(q + z.x) is what PauliString.as_matrix returns (C09's convention); checked once
    per L on a few random strings so that a change of that convention is not mistaken for an encoder defect"""
    if L in _selftest_done:
        return True
    _selftest_done.add(L)
    ok = True
    for _ in range(6):
        z = [rng.randint(0, 1) for _ in range(L)]
        x = [rng.randint(0, 1) for _ in range(L)]
        q = rng.randint(0, 3)
        M = dense(W.qib.operator.PauliString(z, x, q).as_matrix())
        G = kron_all([np.linalg.matrix_power(Z2, a) @ np.linalg.matrix_power(X2, b) for a, b in zip(z, x)])
        ph = [1, -1j, -1, 1j][(q + sum(a * b for a, b in zip(z, x))) % 4]
        ok = ok and np.array_equal(M, ph * G)
    return ok


def oracle_encx(ctx, W, L, terms, parity, lad=None, enc=None):
    """the statement above on one operator; returns (encoded operator, every comparison was exact?)"""
    name = "parity" if parity else "jw"
    d = dict(desc_terms(L, terms), kind="encx", parity=parity)
    if enc is None:
        enc = encoder_of(W, parity)(W.op(L, terms))
    if not enc.pstrings:
        return enc, False            # reported by oracle_enc (all-zero operator without dimension)
    if parity:
        lad = lad or enc_lad_impl(W, L, True)

        def site_x(j):
            rr, cc = np.nonzero(lad(j, True))
            return int(rr[0]) ^ int(cc[0]) if len(rr) else 0
        ref = base.ExactRef(L, terms, base.dense_entries(L, lad), site_x)
        what = "sum coeff * ordered product of the encoded ladder operators"
    else:
        ref = base.ExactRef(L, terms, base.fermi_entries(L))
        what = "matrix of the field operator"
    g = pauli_coefficients(ref)
    out, seen = {}, set()
    exact = True
    for w in enc.pstrings:
        ps = w.paulis
        if len(ps.z) != L or len(ps.x) != L:
            ctx.fail(name + ":string-has-wrong-length", d, L, len(ps.z))
            return enc, False
        key3 = (mask_of(ps.z), mask_of(ps.x), int(ps.q))
        if key3 in seen:
            ctx.fail(name + ":duplicate-string-in-result", d, "each Pauli string once", "z=%s x=%s q=%d twice" % (list(ps.z), list(ps.x), ps.q))
        seen.add(key3)
        wt = complex(w.weight)
        if not (np.isfinite(wt.real) and np.isfinite(wt.imag)):
            ctx.fail(name + ":non-finite-weight", d, "finite weights", repr(wt))
            return enc, False
        zx = sum(int(a) * int(b) for a, b in zip(ps.z, ps.x))
        pr, pi = MIPOW[(int(ps.q) + zx) % 4]
        wr, wi = Fraction(wt.real), Fraction(wt.imag)
        o = out.setdefault(key3[:2], [Fraction(0), Fraction(0)])
        o[0] += wr * pr - wi * pi
        o[1] += wr * pi + wi * pr
        if len(enc.pstrings) > 1 and wr * wr + wi * wi <= PRUNE_TOL * PRUNE_TOL:
            ctx.fail(name + ":negligible-string-not-pruned", d, "|weight| > 1e-14 for every string of a result with several strings", repr(wt))
    for key in set(out) | set(g):
        gr, gi = g.get(key, (Fraction(0), Fraction(0)))
        bound = ref.xbound(key[1])
        if key in out:
            dr, di = abs(out[key][0] - gr), abs(out[key][1] - gi)
            if dr or di:
                exact = False
            if max(dr, di) > bound:
                ctx.fail(name + ":string-weight-differs-from-exact-pauli-coefficient", d,
                         "coefficient of Z^%s X^%s in the %s = %s%+sj" % (bin(key[0])[2:].zfill(L), bin(key[1])[2:].zfill(L), what,
                                                                      base.fstr(gr), base.fstr(gi)),
                         "%s%+sj (allowed rounding error %.3g)" % (base.fstr(out[key][0]), base.fstr(out[key][1]), float(bound)))
                break
        else:
            lim = PRUNE_TOL + bound
            if gr * gr + gi * gi > lim * lim:
                ctx.fail(name + ":string-above-pruning-threshold-dropped", d,
                         "a string may be absent only if its coefficient is <= 1e-14 in magnitude",
                         "Z^%s X^%s with coefficient %s%+sj is absent" % (bin(key[0])[2:].zfill(L), bin(key[1])[2:].zfill(L),
                                                                         base.fstr(gr), base.fstr(gi)))
                break
    return enc, exact


def enc_listing(enc):
    return [(tuple(int(v) for v in w.paulis.z), tuple(int(v) for v in w.paulis.x), int(w.paulis.q), complex(w.weight)) for w in enc.pstrings]


def oracle_enc_homog(ctx, W, L, terms, parity, e):
    """encode(2^e A) = 2^e encode(A): same strings in the same order, weights scaled exactly (valid when no weight
    comes near the pruning threshold: the caller keeps all weights above 2^-40)"""
    name = "parity" if parity else "jw"
    d = dict(desc_terms(L, terms), kind="enchomog", parity=parity, e=e)
    f = encoder_of(W, parity)
    l0 = enc_listing(f(W.op(L, terms)))
    l1 = enc_listing(f(W.op(L, base.scale_terms(terms, e))))
    want = [(z, x, q, w * 2.0 ** e) for z, x, q, w in l0]
    if l1 != want:
        ctx.fail(name + ":encoding-not-homogeneous-in-the-coefficients", d, "encode(2^%d A) = 2^%d encode(A), string by string" % (e, e),
                 "%d strings vs %d; first difference: %r" % (len(l1), len(want), next(((a, b) for a, b in zip(l1, want) if a != b), None)))


def oracle_enc_layout(ctx, W, L, terms, parity, rng):
    """the encoded MATRIX does not depend on how the coefficient tensors are stored (np.nditer follows the memory
    layout, so the order of the strings may)"""
    name = "parity" if parity else "jw"
    d = dict(desc_terms(L, terms), kind="enclayout", parity=parity)
    f = encoder_of(W, parity)
    e1, e2 = f(W.op(L, terms)), f(W.op(L, base.layout_variants(rng, terms)))
    if not e1.pstrings or not e2.pstrings:
        return
    l1, l2 = enc_listing(e1), enc_listing(e2)
    # as sets of (string, weight); weights compared numerically (a dtype change may flip the sign of a zero part)
    # (a string of negligible weight survives only as the dimension marker of an all-cancelling operator, and WHICH
    # one survives depends on the visiting order - not compared)
    d1 = {t[:3]: t[3] for t in l1 if abs(t[3]) > 1e-14}
    d2 = {t[:3]: t[3] for t in l2 if abs(t[3]) > 1e-14}
    if len({t[:3] for t in l1}) != len(l1) or len({t[:3] for t in l2}) != len(l2) or d1 != d2:
        ctx.fail(name + ":encoding-depends-on-memory-layout-of-the-coefficients", d, "same strings and weights for equal tensors",
                 "%d vs %d strings" % (len(l1), len(l2)))


def oracle_enc_history(ctx, W, L, ta, tb, parity):
    """encode(A) does not modify A; two calls give identical results; results are not changed by later calls
    (also on other operators); the operator can be used afterwards"""
    name = "parity" if parity else "jw"
    d = {"kind": "enchist", "parity": parity, "a": desc_terms(L, ta), "b": desc_terms(L, tb)}
    f = encoder_of(W, parity)
    A, B = W.op(L, ta), W.op(L, tb)
    sa, sb = base.snapshot(W, A), base.snapshot(W, B)
    MA = dense(A.as_matrix())
    e1 = f(A)
    l1 = enc_listing(e1)
    E1 = e1.as_matrix()
    E1 = dense(E1) if np.ndim(E1) == 2 else None
    eb = f(B)
    lb = enc_listing(eb)
    e2 = f(A)
    eS = f(A + B)
    eP = f(A @ B) if max(len(p) for p, _ in ta) + max(len(p) for p, _ in tb) <= 4 else None
    e3 = f(A)
    for nm, snap, X in (("A", sa, A), ("B", sb, B)):
        df = base.snapshot_diff(W, snap, X)
        if df:
            ctx.fail(name + ":history:operand-modified-by-encode", d, "%s unchanged" % nm, df)
    if enc_listing(e2) != l1 or enc_listing(e3) != l1:
        ctx.fail(name + ":history:encode-not-reproducible", d, "repeated encode(A) give identical string lists", "differ")
    if enc_listing(e1) != l1 or enc_listing(eb) != lb:
        ctx.fail(name + ":history:earlier-result-changed-by-later-calls", d, "a result is not touched by later encode calls", "changed")
    if E1 is not None:
        E1b = e1.as_matrix()
        if np.ndim(E1b) != 2 or not np.array_equal(dense(E1b), E1):
            ctx.fail(name + ":history:as_matrix-of-result-not-reproducible", d, "two as_matrix() calls agree", "differ")
    if not np.array_equal(dense(A.as_matrix()), MA):
        ctx.fail(name + ":history:operator-matrix-changed-by-encode", d, "A.as_matrix() as before", "differs")
    # the sum / product objects go through the precise oracle as well (terms shared with A and B)
    lad = enc_lad_impl(W, L, True) if parity else None
    oracle_encx(ctx, W, L, list(ta) + list(tb), parity, lad=lad, enc=eS)
    if eP is not None:
        oracle_encx(ctx, W, L, W.terms_of(A @ B), parity, lad=lad, enc=eP)


# ---------------------------------------------------------------------------------------------
# OBJECT HISTORIES (round 3, class of seed C11-9: anything the encoder remembers about a FieldOperator OBJECT -
# memoised encodings validated by id()/shape/pattern, cached tables keyed by object identity, results handed out
# without a copy).  The property speaks about the operator AS IT IS when it is encoded, so:
#   one (or two, three) FieldOperator objects live through a sequence of steps; after every step every live operator
#   is encoded again and the result must be
#     (a) the same set of weighted strings as the encoding of a FRESH operator built from the current patterns and
#         deep-copied coefficient values (kept in a shadow copy that never meets the library),
#     (b) exactly the reference matrix of those current values (np.kron reference / parity: ordered products of the
#         encoder's own ladder operators, taken from fresh single-ladder operators);
#   every result handed out earlier keeps its strings and weights; encode leaves the operator and the caller's arrays
#   as the steps left them.
# A history is a JSON-able description (values are small dyadic Gaussian numbers, [re, im]):
#   {"kind": "enclife", "parity", "L", "arrays": [array...], "ops": [[{"pat", "arr"}...]...], "steps": [step...]}
#   array = {"shape", "dtype": complex128|float64|int64, "vals" (logical C order), "order": "F"?, "view": true?}
#           - what the CALLER holds and passes to FieldOperatorTerm (np.asarray does not copy); "view": the caller
#           passes big[1] of a larger array `big` and may write through `big`
#   steps:  {"do": "encode"}                                       nothing happens, everything is encoded again
#           {"do": "write", "via": "term"|"caller"|"base", "op", "term", "arr", "how": set|fill|scale|neg|zero|conj, ...}
#                                                                  in-place write into a coefficient array
#           {"do": "replace", "op", "term", "arr", "copy"?, "drop_first"?}   term.coeffs = another array (of the caller /
#                                                                  a private copy / after dropping the old one: id() reuse)
#           {"do": "append", "op", "at", "pat", "arr"} {"do": "remove", "op", "term"} {"do": "reorder", "op", "perm", "inplace"}
#           {"do": "repat", "op", "term", "pat", "how": "tuple"|"desc"}   other creation/annihilation pattern, same array
#           {"do": "newop", "terms"}                               a further operator (may share arrays with the others)
#           {"do": "gc", "op", "drop", "arrays", "terms"}          del operator + its arrays, gc.collect(), new arrays and a
#                                                                  new operator of the same shapes (id() reuse)
#           {"do": "result", "op", "how"}                          modify the PauliOperator returned last for that operator
LIFE_SETVALS = {"c": [3 - 2j, -3 + 1j, 5, 0.75j, -0.25 + 3j], "f": [5.0, -3.0, 0.75, -2.5], "i": [5, -3, 7, 4]}
LIFE_SCALES = {"c": [2, -1, 0.5, 1j, -0.5j], "f": [2.0, -1.0, 0.5, -0.25], "i": [2, -1, 3]}
LIFE_STYLE = {"complex128": ["dense", "dense", "sparse", "single"], "float64": ["real"], "int64": ["real-int"]}
LIFE_HOWS = ["set", "fill", "scale", "neg", "zero", "conj"]
LIFE_RESULT_HOWS = ["scale-weight", "set-pauli", "phase", "pop", "clear", "add", "set-field", "prune"]
LIFE_KINDS = ["write"] * 7 + ["replace"] * 2 + ["append", "remove", "reorder", "repat", "repat", "newop", "gc", "result", "result", "encode"]
LIFE_TAG = {"encode": "encoding-again", "replace": "replacing-term.coeffs-by-another-array", "append": "appending-a-term",
            "remove": "removing-a-term", "reorder": "reordering-the-terms", "repat": "changing-the-operator-pattern-of-a-term",
            "newop": "encoding-another-operator", "gc": "garbage-collecting-an-operator-and-its-arrays",
            "result": "modifying-the-returned-PauliOperator"}
LIFE_VIA = {"term": "term.coeffs", "caller": "the-array-the-caller-passed", "base": "the-base-of-the-view-the-caller-passed"}


def life_tag(st):
    if st["do"] == "write":
        return "in-place-write-through-" + LIFE_VIA[st["via"]]
    return LIFE_TAG[st["do"]]


def _pair(v):
    return [float(np.real(v)), float(np.imag(v))]


def life_array(a):
    """array description -> (the array as the caller holds it, the larger array it is a view of or None)"""
    shape = tuple(a["shape"])
    flat = np.array([complex(r, i) for r, i in a["vals"]], dtype=complex).reshape(shape)
    dt = np.dtype(a.get("dtype", "complex128"))
    arr = np.array(flat if dt.kind == "c" else flat.real, dtype=dt, order=a.get("order", "C"))
    if a.get("view"):
        big = np.zeros((2,) + shape, dtype=dt)
        big[1, ...] = arr
        return big[1, ...], big
    return arr, None


def life_val(dt, v):
    return complex(v[0], v[1]) if dt.kind == "c" else float(v[0]) if dt.kind == "f" else int(v[0])


def life_write(a, st):
    """the in-place write of a step, on the array `a` (numpy semantics; also applied to the shadow copy)"""
    how = st["how"]
    if how == "set":
        a[tuple(st["idx"])] = life_val(a.dtype, st["val"])
    elif how == "fill":
        new = np.array([life_val(a.dtype, v) for v in st["vals"]], dtype=a.dtype).reshape(a.shape)
        if a.ndim:
            a[:] = new
        else:
            a[...] = new
    elif how == "scale":
        a *= life_val(a.dtype, st["by"])
    elif how == "neg":
        np.negative(a, out=a)
    elif how == "zero":
        a.fill(0)
    elif how == "conj":
        np.conjugate(a, out=a)
    else:
        raise ValueError(how)


def same_weighted_strings(l1, l2):
    """two listings as SETS of (string, weight): no string twice, equal weights (numerically: -0.0 = 0.0); strings of
    negligible weight are not compared (dimension marker of an all-cancelling operator)"""
    if len({t[:3] for t in l1}) != len(l1) or len({t[:3] for t in l2}) != len(l2):
        return False
    return {t[:3]: t[3] for t in l1 if abs(t[3]) > 1e-14} == {t[:3]: t[3] for t in l2 if abs(t[3]) > 1e-14}


class LifeRun:
    """the library objects of one history + a shadow copy of all values (plain arrays the library never sees)"""

    def __init__(self, ctx, W, inp, lads=None):
        self.ctx, self.W, self.inp = ctx, W, inp
        self.L, self.parity = inp["L"], bool(inp.get("parity"))
        self.name = "parity" if self.parity else "jw"
        self.f = encoder_of(W, self.parity)
        self.lad = None
        if self.parity:
            lads = {} if lads is None else lads
            if self.L not in lads:
                lads[self.L] = enc_lad_impl(W, self.L, True)
            self.lad = lads[self.L]
        self.pool, self.bases, self.pkey, self.sh, self.nkey = [], [], [], {}, 0
        self.ops, self.sops = [], []           # FieldOperator objects / shadow: [[pattern, key into self.sh], ...]
        self.held, self.last = [], {}
        for a in inp["arrays"]:
            self.mk_array(None, a)
        for terms in inp["ops"]:
            self.mk_op(None, terms)

    def key(self):
        self.nkey += 1
        return self.nkey

    def mk_array(self, k, a):
        arr, big = life_array(a)
        kk = self.key()
        self.sh[kk] = arr.copy(order="K")
        if k is None:
            self.pool.append(arr), self.bases.append(big), self.pkey.append(kk)
        else:
            self.pool[k], self.bases[k], self.pkey[k] = arr, big, kk

    def mk_term(self, t):
        k = t["arr"]
        term = self.W.term(self.L, t["pat"], self.pool[k])
        if np.shares_memory(term.coeffs, self.pool[k]):
            key = self.pkey[k]                 # np.asarray did not copy: the term sees what the caller writes
        else:
            key = self.key()
            self.sh[key] = np.array(term.coeffs, copy=True, order="K")
        return term, [list(t["pat"]), key]

    def mk_op(self, o, terms):
        made = [self.mk_term(t) for t in terms]
        X, s = self.W.qib.FieldOperator([m[0] for m in made]), [m[1] for m in made]
        if o is None:
            self.ops.append(X), self.sops.append(s)
        else:
            self.ops[o], self.sops[o] = X, s

    def desc(self, n):
        return dict(self.inp, steps=self.inp["steps"][:n + 1])

    # ---------------------------------------------------------------- the steps
    def apply(self, st):
        import gc
        W, L, do = self.W, self.L, st["do"]
        T = W.qib.operator
        if do == "encode":
            return
        if do == "newop":
            self.mk_op(None, st["terms"])
            return
        o = st["op"]
        X, S = self.ops[o], self.sops[o]
        if do == "write":
            if st["via"] == "term":
                a, key = X.terms[st["term"]].coeffs, S[st["term"]][1]
            elif st["via"] == "caller":
                a, key = self.pool[st["arr"]], self.pkey[st["arr"]]
            else:
                a, key = self.bases[st["arr"]][1, ...], self.pkey[st["arr"]]
            life_write(a, st)
            life_write(self.sh[key], st)
        elif do == "replace":
            t, k = st["term"], st["arr"]
            if st.get("copy"):
                key = self.key()
                self.sh[key] = self.sh[self.pkey[k]].copy(order="K")
                if st.get("drop_first"):
                    old = id(X.terms[t].coeffs)
                    X.terms[t].coeffs = None       # the old array may be freed before the new one is made: id() reuse
                    X.terms[t].coeffs = self.pool[k].copy(order="K")
                    if id(X.terms[t].coeffs) == old:
                        self.ctx.count("life_array_id_reused")
                else:
                    X.terms[t].coeffs = self.pool[k].copy(order="K")
            else:
                key = self.pkey[k]
                X.terms[t].coeffs = self.pool[k]
            S[t][1] = key
        elif do == "append":
            term, s = self.mk_term(st)
            X.terms.insert(st["at"], term)
            S.insert(st["at"], s)
        elif do == "remove":
            del X.terms[st["term"]]
            del S[st["term"]]
        elif do == "reorder":
            new = [X.terms[p] for p in st["perm"]]
            if st.get("inplace"):
                X.terms[:] = new
            else:
                X.terms = new
            S[:] = [S[p] for p in st["perm"]]
        elif do == "repat":
            term = X.terms[st["term"]]
            types = [T.IFOType.FERMI_CREATE if b else T.IFOType.FERMI_ANNIHIL for b in st["pat"]]
            if st["how"] == "desc":
                for dsc, ty in zip(term.opdesc, types):
                    dsc.otype = ty
            else:
                term.opdesc = tuple(T.IFODesc(W.field(L), ty) for ty in types)
            S[st["term"]][0] = list(st["pat"])
        elif do == "gc":
            old = {id(X)} | {id(t.coeffs) for t in X.terms}
            del X
            self.ops[o], self.sops[o] = None, None
            for k in st["drop"]:
                self.pool[k], self.bases[k] = None, None
            gc.collect()
            for k, a in st["arrays"]:
                self.mk_array(k, a)
            self.mk_op(o, st["terms"])
            if old & ({id(self.ops[o])} | {id(t.coeffs) for t in self.ops[o].terms}):
                self.ctx.count("life_object_id_reused_after_gc")
        elif do == "result":
            r = self.last.get(o)
            if r is None or not r.pstrings:
                return
            how = st["how"]
            if how == "scale-weight":
                r.pstrings[0].weight = r.pstrings[0].weight * 3
            elif how == "set-pauli":
                r.pstrings[0].paulis.set_pauli("Y", 0)
            elif how == "phase":
                r.pstrings[-1].paulis.q = (int(r.pstrings[-1].paulis.q) + 2) % 4
            elif how == "pop":
                r.pstrings.pop()
            elif how == "clear":
                del r.pstrings[:]
            elif how == "add":
                r.add_pauli_string(T.WeightedPauliString(T.PauliString.identity(L), 5.0))
            elif how == "set-field":
                q = W.qib.field
                r.set_field(q.Field(q.ParticleType.QUBIT, W.qib.lattice.IntegerLattice((L,), pbc=False)))
            elif how == "prune":
                r.remove_zero_weight_strings(tol=1e6)
            else:
                raise ValueError(how)
            for h in self.held:                 # modified on purpose: this is its value from now on
                if h["enc"] is r:
                    h["listing"] = enc_listing(r)
        else:
            raise ValueError(do)

    # ---------------------------------------------------------------- what must hold after every step
    def state_diff(self, o, cur):
        X = self.ops[o]
        if len(X.terms) != len(cur):
            return "operator %d has %d terms, expected %d" % (o, len(X.terms), len(cur))
        for n, (t, (pat, c)) in enumerate(zip(X.terms, cur)):
            tc = np.asarray(t.coeffs)
            if list(self.W.pat_of(t)) != list(pat):
                return "operator %d term %d: pattern %r, expected %r" % (o, n, self.W.pat_of(t), pat)
            if tc.dtype != c.dtype or tc.shape != c.shape or not np.array_equal(tc, c):
                return "operator %d term %d: coefficient array differs from the values written" % (o, n)
        for k, a in enumerate(self.pool):
            if a is not None and not np.array_equal(a, self.sh[self.pkey[k]]):
                return "the caller's array %d differs from the values written" % k
        return None

    def observe_one(self, n, tag, o):
        ctx, W, L, name = self.ctx, self.W, self.L, self.name
        cur = [(list(p), self.sh[k].copy(order="K")) for p, k in self.sops[o]]
        df = self.state_diff(o, cur)
        if df:
            ctx.fail(name + ":object-history:operator-does-not-show-the-values-written-after-" + tag, self.desc(n),
                     "the FieldOperator holds the patterns/arrays the steps gave it", df)
            return False
        enc = self.f(self.ops[o])
        df = self.state_diff(o, cur)
        if df:
            ctx.fail(name + ":object-history:operand-modified-by-encode", self.desc(n), "encode leaves operator %d and the caller's arrays unchanged" % o, df)
            return False
        lst = enc_listing(enc)
        self.held.append({"op": o, "step": n, "enc": enc, "listing": lst})
        self.last[o] = enc
        lf = enc_listing(self.f(W.op(L, cur)))
        R = ref_op_matrix(L, cur, self.lad)
        E = enc.as_matrix() if enc.pstrings else None
        E = dense(E) if E is not None and np.ndim(E) == 2 else None
        dm = float(np.abs(E - R).max()) if E is not None and E.shape == R.shape else None
        if not same_weighted_strings(lst, lf):
            ctx.fail(name + ":object-history:encoding-differs-from-encoding-of-a-fresh-operator-after-" + tag, self.desc(n),
                     "encode(operator %d) after the last step = encode(fresh operator with the current patterns and coefficient values): %d strings"
                     % (o, len(lf)),
                     "%d strings; first difference %r; max |encoded matrix - reference matrix of the current values| = %r"
                     % (len(lst), next(((a, b) for a, b in zip(lst, lf) if a != b), None), dm))
            return False
        if enc.pstrings and (dm is None or dm != 0):
            # (the encoding of the fresh operator is wrong in the same way: not a matter of the history, one sig)
            ctx.fail(name + ":object-history:encoded-matrix-differs-from-reference-matrix-of-the-current-values", self.desc(n),
                     "matrix of encode(operator %d) = reference matrix of the current values" % o, "max diff %r" % dm)
            return False
        return True

    def observe(self, n, tag):
        order = [o for o, X in enumerate(self.ops) if X is not None]
        if n % 2 == 0:
            order.reverse()                      # two operators are encoded alternately, in changing order
        for o in order:
            if not self.observe_one(n, tag, o):
                return False
        for h in self.held:
            if enc_listing(h["enc"]) != h["listing"]:
                self.ctx.fail(self.name + ":object-history:earlier-result-changed-after-" + tag, self.desc(n),
                              "the PauliOperator returned for operator %d after step %d keeps its strings and weights" % (h["op"], h["step"]),
                              "it changed at step %d" % n)
                return False
        return True


def oracle_enc_life(ctx, W, inp, lads=None):
    """one object history (see above); stops at the first step after which something is wrong"""
    run = LifeRun(ctx, W, inp, lads)
    if run.observe(-1, "construction"):
        for n, st in enumerate(inp["steps"]):
            run.apply(st)
            ctx.count("life_" + life_tag(st))
            if not run.observe(n, life_tag(st)):
                break
    return run


class LifeGen:
    """generator of histories; keeps only the STRUCTURE (which term holds which array) to emit valid steps"""

    def __init__(self, rng, L, parity):
        self.rng, self.L, self.parity = rng, L, parity
        self.arrays, self.info = [], []         # the caller's arrays: descriptions / {"dt", "nd", "view"}
        self.ops, self.ops0, self.steps, self.nscale = [], None, [], 0

    def values(self, dt, nd):
        return base.rand_coeffs(self.rng, self.L, nd, self.rng.choice(LIFE_STYLE[dt]))

    def array_desc(self, nd, dt=None, view=None, order=None):
        rng = self.rng
        dt = dt or rng.choice(["complex128"] * 3 + ["float64", "int64"])
        d = {"shape": [self.L] * nd, "dtype": dt, "vals": [_pair(v) for v in self.values(dt, nd).reshape(-1)]}
        if view is None:
            view = rng.random() < 0.15
        if view:
            d["view"] = True
        elif nd >= 2 and (order == "F" or (order is None and rng.random() < 0.15)):
            d["order"] = "F"
        return d

    def new_array(self, nd, **kw):
        d = self.array_desc(nd, **kw)
        self.arrays.append(d)
        self.info.append({"dt": d["dtype"], "nd": nd, "view": bool(d.get("view"))})
        return len(self.arrays) - 1

    def rand_nd(self):
        return self.rng.choice([n for n in (0, 1, 1, 2, 2, 2, 3) if self.L ** n <= 30])

    def new_terms(self, nterms, share=0.3, **kw):
        rng, terms = self.rng, []
        for _ in range(nterms):
            if self.info and rng.random() < share:
                k = rng.randrange(len(self.info))
            else:
                k = self.new_array(self.rand_nd(), **kw)
            terms.append({"pat": base.rand_pat(rng, self.info[k]["nd"]), "arr": k})
        if all(self.info[t["arr"]]["nd"] == 0 for t in terms):      # the encoder needs a field
            k = self.new_array(rng.choice([1, 2]), **kw)
            terms.append({"pat": base.rand_pat(rng, self.info[k]["nd"]), "arr": k})
        return terms

    def start(self, nops=1, nterms=None, share=0.3, first=None):
        rng = self.rng
        for n in range(nops):
            if n == 0 and first is not None:     # a first term with a prescribed kind of array
                k = self.new_array(first.pop("nd", 2 if self.L <= 3 else 1), **first)
                terms = [{"pat": base.rand_pat(rng, self.info[k]["nd"]), "arr": k}] + self.new_terms((nterms or 2) - 1, share) \
                    if (nterms or 2) > 1 else [{"pat": base.rand_pat(rng, self.info[k]["nd"]), "arr": k}]
                if all(self.info[t["arr"]]["nd"] == 0 for t in terms):
                    terms += self.new_terms(1, 0)
            else:
                terms = self.new_terms(nterms or rng.choice([1, 2, 2, 3]), share)
            self.ops.append(terms)
        self.ops0 = [[{"pat": list(t["pat"]), "arr": t["arr"]} for t in terms] for terms in self.ops]
        return self

    def finish(self):
        return {"kind": "enclife", "parity": self.parity, "L": self.L, "arrays": self.arrays, "ops": self.ops0, "steps": self.steps}

    def has_field(self, terms, without=None):
        return any(self.info[u["arr"]]["nd"] >= 1 for j, u in enumerate(terms) if j != without)

    def step(self, kind=None, **f):
        """append one step of the given (or a random) kind; False if that kind is not possible now"""
        rng, L = self.rng, self.L
        live = [o for o, t in enumerate(self.ops) if t is not None]
        kind = kind or rng.choice(LIFE_KINDS)
        o = f.get("op", rng.choice(live))
        terms = self.ops[o]
        if kind == "encode":
            st = {"do": "encode"}
        elif kind == "write":
            t = f.get("term", rng.randrange(len(terms)))
            tm = terms[t]
            k, info = tm["arr"], self.info[tm["arr"]]
            vias = ["term", "term"]
            if not tm.get("priv"):
                vias += ["caller", "caller"] + (["base", "base"] if info["view"] else [])
            via = f.get("via") or rng.choice(vias)
            if via not in vias:
                return False
            c = np.dtype(info["dt"]).kind
            how = f.get("how") or rng.choice(["set", "set", "fill", "scale", "neg", "zero"] + (["conj"] if c == "c" else []))
            if how == "scale" and self.nscale >= 3:
                how = "neg"
            if how == "conj" and c != "c":
                return False
            st = {"do": "write", "op": o, "term": t, "via": via, "how": how}
            if via != "term":
                st["arr"] = k
            if how == "set":
                st["idx"] = [rng.randrange(L) for _ in range(info["nd"])]
                st["val"] = _pair(rng.choice(LIFE_SETVALS[c]))
            elif how == "fill":
                st["vals"] = [_pair(v) for v in self.values(info["dt"], info["nd"]).reshape(-1)]
            elif how == "scale":
                st["by"] = _pair(rng.choice(LIFE_SCALES[c]))
                self.nscale += 1
        elif kind == "replace":
            t = f.get("term", rng.randrange(len(terms)))
            tm = terms[t]
            old = self.info[tm["arr"]]
            mode = f.get("mode") or rng.choice(["pool-new", "pool-new", "pool-shared", "copy", "copy-drop-first"])
            cand = [k for k, i in enumerate(self.info) if i["nd"] == old["nd"] and k != tm["arr"]]
            if mode == "pool-shared" and cand:
                k = rng.choice(cand)
            else:
                k = self.new_array(old["nd"], dt=old["dt"] if rng.random() < 0.6 else None)
            st = {"do": "replace", "op": o, "term": t, "arr": k}
            tm["arr"] = k
            tm.pop("priv", None)
            if mode.startswith("copy"):
                st["copy"] = True
                tm["priv"] = True
                if mode == "copy-drop-first":
                    st["drop_first"] = True
        elif kind == "append":
            if len(terms) >= 4:
                return False
            share = f.get("share", rng.random() < 0.4)
            k = rng.randrange(len(self.info)) if share else self.new_array(self.rand_nd())
            st = {"do": "append", "op": o, "at": rng.randint(0, len(terms)), "pat": base.rand_pat(rng, self.info[k]["nd"]), "arr": k}
            terms.insert(st["at"], {"pat": st["pat"], "arr": k})
        elif kind == "remove":
            cands = [t for t in range(len(terms)) if self.has_field(terms, without=t)]
            if len(terms) < 2 or not cands:
                return False
            st = {"do": "remove", "op": o, "term": rng.choice(cands)}
            del terms[st["term"]]
        elif kind == "reorder":
            if len(terms) < 2:
                return False
            perm = list(range(len(terms)))
            while perm == list(range(len(terms))):
                rng.shuffle(perm)
            st = {"do": "reorder", "op": o, "perm": perm, "inplace": f.get("inplace", rng.random() < 0.5)}
            terms[:] = [terms[p] for p in perm]
        elif kind == "repat":
            cands = [t for t, u in enumerate(terms) if self.info[u["arr"]]["nd"] >= 1]
            if not cands:
                return False
            t = rng.choice(cands)
            pat = list(terms[t]["pat"])
            for i in rng.sample(range(len(pat)), rng.randint(1, len(pat))):
                pat[i] = 1 - pat[i]
            st = {"do": "repat", "op": o, "term": t, "pat": pat, "how": f.get("how") or rng.choice(["tuple", "desc"])}
            terms[t]["pat"] = pat
        elif kind == "newop":
            if len(live) >= 3:
                return False
            new = self.new_terms(rng.choice([1, 2]), share=f.get("share", 0.5))
            st = {"do": "newop", "terms": [{"pat": list(t["pat"]), "arr": t["arr"]} for t in new]}
            self.ops.append(new)
        elif kind == "gc":
            elsewhere = {u["arr"] for oo in live if oo != o for u in self.ops[oo]}
            drop = sorted({u["arr"] for u in terms if not u.get("priv")} - elsewhere)
            arrays = []
            for k in drop:       # arrays of the same shape and dtype, other values
                d = self.array_desc(self.info[k]["nd"], dt=self.info[k]["dt"], view=self.info[k]["view"])
                arrays.append([k, d])
            new = []
            for u in terms:
                k = u["arr"]
                if u.get("priv") and drop:
                    same = [kk for kk in drop if self.info[kk]["nd"] == self.info[k]["nd"]]
                    k = rng.choice(same) if same else k
                new.append({"pat": list(u["pat"]) if rng.random() < 0.5 else base.rand_pat(rng, self.info[k]["nd"]), "arr": k})
            st = {"do": "gc", "op": o, "drop": drop, "arrays": arrays, "terms": [dict(u) for u in new]}
            self.ops[o] = new
        elif kind == "result":
            st = {"do": "result", "op": o, "how": f.get("how") or rng.choice(LIFE_RESULT_HOWS)}
        else:
            raise ValueError(kind)
        self.steps.append(st)
        return True


def life_family(rng, thorough, parity):
    """every kind of step once per run in a short history of its own (coefficient dtype / access path / variant
    enumerated), then random histories"""
    out = []

    def short(L, kind, first=None, nops=1, start_share=0.3, pre=(), **f):
        for _attempt in range(8):
            g = LifeGen(rng, L, parity).start(nops=nops, nterms=2, share=start_share, first=dict(first) if first else None)
            for k, kf in pre:
                g.step(k, op=0, **kf)
            if g.step(kind, **f):
                break
        else:
            return
        g.step("encode")
        if rng.random() < 0.5:                   # and once more: the same kind of step on the already re-encoded object
            g.step(kind, **f)
        out.append(g.finish())

    Ls = [1, 2, 2, 3, 3]
    for via in ("term", "caller", "base"):
        for how in LIFE_HOWS:
            short(rng.choice(Ls), "write", first={"dt": "complex128", "view": via == "base", "order": "C"}, op=0, term=0, via=via, how=how)
    for dt in ("float64", "int64"):
        for via, how in (("term", "set"), ("caller", "fill"), ("caller", "scale"), ("term", "neg"), ("base", "set")):
            short(rng.choice(Ls), "write", first={"dt": dt, "view": via == "base", "order": "C"}, op=0, term=0, via=via, how=how)
    short(3, "write", first={"dt": "complex128", "view": False, "order": "F"}, op=0, term=0, via="caller", how="set")
    for mode in ("pool-new", "pool-shared", "copy", "copy-drop-first"):
        short(rng.choice(Ls), "replace", op=0, mode=mode)
        short(rng.choice(Ls), "replace", op=0, mode=mode, pre=(("write", {}),))
    # the term owns its array (nobody else holds it), which is dropped before the next one is made: id() may be reused
    short(rng.choice(Ls), "replace", op=0, term=0, mode="copy-drop-first", pre=(("replace", {"term": 0, "mode": "copy"}),))
    for share in (False, True):
        short(rng.choice(Ls), "append", op=0, share=share)
    short(rng.choice(Ls), "remove", op=0)
    for inplace in (False, True):
        short(rng.choice(Ls), "reorder", op=0, inplace=inplace)
    for how in ("tuple", "desc"):
        short(rng.choice(Ls), "repat", op=0, how=how)
    # two operators: encoded alternately, sharing arrays, one of them garbage-collected and rebuilt
    for share in (0.0, 1.0):
        short(rng.choice(Ls), "write", nops=2, start_share=share, op=0)
        short(rng.choice(Ls), "newop", share=share)
        short(rng.choice(Ls), "gc", nops=2, start_share=share, op=0)
    short(rng.choice(Ls), "gc", nops=1, op=0)
    for how in LIFE_RESULT_HOWS:
        short(rng.choice(Ls), "result", op=0, how=how)
    # random histories
    for _ in range(160 if thorough else 30):
        L = rng.choice([1, 2, 2, 3, 3] + ([4] if thorough else []))
        g = LifeGen(rng, L, parity).start(nops=rng.choice([1, 1, 2]))
        want, tries = rng.randint(3, 10 if thorough else 7), 0
        while len(g.steps) < want and tries < 40:
            tries += 1
            g.step()
        out.append(g.finish())
    return out


def oracle_parity_ladders(ctx, W, L):
    """C12: CAR, vacuum, occupation number = (1 - Z_{i-1} Z_i)/2 for the encoded ladder operators"""
    lad = enc_lad_impl(W, L, True)
    base.oracle_car(ctx, W, L, lad, prefix="parity-lad", inp_extra={"parity": True})
    d = 2 ** L
    for i in range(L):
        N = lad(i, True) @ lad(i, False)
        zz = [I2] * L
        zz[i] = Z2
        if i > 0:
            zz[i - 1] = Z2
        want = 0.5 * (np.eye(d) - kron_all(zz))
        if not np.array_equal(N, want):
            ctx.fail("parity-lad:occupation-number-not-(1-Z_{i-1}Z_i)/2", {"kind": "car", "parity": True, "L": L, "i": i},
                     "(1 - Z_{i-1} Z_i)/2", "differs")
    return lad


# ---------------------------------------------------------------------------------------------
# LONG lattices (L = 31 .. 130): dense matrices are out of reach, the property is checked at the level of the
# Pauli STRINGS.  Everything below is numpy-free and independent of the library's PauliString arithmetic:
# an operator on L sites is a dictionary  {letters : (re, im)}  with letters a tuple over 0 = I, 1 = X, 2 = Y, 3 = Z
# (site 0 first) and exact Gaussian-rational coefficients; products are taken LETTER BY LETTER with the single-site
# table  X Y = i Z, Y Z = i X, Z X = i Y.  Reference ladder operators (site 0 = leftmost tensor factor, as in
# FieldOperator.as_matrix / checks.C10.ref_lad):
#   Jordan-Wigner   a_i = I^(i) (X + iY)/2 Z^(L-i-1)
#   parity          a_i = (Z_{i-1} X_i + i Y_i)/2 X_{i+1} ... X_{L-1}      (qubit j stores the parity of sites 0..j)
# and, for the parity encoder, the statement of the property itself on the encoder's own ladder operators
# (CAR, vacuum, occupation number, sum of ordered products).
LET_MUL = {}
for _a in range(4):
    LET_MUL[(0, _a)] = (_a, 0)
    LET_MUL[(_a, 0)] = (_a, 0)
    LET_MUL[(_a, _a)] = (0, 0)
for _a, _b, _c in ((1, 2, 3), (2, 3, 1), (3, 1, 2)):
    LET_MUL[(_a, _b)] = (_c, 1)          # sigma_a sigma_b = i^k sigma_c
    LET_MUL[(_b, _a)] = (_c, 3)
IPOW = [(1, 0), (0, 1), (-1, 0), (0, -1)]          # i^k as (re, im)
LETTER_OF_ZX = {(0, 0): 0, (0, 1): 1, (1, 1): 2, (1, 0): 3}
LONG_SIZES = (33, 54, 63, 64, 65, 70, 96, 130)
F0, F1, FH = Fraction(0), Fraction(1), Fraction(1, 2)


def gmul(a, b):
    return (a[0] * b[0] - a[1] * b[1], a[0] * b[1] + a[1] * b[0])


def gfrac(v):
    v = complex(v)
    return (Fraction(v.real), Fraction(v.imag))


def lop_add_into(A, B, c=(F1, F0)):
    for k, v in B.items():
        w = gmul(v, c)
        o = A.get(k)
        A[k] = w if o is None else (o[0] + w[0], o[1] + w[1])
    return A


def lop_clean(A):
    return {k: v for k, v in A.items() if v[0] or v[1]}


def lop_mul(A, B):
    out = {}
    for ka, va in A.items():
        for kb, vb in B.items():
            ph = 0
            letters = []
            for a, b in zip(ka, kb):
                c, k = LET_MUL[(a, b)]
                letters.append(c)
                ph += k
            w = gmul(gmul(va, vb), IPOW[ph % 4])
            key = tuple(letters)
            o = out.get(key)
            out[key] = w if o is None else (o[0] + w[0], o[1] + w[1])
    return out


def lop_adjoint(A):
    return {k: (v[0], -v[1]) for k, v in A.items()}


def lop_on_vacuum(A):
    """amplitudes of A |0...0> by basis state (set of flipped sites): X|0> = |1>, Y|0> = i|1>, Z|0> = |0>"""
    amp = {}
    for k, v in A.items():
        ny = sum(1 for a in k if a == 2)
        st = tuple(1 if a in (1, 2) else 0 for a in k)
        w = gmul(v, IPOW[ny % 4])
        o = amp.get(st)
        amp[st] = w if o is None else (o[0] + w[0], o[1] + w[1])
    return lop_clean(amp)


def gstr(v):
    re, im = base.fstr(v[0]), base.fstr(v[1])
    return re + ("" if im.startswith("-") else "+") + im + "j"


def letters_str(k):
    """compact, readable form of a long string: only the non-identity letters"""
    return " ".join("%s%d" % ("IXYZ"[a], i) for i, a in enumerate(k) if a) or "identity"


def ref_ladder_letters(L, i, create, parity):
    if parity:
        P = [0] * i + [1] * (L - i)
        Q = [0] * i + [2] + [1] * (L - i - 1)
        if i > 0:
            P[i - 1] = 3
    else:
        P = [0] * i + [1] + [3] * (L - i - 1)
        Q = [0] * i + [2] + [3] * (L - i - 1)
    return {tuple(P): (FH, F0), tuple(Q): (F0, -FH if create else FH)}


def ref_number_letters(L, i, parity):
    zz = [0] * L
    zz[i] = 3
    if parity and i > 0:
        zz[i - 1] = 3
    return {tuple([0] * L): (FH, F0), tuple(zz): (-FH, F0)}


def enc_letters(enc, L):
    """(operator as letter dictionary, list of structural complaints) of an encoder result"""
    out, bad, seen = {}, [], set()
    for w in enc.pstrings:
        ps = w.paulis
        z, x, q = [int(v) for v in ps.z], [int(v) for v in ps.x], int(ps.q)
        if len(z) != L or len(x) != L:
            bad.append("string of length %d/%d on %d sites" % (len(z), len(x), L))
            continue
        if any(v not in (0, 1) for v in z + x) or q not in (0, 1, 2, 3):
            bad.append("string with entries outside {0,1} / q outside 0..3")
            continue
        key = tuple(LETTER_OF_ZX[(a, b)] for a, b in zip(z, x))
        if (key, q) in seen:
            bad.append("string listed twice: %s (q = %d)" % (letters_str(key), q))
        seen.add((key, q))
        wt = complex(w.weight)
        if not (np.isfinite(wt.real) and np.isfinite(wt.imag)):
            bad.append("non-finite weight %r" % wt)
            continue
        lop_add_into(out, {key: gmul(gfrac(wt), IPOW[(-q) % 4])})
    return out, bad


def selftest_letter_convention(W, rng):
    """PauliString(z, x, q).as_matrix() = (-i)^q kron(letters) with (z,x) = 00 I, 01 X, 11 Y, 10 Z (site 0 leftmost)"""
    mats = {0: I2, 1: X2, 2: Y2, 3: Z2}
    ok = True
    for _ in range(8):
        L = 3
        z = [rng.randint(0, 1) for _ in range(L)]
        x = [rng.randint(0, 1) for _ in range(L)]
        q = rng.randint(0, 3)
        M = dense(W.qib.operator.PauliString(z, x, q).as_matrix())
        G = kron_all([mats[LETTER_OF_ZX[(a, b)]] for a, b in zip(z, x)])
        ok = ok and np.array_equal(M, [1, -1j, -1, 1j][q] * G)
    return ok


def long_terms(inp):
    """coefficient arrays of a sparse description {"L", "terms": [{"pat", "nz": [[idx..., re, im], ...], "real"}]}"""
    L = inp["L"]
    terms = []
    for t in inp["terms"]:
        k = len(t["pat"])
        c = np.zeros((L,) * k, dtype=float if t.get("real") else complex)
        for e in t["nz"]:
            idx, v = tuple(int(a) for a in e[:k]), complex(e[k], e[k + 1])
            c[idx] = v.real if t.get("real") else v
        terms.append((t["pat"], c))
    return L, terms


def long_reference(inp, lad):
    """sum over terms and non-zero entries of coeff * ordered letterwise product of lad(site, create)"""
    L = inp["L"]
    ref = {}
    for t in inp["terms"]:
        k = len(t["pat"])
        acc = {}
        for e in t["nz"]:
            v = complex(e[k], e[k + 1])
            if t.get("real"):
                v = complex(v.real, 0.0)
            acc[tuple(int(a) for a in e[:k])] = v          # a later entry for the same index overwrites, as in the array
        for idx, v in acc.items():
            if v == 0:
                continue
            P = {tuple([0] * L): (F1, F0)}
            for kind, j in zip(t["pat"], idx):
                P = lop_mul(P, lad(j, bool(kind)))
            lop_add_into(ref, P, gfrac(v))
    return lop_clean(ref)


def long_compare(ctx, sig_prefix, inp, got, ref, what):
    """got (letters of the encoder's result) against the exact reference: every string of the reference above the
    pruning threshold present with its weight, nothing else present (but a single negligible dimension marker)"""
    scale = max([1.0] + [abs(float(v[0])) + abs(float(v[1])) for v in ref.values()])
    tol = Fraction(1e-13) * Fraction(scale)
    for key in sorted(set(got) | set(ref)):
        g = got.get(key)
        r = ref.get(key, (F0, F0))
        if g is None:
            if r[0] * r[0] + r[1] * r[1] > (PRUNE_TOL + tol) ** 2:
                ctx.fail(sig_prefix + ":string-of-the-exact-expansion-missing", inp,
                         "%s contains %s with coefficient %s" % (what, letters_str(key), gstr(r)), "absent")
                return False
        elif max(abs(g[0] - r[0]), abs(g[1] - r[1])) > tol:
            if not (r[0] or r[1]) and len(got) == 1 and g[0] * g[0] + g[1] * g[1] <= PRUNE_TOL ** 2:
                continue        # the zero-weight string that keeps the dimension of an all-cancelling operator
            ctx.fail(sig_prefix + ":string-weight-differs-from-letterwise-expansion", inp,
                     "%s: coefficient of %s = %s" % (what, letters_str(key), gstr(r)), gstr(g))
            return False
    return True


_long_lad_cache = {}


def long_enc_ladder(W, L, parity):
    """letters of the encoder's own single ladder operators (public API), cached per (L, encoder)"""
    f = encoder_of(W, parity)

    def lad(i, create):
        key = (id(W), parity, L, i, create)
        if key not in _long_lad_cache:
            e = np.zeros(L)
            e[i] = 1.0
            _long_lad_cache[key] = enc_letters(f(W.op(L, [([1 if create else 0], e)])), L)[0]
        return _long_lad_cache[key]
    return lad


def oracle_long(ctx, W, inp):
    """one sparse operator on a long lattice, string by string"""
    parity = bool(inp["parity"])
    name = ("parity" if parity else "jw") + ":long-lattice"
    L, terms = long_terms(inp)
    enc = encoder_of(W, parity)(W.op(L, terms))
    got, bad = enc_letters(enc, L)
    for b in bad:
        ctx.fail(name + ":malformed-result", inp, "each Pauli string once, on %d sites, finite weight" % L, b)
        return enc
    if len(enc.pstrings) > 1 and any(abs(complex(w.weight)) <= 1e-14 for w in enc.pstrings):
        ctx.fail(name + ":negligible-string-not-pruned", inp)
    ok = long_compare(ctx, name, inp, got, long_reference(inp, lambda j, c: ref_ladder_letters(L, j, c, parity)),
                      "the letterwise expansion with " + ("a_i = (Z_{i-1} X_i + iY_i)/2 X_{>i}" if parity else "a_i = (X_i + iY_i)/2 Z_{>i}"))
    nsites = len({int(a) for t in inp["terms"] for e in t["nz"] for a in e[:len(t["pat"])]})
    if ok and parity and (nsites <= 8 or ctx.thorough):
        # the statement of the property, on the encoder's OWN ladder operators (one encoder call per site and kind:
        # in the quick tier only for operators touching few sites; the ladder oracle compares those with the reference)
        long_compare(ctx, name + ":homomorphism", inp, got, long_reference(inp, long_enc_ladder(W, L, True)),
                     "sum coeff * ordered product of the encoded ladder operators")
    return enc


def oracle_long_ladders(ctx, W, L, sites, parity):
    """encoded single ladder operators at the given sites of a long lattice: letters, adjoint, CAR, vacuum, number"""
    name = ("parity" if parity else "jw") + "-lad:long-lattice"
    inp = {"kind": "longlad", "parity": parity, "L": L, "sites": list(sites)}
    f = encoder_of(W, parity)
    ident = {tuple([0] * L): (F1, F0)}
    A, C = {}, {}
    for i in sites:
        for create, store in ((0, A), (1, C)):
            e = np.zeros(L)
            e[i] = 1.0
            got, bad = enc_letters(f(W.op(L, [([create], e)])), L)
            if bad:
                ctx.fail(name + ":malformed-result", dict(inp, i=i, create=create), "two well-formed strings", bad[0])
                return
            store[i] = got
            if got != ref_ladder_letters(L, i, create, parity):
                ctx.fail(name + ":ladder-operator-strings-differ", dict(inp, i=i, create=create),
                         "; ".join("%s: %s" % (letters_str(k), gstr(v)) for k, v in sorted(ref_ladder_letters(L, i, create, parity).items()))[:300],
                         "; ".join("%s: %s" % (letters_str(k), gstr(v)) for k, v in sorted(got.items()))[:300])
        if C[i] != lop_adjoint(A[i]):
            ctx.fail(name + ":create-is-not-the-adjoint-of-annihil", dict(inp, i=i), "same strings, conjugated weights", "differ")
        if lop_on_vacuum(A[i]):
            ctx.fail(name + ":annihilator-does-not-kill-vacuum", dict(inp, i=i), "A_i |0...0> = 0", "non-zero amplitudes")
        if lop_clean(lop_mul(C[i], A[i])) != ref_number_letters(L, i, parity):
            ctx.fail(name + ":occupation-number-of-the-ladder-product-wrong", dict(inp, i=i),
                     "A_i^dagger A_i = (1 - Z_{i-1} Z_i)/2" if parity else "A_i^dagger A_i = (1 - Z_i)/2", "differs")
    for i in sites:
        for j in sites:
            ac = lop_clean(lop_add_into(lop_mul(A[i], C[j]), lop_mul(C[j], A[i])))
            if ac != (ident if i == j else {}):
                ctx.fail(name + ":CAR-violated", dict(inp, i=i, j=j, rel="{a_i, a_j^dagger} = delta_ij"), "delta_ij", "differs")
            if i <= j and lop_clean(lop_add_into(lop_mul(A[i], A[j]), lop_mul(A[j], A[i]))):
                ctx.fail(name + ":CAR-violated", dict(inp, i=i, j=j, rel="{a_i, a_j} = 0"), "0", "non-zero")


def long_sites(rng, L):
    s = {0, 1, L - 1, L - 2} | {v for v in (31, 32, 52, 53, 62, 63, 64, 65, 66) if v < L}
    while len(s) < 12:
        s.add(rng.randrange(L))
    return sorted(s)


def long_lattice_family(rng, thorough, parity):
    """sparse operators on long lattices (lists of JSON-able descriptions)"""
    dy = [1, -1, 0.5, -2, 1j, 0.5 - 0.5j, 0.25 + 1j, 3, -1.5j, -0.75 + 0.5j]

    def cf():
        v = complex(rng.choice(dy))
        return [v.real, v.imag]

    out = []
    for L in LONG_SIZES:
        S = long_sites(rng, L)
        hi = [s for s in S if s >= min(L - 3, 60)] or S[-3:]
        pairs = [(L - 1, L - 2), (L - 2, L - 1), (L - 1, 0), (0, L - 1), (hi[0], hi[-1])]
        pairs += [(rng.choice(hi), rng.choice(S)) for _ in range(4 if thorough else 2)]
        pairs += [(a, a + 1) for a in (62, 63, 64, 65) if a + 1 < L]

        def mk(tag, terms):
            out.append({"kind": "long", "parity": parity, "L": L, "tag": tag, "terms": terms})
        # occupation numbers (integer, real and complex coefficient arrays)
        for i in (S if thorough else hi + S[:2]):
            mk("number", [{"pat": [1, 0], "nz": [[i, i, 1.0, 0.0]], "real": bool(i % 2)}])
        # site-dependent chemical potential over ALL sites (distinct dyadic weights)
        mk("number-sum", [{"pat": [1, 0], "nz": [[i, i, 1.0 + i / 128.0, 0.0] for i in range(L)], "real": True}])
        # hopping / pairing between (high) sites, one direction and Hermitian
        for i, j in pairs:
            c = cf()
            mk("hop", [{"pat": [1, 0], "nz": [[i, j] + c]}])
            if i != j:
                mk("hop+hc", [{"pat": [1, 0], "nz": [[i, j] + c, [j, i, c[0], -c[1]]]}])
                mk("pair", [{"pat": rng.choice([[0, 0], [1, 1], [0, 1]]), "nz": [[i, j] + cf(), [j, i] + cf()]}])
        # superpositions of ladder operators: all sites, and a sparse support reaching the last sites
        mk("ladder-superposition", [{"pat": [rng.choice([0, 1])], "nz": [[i] + cf() for i in range(L)]}])
        mk("ladder-superposition-sparse", [{"pat": [1], "nz": [[i] + cf() for i in hi]}, {"pat": [0], "nz": [[i] + cf() for i in hi[-2:]]}])
        # several terms, two of them with the same pattern, cancelling strings among them
        i, j = hi[-1], hi[0]
        mk("multi-term", [{"pat": [1, 0], "nz": [[i, i, 1.0, 0.0], [j, j, 0.5, 0.0]], "real": True},
                          {"pat": [1, 0], "nz": [[i, j] + cf(), [i, i, -1.0, 0.0]]},
                          {"pat": [0, 1], "nz": [[j, j, 0.5, 0.0], [j, i] + cf()]},
                          {"pat": [], "nz": [cf()]}])
        # a nearest-neighbour chain with site-dependent potential (the usual use of the encoders)
        if L <= 70 or thorough:
            nz = [[i, i, (i % 8 + 1) / 8.0, 0.0] for i in range(L)]
            for i in range(L - 1):
                nz += [[i, i + 1, -1.0 - (i % 4) / 4.0, 0.0], [i + 1, i, -1.0 - (i % 4) / 4.0, 0.0]]
            mk("chain", [{"pat": [1, 0], "nz": nz, "real": True}])
        # three operators (the coefficient array has L^3 entries: only on the shorter of the long lattices)
        if L <= 70 and (thorough or L in (65, 70)):
            i, j, k = hi[-1], hi[0], rng.choice(S)
            mk("three", [{"pat": rng.choice([[1, 0, 0], [1, 1, 0], [0, 1, 0]]), "nz": [[i, j, k] + cf(), [k, i, j] + cf()]}])
    return out


def long_lattice_run(ctx, W, parity):
    name = "parity" if parity else "jw"
    rng = ctx.rng
    if not selftest_letter_convention(W, rng):
        ctx.fail(name + ":pauli-letter-convention-changed", {"kind": "selftest-letters"}, "PauliString.as_matrix = (-i)^q kron(letters)", "differs")
        return
    for L in LONG_SIZES:
        sites = long_sites(rng, L)
        if not ctx.thorough:
            sites = [s for s in sites if s in (0, 1, 31, 32, 62, 63, 64, 65, 66, L - 2, L - 1)]
        ctx.count("long_ladders_L=%d" % L)
        try:
            oracle_long_ladders(ctx, W, L, sites, parity)
        except Exception as ex:
            ctx.fail(name + "-lad:long-lattice:exception", {"kind": "longlad", "parity": parity, "L": L, "sites": sites}, "encoded ladder operators", repr(ex))
    for inp in long_lattice_family(rng, ctx.thorough, parity):
        ctx.count("long_L=%d" % inp["L"])
        ctx.count("long_" + inp["tag"])
        try:
            enc = oracle_long(ctx, W, inp)
            ctx.count("long_strings<=%d" % (4 if len(enc.pstrings) <= 4 else 16 if len(enc.pstrings) <= 16 else 9999))
        except Exception as ex:
            ctx.fail(name + ":long-lattice:exception", inp, "encoded operator", repr(ex))
        if inp["tag"] in ("number", "hop+hc", "multi-term"):
            ctx.sample({k: inp[k] for k in ("kind", "parity", "L", "tag")})


def encoder_run(ctx, parity):
    import fermi as gen_fermi
    W = World()
    name = "parity" if parity else "jw"
    src = "parity_encoding.py" if parity else "jordan_wigner_encoding.py"
    ctx.trusted.append("%s: regenerated from %s on every run (gen/fermi.py, fail-closed, every statement of the function whitelisted): "
                       "the za/zb/x list expressions, the q constants of the PauliString calls, the weight expression, the pruning "
                       "tolerance, the keep-dimension flag AND the assembling loop statement by statement (for term / for coeff in "
                       "np.nditer / `if coeff == 0: continue` / pstrings = [identity] / the expansion list comprehensions "
                       "`[ps @ clist[j][0] ...] + [ps @ clist[j][1] ...]` by operator type / weight / refactor_sign + add_pauli_string); "
                       "the property file proves that loop EQUAL to the hand model (Qib.Fermi.FermiModel.enc_raw), which the "
                       "correspondence run executes. Hand-modelled on top of the C09 Pauli model: PauliString.__matmul__, refactor_sign, "
                       "add_pauli_string, remove_zero_weight_strings. np.nditer is assumed to visit every multi-index once (C order for "
                       "C-contiguous arrays; for other memory layouts, e.g. the transposed arrays of adjoint(), only the ORDER of the "
                       "output strings differs - the matrix oracles are run on those too)"
                       % (ctx.pid, src))
    ctx.assumes.append("exact ring arithmetic with a half element h (h+h=1) for the literal 0.5; binary64 rounding is not modelled; "
                       "pruning at 1e-14 is modelled as a predicate and the theorem says what is dropped")
    Lmax = 5
    ctx.rules.append("single fermionic field on L<=%d sites; operators with 1-3 terms, patterns of length 0-4, coefficient tensors "
                     "dense/sparse/single/zero/int/real with dyadic Gaussian entries (exact comparison of the string list, "
                     "weights and matrices), cancellation-heavy specials (a+a + aa+, (anti)symmetric pair terms), every single "
                     "ladder operator, every operator pair at every site pair; plus a float sweep with tiny coefficients around the "
                     "pruning threshold. PRECISE oracle on every input (rational arithmetic): the result contains every Pauli string "
                     "whose exact coefficient exceeds 1e-14 with that weight, no duplicates, no negligible string unless it is the "
                     "only one; a string is absent only if its exact coefficient is <= 1e-14 (+ rigorous rounding bound). Coefficient "
                     "scales 2^e, e = -1074 ... 1000, several scales in one tensor; homogeneity encode(2^e A) = 2^e encode(A); "
                     "products of 5-8 operators; history: encode leaves its operand unchanged, repeated/interleaved calls give "
                     "identical results. non-trivial = distinct operator with at least one "
                     "ladder operator and a non-zero coefficient" % Lmax)
    ctx.lib(["Fermi/FermiCheck", "Fermi/FermiParity", "Fermi/FermiInst"])
    ok = ctx.translate("GenFermi", gen_fermi.generate)
    if ok:
        pok, _ = ctx.props()
        if pok and ctx.thorough:
            ctx.coqchk()
    else:
        ctx.oblige("props:" + ctx.pid, "theorem", False, "not compiled: translator failed")
    header = HEADER_GEN if ok else HEADER_HAND

    rng = ctx.rng
    cases = []

    def add(term, desc, nt=True):
        cases.append((term, desc))
        if nt:
            ctx.nontriv(desc)
        ctx.sample(desc)

    ops = []
    # ------------------------------------------------------------ every ladder operator, every ordered pair
    for L in range(1, Lmax + 1):
        lad = None
        if parity:
            try:
                lad = oracle_parity_ladders(ctx, W, L)
            except Exception as e:
                ctx.fail("parity-lad:exception", {"kind": "car", "parity": True, "L": L}, "encoded ladder operators", repr(e))
        for i in range(L):
            for create in (0, 1):
                e = np.zeros(L, dtype=complex)
                e[i] = 1
                ops.append((L, [([create], e)], lad))
        if L <= 4:
            for i in range(L):
                for j in range(L):
                    for pat in ([1, 0], [0, 1], [0, 0], [1, 1]):
                        if L == 4 and not ctx.thorough and rng.random() < 0.5:
                            continue
                        c = np.zeros((L, L), dtype=complex)
                        c[i, j] = rng.choice([1, -2, 1j, 0.5 - 0.5j])
                        ops.append((L, [(pat, c)], lad))
        for nm, terms in special_terms(L):
            ops.append((L, terms, lad))
        # all-zero operators (known finding: no dimension information survives)
        ops.append((L, [([1, 0], np.zeros((L, L)))], lad))
    # ------------------------------------------------------------ random operators
    lads = {}
    nrand = 600 if ctx.thorough else 110
    for _ in range(nrand):
        L = rng.choice([1, 2, 2, 3, 3, 3, 4, 4, 5])
        if parity and L not in lads:
            lads[L] = enc_lad_impl(W, L, True)
        ops.append((L, rand_terms(rng, L, budget=700 if L < 5 or ctx.thorough else 130), lads.get(L)))
    for L, terms, lad in ops:
        ctx.count("op_L=%d" % L)
        for p, _ in terms:
            ctx.count("pattern_len=%d" % len(p))
        d = dict(desc_terms(L, terms), kind="enc", parity=parity)
        if parity and lad is None:
            lad = enc_lad_impl(W, L, True)
        try:
            enc, E = oracle_enc(ctx, W, L, terms, parity, exact=True, lad=lad)
            if L <= 4 or ctx.thorough or rng.random() < 0.3:
                ctx.count("precise_oracle")
                oracle_encx(ctx, W, L, terms, parity, lad=lad, enc=enc)
        except Exception as e:
            ctx.fail(name + ":exception", d, "encoded operator", repr(e))
            continue
        nt = nontrivial(terms)
        ctx.count("strings<=%d" % (1 if len(enc.pstrings) <= 1 else 4 if len(enc.pstrings) <= 4 else 16 if len(enc.pstrings) <= 16 else 9999))
        add("CEnc %s %s %s %s" % (ct.b(parity), ct.nat(L), cop(terms), enc_strings(enc)), dict(d, op="encode"), nt)
        if E is not None and L <= 4 and len(enc.pstrings) <= 40 and rng.random() < 0.35:
            add("CEncMat %s %s %s %s" % (ct.b(parity), ct.nat(L), cop(terms), base.qimat(E)), dict(d, op="encode.as_matrix"), nt)

    # ------------------------------------------------------------ coefficient magnitudes over the binary64 range
    if not selftest_pauli_convention(W, 3, rng):
        ctx.fail(name + ":pauli-matrix-convention-changed", {"kind": "selftest"}, "PauliString.as_matrix = (-i)^(q+z.x) Z^z X^x", "differs")
    for L, terms, tag, e in base.scaled_family(rng, ctx.thorough):
        ctx.count("scaled_" + tag)
        if parity and L not in lads:
            lads[L] = enc_lad_impl(W, L, True)
        d = dict(desc_terms(L, terms), kind="encx", parity=parity)
        nf = sum(f["count"] for f in ctx.failing)
        try:
            enc, exact = oracle_encx(ctx, W, L, terms, parity, lad=lads.get(L))
            if e is not None and -30 <= e <= 60:
                oracle_enc(ctx, W, L, terms, parity, exact=True, lad=lads.get(L))
        except Exception as ex:
            ctx.fail(name + ":exception", d, "encoded operator", repr(ex))
            continue
        # the model on the same data, where binary64 arithmetic was exact and nothing underflowed
        if (e is None or e >= -1040) and sum(np.asarray(c).size for _, c in terms) <= 40 and len(enc.pstrings) <= 40:
            if exact or sum(f["count"] for f in ctx.failing) > nf:
                ctx.count("scaled_cases_for_the_model")
                add("CEnc %s %s %s %s" % (ct.b(parity), ct.nat(L), cop(terms), enc_strings(enc)), dict(d, op="encode", scale=tag, e=e),
                    nontrivial(terms))
    for L, terms in base.large_lattice_terms(rng, ctx.thorough, Ls=(6, 7, 8, 9) if ctx.thorough else (6, 7, 8)):
        ctx.count("large_lattice_L=%d" % L)
        if parity and L not in lads:
            lads[L] = enc_lad_impl(W, L, True)
        d = dict(desc_terms(L, terms), kind="enc", parity=parity)
        try:
            enc, E = oracle_enc(ctx, W, L, terms, parity, exact=True, lad=lads.get(L))
            add("CEnc %s %s %s %s" % (ct.b(parity), ct.nat(L), cop(terms), enc_strings(enc)), dict(d, op="encode", large=L), True)
        except Exception as ex:
            ctx.fail(name + ":exception", d, "encoded operator", repr(ex))
    for _ in range(45 if ctx.thorough else 15):
        L = rng.choice([1, 2, 3, 3, 4])
        terms = rand_terms(rng, L, kmax=3, budget=64)
        ctx.count("layout")
        d = dict(desc_terms(L, terms), kind="enclayout", parity=parity)
        try:
            oracle_enc_layout(ctx, W, L, terms, parity, rng)
        except Exception as ex:
            ctx.fail(name + ":exception", d, "encoded operator", repr(ex))
    for L, terms in base.long_product_terms(rng, ctx.thorough):
        ctx.count("long_products")
        if parity and L not in lads:
            lads[L] = enc_lad_impl(W, L, True)
        d = dict(desc_terms(L, terms), kind="encx", parity=parity)
        try:
            enc, exact = oracle_encx(ctx, W, L, terms, parity, lad=lads.get(L))
            oracle_enc(ctx, W, L, terms, parity, exact=True, lad=lads.get(L))
            add("CEnc %s %s %s %s" % (ct.b(parity), ct.nat(L), cop(terms), enc_strings(enc)), dict(d, op="encode", long=len(terms[0][0])), True)
        except Exception as ex:
            ctx.fail(name + ":exception", d, "encoded operator", repr(ex))
    for _ in range(30 if ctx.thorough else 10):
        L = rng.choice([1, 2, 2, 3])
        terms = rand_terms(rng, L, nterms=rng.choice([1, 2]), kmax=3, budget=30)
        e = rng.choice([-30, -27, -20, -10, 10, 40, 100, 300, 900])
        ctx.count("homogeneity")
        try:
            oracle_enc_homog(ctx, W, L, terms, parity, e)
        except Exception as ex:
            ctx.fail(name + ":exception", dict(desc_terms(L, terms), kind="enchomog", parity=parity, e=e), "encoded operator", repr(ex))
    # ------------------------------------------------------------ history / aliasing
    for n in range(60 if ctx.thorough else 20):
        L = rng.choice([1, 2, 2, 3])
        if n % 2:
            ta, tb = base.dup_pattern_terms(rng, L)
        else:
            ta = rand_terms(rng, L, nterms=rng.choice([1, 2]), kmax=2, budget=30)
            tb = rand_terms(rng, L, nterms=rng.choice([1, 2]), kmax=2, budget=30)
        ctx.count("history")
        try:
            oracle_enc_history(ctx, W, L, ta, tb, parity)
        except Exception as ex:
            ctx.fail(name + ":exception", {"kind": "enchist", "parity": parity, "a": desc_terms(L, ta), "b": desc_terms(L, tb)},
                     "encode history", repr(ex))

    # ------------------------------------------------------------ long lattices, string level
    ctx.rules.append("LONG lattices L in %s (beyond every machine-integer width used for bit masks: 32, 53, 63, 64): sparse operators - "
                     "single ladder operators at the first/last sites and around sites 31/32, 52/53, 62..66, occupation numbers, "
                     "site-dependent chemical potential over all sites, hopping/pairing between high sites, superpositions of ladder "
                     "operators over all sites, multi-term operators with cancelling strings, nearest-neighbour chains, three-operator "
                     "terms (L <= 70) - checked at the level of the Pauli STRINGS against an independent numpy-free LETTERWISE "
                     "construction (single-site Pauli table, exact Gaussian rationals); encoded ladder operators: strings, adjoint, CAR, "
                     "vacuum, occupation number; parity: result = sum coeff * ordered letterwise product of the encoder's own ladder "
                     "operators. Not reachable there: terms with >= 4 operators (the coefficient array alone has L^4 entries)" % (LONG_SIZES,))
    long_lattice_run(ctx, W, parity)

    # ------------------------------------------------------------ float sweep (oracle only): rounding and pruning
    nfl = 300 if ctx.thorough else 60
    for _ in range(nfl):
        L = rng.choice([2, 3, 3, 4])
        if parity and L not in lads:
            lads[L] = enc_lad_impl(W, L, True)
        terms = []
        for _t in range(rng.choice([1, 2, 3])):
            k = rng.choice([k for k in range(0, 5) if L ** k <= 300])
            c = np.array([complex(rng.gauss(0, 1), rng.gauss(0, 1)) * rng.choice([1, 1, 1, 0, 1e-15, 3e-14, 1e-10, 1e-6])
                          for _ in range(L ** k)]).reshape((L,) * k)
            terms.append((base.rand_pat(rng, k), c))
        if all(len(p) == 0 for p, _ in terms):
            terms.append(([1, 0], np.eye(L)))
        ctx.count("float_sweep")
        try:
            enc, _ = oracle_enc(ctx, W, L, terms, parity, exact=False, lad=lads.get(L))
            oracle_encx(ctx, W, L, terms, parity, lad=lads.get(L), enc=enc)
        except Exception as e:
            ctx.fail(name + ":exception", dict(desc_terms(L, terms), kind="enc", parity=parity, exact=False), "encoded operator", repr(e))

    # ------------------------------------------------------------ object histories (mutation between encodings)
    ctx.rules.append("OBJECT HISTORIES (L <= 3, thorough 4): one to three FieldOperator objects are encoded, changed and encoded again - "
                     "in-place writes into a coefficient array (single entry, whole array, scaling, sign, conjugation, zero; complex / "
                     "float / int arrays; through term.coeffs, through the array the caller passed to FieldOperatorTerm, through the "
                     "base of a view), term.coeffs replaced by another array (of the caller / private copy / after dropping the old "
                     "one), terms appended / removed / reordered, creation/annihilation pattern of a term changed (new tuple / IFODesc "
                     "in place), one array shared by several terms or operators, operators encoded alternately, an operator and its "
                     "arrays garbage-collected and rebuilt with equal shapes, the returned PauliOperator modified. After every step: "
                     "encoding = encoding of a fresh operator built from a shadow copy of the current values (as sets of weighted "
                     "strings), encoded matrix = reference matrix of the current values (exact), earlier results unchanged, operator "
                     "and caller's arrays unchanged by encode. Every step kind occurs in a short history of its own in every run; "
                     "plus random histories of 3-7 (thorough 3-10) steps")
    import time
    t_life = time.time()
    for inp in life_family(rng, ctx.thorough, parity):
        ctx.count("life_histories")
        ctx.count("life_history_L=%d" % inp["L"])
        try:
            oracle_enc_life(ctx, W, inp, lads)
        except Exception as ex:
            ctx.fail(name + ":object-history:exception", inp, "encode along an object history", repr(ex))
    ctx.log("object histories: %d histories in %.1fs" % (ctx.dist.get("life_histories", 0), time.time() - t_life))

    ctx.log("harness done: %d cases; evaluating the model in Coq" % len(cases))
    dis = ctx.cases("enc", header, cases, shard=40)
    for i, d in dis[:5]:
        ctx.log("model/impl disagree on", str(d)[:300])


def encoder_replay(ctx, data):
    W = World()
    inp, sig = data["input"], data["sig"]
    before = len(ctx.failing)
    parity = bool(inp.get("parity"))
    if inp.get("kind") == "car":
        oracle_parity_ladders(ctx, W, inp["L"])
    elif inp.get("kind") == "enc":
        L, terms = undesc_terms(inp)
        lad = enc_lad_impl(W, L, True) if parity else None
        oracle_enc(ctx, W, L, terms, parity, exact=inp.get("exact", True), lad=lad)
    elif inp.get("kind") == "encx":
        L, terms = undesc_terms(inp)
        oracle_encx(ctx, W, L, terms, parity, lad=enc_lad_impl(W, L, True) if parity else None)
    elif inp.get("kind") == "enclayout":
        L, terms = undesc_terms(inp)
        import random
        for sd in range(8):
            oracle_enc_layout(ctx, W, L, terms, parity, random.Random(sd))
    elif inp.get("kind") == "enchomog":
        L, terms = undesc_terms(inp)
        oracle_enc_homog(ctx, W, L, terms, parity, inp["e"])
    elif inp.get("kind") == "enchist":
        L, ta = undesc_terms(inp["a"])
        _, tb = undesc_terms(inp["b"])
        oracle_enc_history(ctx, W, L, ta, tb, parity)
    elif inp.get("kind") == "enclife":
        oracle_enc_life(ctx, W, inp)
    elif inp.get("kind") == "selftest":
        if not selftest_pauli_convention(W, 3, ctx.rng):
            ctx.fail(sig, inp)
    elif inp.get("kind") == "selftest-letters":
        if not selftest_letter_convention(W, ctx.rng):
            ctx.fail(sig, inp)
    elif inp.get("kind") == "long":
        oracle_long(ctx, W, inp)
    elif inp.get("kind") == "longlad":
        sites = [inp[k] for k in ("i", "j") if k in inp] or inp["sites"]
        oracle_long_ladders(ctx, W, inp["L"], sorted(set(sites)), parity)
    if len(ctx.failing) > before:
        ctx.failing[:] = ctx.failing[:before]
        ctx.fail(sig, inp, data.get("expected"), "still fails")


def run(ctx):
    encoder_run(ctx, False)


def replay(ctx, data):
    encoder_replay(ctx, data)
