"""C14 - lattices: index/coordinate maps are inverse; adjacency = nearest neighbours.

Three layers (see notes/C14.md):
  1. theorems (coq/props/C14.v over Qib.Lattice.*) about the Gallina model, for all shapes;
     the straight-line integer functions are regenerated from the source (gen/lattice.py) and
     proved equal to the model's in the property file;
  2. correspondence: the model's adjacency pair sets / index maps are recomputed inside Coq
     (vm_compute) and compared with what the implementation returned, exhaustively over small shapes;
  3. an independent geometric oracle (written from the property text) on the implementation;
  4. a history oracle: the four observables must be functions of the lattice's defining data -- repeated calls on
     one object with in-place writes into every returned array and into the caller-owned constructor arguments
     (Python aliasing is not part of the Coq model);
  5. if an obligation is broken and 3./4. found nothing on the standard families: an oracle-only sweep of a
     deeper domain (deep_families) to turn the breakage into a concrete failing input.
"""
import itertools, math, os, re, sys
from fractions import Fraction
import numpy as np
from vlib import coqterm as ct

sys.path.insert(0, os.path.join(os.path.dirname(os.path.dirname(os.path.abspath(__file__))), "gen"))

HEADER = "From Qib Require Import Lattice.LatCheck.\nLocal Open Scope Z_scope.\n"
SQ3 = math.sqrt(3.0)
CLASSNAME = {"int": "IntegerLattice", "tri": "TriangularLattice", "brick": "BrickLattice", "hex": "HexagonalLattice",
             "ofc": "OddFaceCenteredLattice", "full": "FullyConnectedLattice", "custom": "CustomizedLattice",
             "layer": "LayeredLattice"}


# ----------------------------------------------------------------------------- descriptors
def conv(up):
    from qib.lattice import ShiftedLatticeConvention as S
    return S.COLS_SHIFTED_UP if up else S.ROWS_SHIFTED_LEFT


def build(d):
    """descriptor (JSON-able list) -> qib lattice object"""
    import qib.lattice as ql
    k = d[0]
    if k == "int":
        return ql.IntegerLattice(tuple(d[1]), pbc=tuple(bool(b) for b in d[2]))
    if k == "tri":
        return ql.TriangularLattice(tuple(d[1]), pbc=tuple(bool(b) for b in d[2]))
    if k == "brick":
        return ql.BrickLattice((d[1], d[2]), pbc=False, delete=bool(d[4]), convention=conv(d[3]))
    if k == "hex":
        return ql.HexagonalLattice((d[1], d[2]), pbc=False, convention=conv(d[3]))
    if k == "ofc":
        return ql.OddFaceCenteredLattice((d[1], d[2]), pbc=(bool(d[3]), bool(d[4])))
    if k == "full":
        return ql.FullyConnectedLattice(tuple(d[1]))
    if k == "custom":
        return ql.CustomizedLattice(tuple(d[1]), custom_array(d))
    if k == "layer":
        return ql.LayeredLattice(build(d[1]), d[2])
    raise ValueError(k)


CUSTOM_FORMS = ("int", "float", "bool", "complex", "F", "strided", "int8")


def custom_form(d):
    return d[3] if len(d) > 3 else "int"


def custom_array(d):
    """the matrix object handed to CustomizedLattice: d[2] (rows of numbers) in the dtype / memory layout d[3]
    int (default) | float | bool (non-zero pattern) | complex (v -> v*1j: purely imaginary weights) | F (Fortran order) |
    strided (every second row/column of a larger array) | int8 | w:<dtype>:<layout> (exact hex-float / Fraction / complex entries of any
    magnitude, see weight_array)"""
    form = custom_form(d)
    rows = d[2]
    n = len(rows)
    if form.startswith("w:"):
        return weight_array(d)
    if form == "float":
        return np.array(rows, dtype=float).reshape(n, -1)
    if form == "complex":
        return np.array(rows, dtype=float).reshape(n, -1) * 1j
    M = np.array(rows, dtype=int).reshape(n, -1)
    if form == "bool":
        return M != 0
    if form == "F":
        return np.asfortranarray(M)
    if form == "int8":
        return M.astype(np.int8)
    if form == "strided":
        big = np.full((2 * M.shape[0], 2 * M.shape[1]), 9, dtype=int)
        big[::2, ::2] = M
        return big[::2, ::2]
    return M


# ----------------------------------------------------------------------------- weighted matrices with exact entries
# form "w:<dtype>:<layout>" of a customised-lattice descriptor: d[2] holds EXACT entries
#   int                      a Python integer
#   "0x1p-30", "-0x0.0p+0", "0x0.0000000000001p-1022", "0x1p-5000", "inf"
#                            a hexadecimal float (float.hex syntax, the exponent is not limited to binary64) / an infinity;
#                            the sign of a zero is kept
#   [re, im]                 a complex number, both parts as above
# dtype  float64 | float32 | float16 | longdouble | complex128 | complex64 | object (Fraction / Python int / -0.0 / inf objects)
# layout C | F (Fortran order) | T (transposed view of a C array) | list (nested list of scalars)
# Every entry must be representable in the dtype WITHOUT rounding (checked: BadDescriptor), so that the non-zero pattern of what
# the constructor receives is the pattern of the exact values, computed in Python (w_nonzero) without any float comparison.
W_DTYPES = {"float64": np.float64, "float32": np.float32, "float16": np.float16, "longdouble": np.longdouble,
            "complex128": np.complex128, "complex64": np.complex64, "object": object}
_HEXF = re.compile(r"^([+-]?)0x([0-9a-f]+)(?:\.([0-9a-f]*))?p([+-]?[0-9]+)$")


class BadDescriptor(Exception):
    pass


def w_exact(e):
    """real entry -> (sign bit, exact value as Fraction, or "inf")"""
    if isinstance(e, bool) or isinstance(e, float):
        raise BadDescriptor("entry %r: int or hex-float string expected" % (e,))
    if isinstance(e, int):
        return e < 0, Fraction(e)
    if e in ("inf", "-inf"):
        return e[0] == "-", "inf"
    m = _HEXF.match(e)
    if not m:
        raise BadDescriptor("entry %r" % (e,))
    sign, ip, fp, ex = m.groups()
    fp = fp or ""
    v = Fraction(int(ip + fp, 16)) * Fraction(2) ** (int(ex) - 4 * len(fp))
    return sign == "-", (-v if sign == "-" else v)


def w_nonzero(e):
    """whether the exact entry is a coupling (anything but +-0)"""
    if isinstance(e, list):
        return any(w_nonzero(x) for x in e)
    v = w_exact(e)[1]
    return v == "inf" or v != 0


def w_neg(e):
    if isinstance(e, list):
        return [w_neg(x) for x in e]
    if isinstance(e, int):
        return -e if e else "-0x0.0p+0"
    return e[1:] if e.startswith("-") else "-" + e


def w_conj(e):
    return [e[0], w_neg(e[1])]


def _odd_exp(v):
    """positive dyadic Fraction -> (odd, e) with v = odd * 2^e"""
    num, den = v.numerator, v.denominator
    if den & (den - 1):
        raise BadDescriptor("not dyadic")
    if den > 1:
        return num, -(den.bit_length() - 1)
    tz = (num & -num).bit_length() - 1
    return num >> tz, tz


def w_scalar(e, dt):
    """the exact real entry as a scalar of the dtype; BadDescriptor if that needs rounding"""
    neg, v = w_exact(e)
    if dt == "object":
        if v == "inf":
            return -math.inf if neg else math.inf
        if v == 0:
            return -0.0 if neg else 0
        return int(v) if v.denominator == 1 else v
    typ = {"complex128": np.float64, "complex64": np.float32}.get(dt) or W_DTYPES[dt]
    if v == "inf":
        x = typ("inf")
    elif v == 0:
        x = typ(0)
    else:
        odd, ex = _odd_exp(abs(v))
        if odd >= 2 ** 53:
            raise BadDescriptor("mantissa too long")
        with np.errstate(all="ignore"):
            x = np.ldexp(typ(float(odd)), ex)
        if not np.isfinite(x) or Fraction(*x.as_integer_ratio()) != abs(v):
            raise BadDescriptor("entry %r is not representable in %s" % (e, dt))
    return -x if neg else x


def w_parse_form(form):
    parts = form.split(":")
    if len(parts) != 3 or parts[0] != "w" or parts[1] not in W_DTYPES or parts[2] not in ("C", "F", "T", "list"):
        raise BadDescriptor("form %r" % form)
    return parts[1], parts[2]


def weight_array(d):
    """the object handed to CustomizedLattice for a "w:<dtype>:<layout>" descriptor"""
    dt, layout = w_parse_form(d[3])
    rows = d[2]
    n = len(rows)
    cplx = dt.startswith("complex")
    A = np.zeros((n, n), dtype=W_DTYPES[dt])
    for i, r in enumerate(rows):
        if len(r) != n:
            raise BadDescriptor("not square")
        for j, e in enumerate(r):
            if cplx:
                re_, im_ = e if isinstance(e, list) else (e, 0)
                a, b = w_scalar(re_, dt), w_scalar(im_, dt)
                A[i, j] = W_DTYPES[dt](0)
                A.real[i, j] = a
                A.imag[i, j] = b
            elif isinstance(e, list):
                raise BadDescriptor("complex entry in a real dtype")
            else:
                A[i, j] = w_scalar(e, dt)
    if layout == "F":
        return np.asfortranarray(A)
    if layout == "T":
        return np.ascontiguousarray(A.T).T
    if layout == "list":
        if dt in ("float64", "complex128", "object"):
            return A.tolist()                                  # Python floats / complex / the objects themselves
        return [[A[i, j] for j in range(n)] for i in range(n)]  # numpy scalars of the dtype
    return A


def custom_pattern(d):
    """non-zero pattern (bool array) of the given matrix, independent of the form"""
    n = len(d[2])
    if custom_form(d).startswith("w:"):
        return np.array([[w_nonzero(e) for e in r] for r in d[2]], dtype=bool).reshape(n, -1)
    return np.array(d[2], dtype=float).reshape(n, -1) != 0


def custom_int_rows(d):
    """the matrix as exact integers for the Coq model (sign, zero-ness, symmetry and cancellation preserved): float entries are
    multiples of 1/4 and are scaled by 4; bool = pattern; None when the form has no exact integer reading (complex)"""
    form = custom_form(d)
    if form == "complex" or form.startswith("w:"):
        return None
    if form == "float":
        out = [[4 * float(v) for v in r] for r in d[2]]
        if any(v != int(v) for r in out for v in r):
            return None
        return [[int(v) for v in r] for r in out]
    if form == "bool":
        return [[int(v != 0) for v in r] for r in d[2]]
    return [[int(v) for v in r] for r in d[2]]


def modelled(d):
    """whether the descriptor has an exact Coq term"""
    if d[0] == "custom":
        return custom_int_rows(d) is not None
    if d[0] == "layer":
        return modelled(d[1])
    return True


def term(d):
    k = d[0]
    zl = lambda v: ct.lst([ct.z(x) for x in v])
    bl = lambda v: ct.lst([ct.b(x) for x in v])
    if k in ("int", "tri"):
        return "(%s %s %s)" % ("LInt" if k == "int" else "LTri", zl(d[1]), bl(d[2]))
    if k == "brick":
        return "(LBrick %s %s %s %s)" % (ct.z(d[1]), ct.z(d[2]), ct.b(d[3]), ct.b(d[4]))
    if k == "hex":
        return "(LHex %s %s %s)" % (ct.z(d[1]), ct.z(d[2]), ct.b(d[3]))
    if k == "ofc":
        return "(LOfc %s %s %s %s)" % (ct.z(d[1]), ct.z(d[2]), ct.b(d[3]), ct.b(d[4]))
    if k == "full":
        return "(LFull %s)" % zl(d[1])
    if k == "custom":
        return "(LCustom %s %s)" % (zl(d[1]), ct.lst([zl(r) for r in custom_int_rows(d)]))
    if k == "layer":
        return "(LLayer %s %s)" % (term(d[1]), ct.z(d[2]))
    raise ValueError(k)


class Inexact(Exception):
    pass


def _exact_int(x, what):
    r = round(float(x))
    if abs(float(x) - r) > 1e-9:
        raise Inexact("%s = %r is not on the exact grid" % (what, x))
    return int(r)


def enc_coord(d, c):
    """implementation coordinate -> exact integer list (the model's encoding, LatModel.v header)"""
    k = d[0]
    if k in ("int", "tri", "full", "custom", "brick"):
        return [int(v) for v in c]
    if k == "hex":
        if d[3]:
            return [_exact_int(c[0] * 2.0 / SQ3, "x*2/sqrt3"), _exact_int(2.0 * c[1], "2y")]
        return [_exact_int(2.0 * c[0], "2x"), _exact_int(c[1] * 2.0 / SQ3, "y*2/sqrt3")]
    if k == "ofc":
        return [_exact_int(2.0 * float(v), "2c") for v in c]
    if k == "layer":
        return [int(c[0])] + enc_coord(d[1], c[1:])
    raise ValueError(k)


def dec_coord(d, e):
    """exact integer list -> coordinate object handed to coord_to_index"""
    k = d[0]
    if k in ("int", "tri", "full", "custom", "brick"):
        return tuple(int(v) for v in e)
    if k == "hex":
        if d[3]:
            return (e[0] * SQ3 / 2.0, e[1] / 2.0)
        return (e[0] / 2.0, e[1] * SQ3 / 2.0)
    if k == "ofc":
        if all(v % 2 == 0 for v in e):
            return tuple(int(v) // 2 for v in e)
        return tuple(v / 2.0 for v in e)
    if k == "layer":
        return (int(e[0]),) + tuple(dec_coord(d[1], e[1:]))
    raise ValueError(k)


def zlist(v):
    return ct.lst([ct.z(x) for x in v])


# ----------------------------------------------------------------------------- geometric reference (from the property text)
def wrap_step(c, v, shape, pbc):
    """c + v with wrapping only on periodic axes; None if it leaves the box"""
    t = []
    for k in range(len(shape)):
        x = c[k] + v[k]
        if pbc[k]:
            x %= shape[k]
        elif not 0 <= x < shape[k]:
            return None
        t.append(x)
    return tuple(t)


def ref_box_neighbours(coords, shape, pbc, diag):
    """set of ordered index pairs: unit steps along an axis (+ the (1,1) chord), distinct sites only"""
    pos = {tuple(c): i for i, c in enumerate(coords)}
    nd = len(shape)
    steps = []
    for a in range(nd):
        for s in (-1, 1):
            v = [0] * nd
            v[a] = s
            steps.append(v)
    if diag and nd == 2:
        steps += [[1, 1], [-1, -1]]
    out = set()
    for c, i in pos.items():
        for v in steps:
            t = wrap_step(c, v, shape, pbc)
            if t is not None and t != c and t in pos:
                out.add((i, pos[t]))
    return out


def ref_pairs(d, latt, coords):
    """expected set of ordered pairs (i,j) with adj[i,j]=1, from the geometry of `coords`
    (the implementation's own index_to_coord outputs) and the property text."""
    k = d[0]
    n = len(coords)
    if k in ("int", "tri"):
        return ref_box_neighbours(coords, d[1], d[2], k == "tri")
    if k == "full":
        return {(i, j) for i in range(n) for j in range(n) if i != j}
    if k == "hex":
        P = np.array([[float(c[0]), float(c[1])] for c in coords]).reshape(n, 2)
        D = np.sqrt(((P[:, None, :] - P[None, :, :]) ** 2).sum(-1))
        return {(i, j) for i in range(n) for j in range(n) if abs(D[i, j] - 1.0) < 1e-9}
    if k == "ofc":
        verts = [(i, tuple(int(v) for v in c)) for i, c in enumerate(coords)
                 if all(float(v) == int(v) for v in c)]
        cents = [(i, (float(c[0]), float(c[1]))) for i, c in enumerate(coords)
                 if not all(float(v) == int(v) for v in c)]
        vc = [c for _, c in verts]
        sub = ref_box_neighbours(vc, (d[1], d[2]), (d[3], d[4]), False)
        out = {(verts[a][0], verts[b][0]) for a, b in sub}
        for i, f in cents:
            for j, v in verts:
                if abs(abs(f[0] - v[0]) - 0.5) < 1e-12 and abs(abs(f[1] - v[1]) - 0.5) < 1e-12:
                    out.add((i, j))
                    out.add((j, i))
        return out
    if k == "layer":
        base = build(d[1])
        badj = np.asarray(base.adjacency_matrix()).astype(int)
        bn = base.nsites
        bcoord = {}
        try:
            for i in range(bn):
                bcoord[tuple(enc_coord(d[1], base.index_to_coord(i)))] = i
            loc = [(int(c[0]), bcoord[tuple(enc_coord(d[1], c[1:]))]) for c in coords]
        except (Inexact, KeyError):
            return None          # base coordinates off the exact grid: reported for the base lattice itself
        out = set()
        for i, (l, a) in enumerate(loc):
            for j, (m, b) in enumerate(loc):
                if (l == m and badj[a, b] != 0) or (l != m and a == b):
                    out.add((i, j))
        return out
    if k == "custom":
        M = custom_pattern(d)
        if M.shape != (n, n):
            return None
        return {(i, j) for i in range(n) for j in range(n) if M[i, j]}
    return None


def hex_graph_facts(s0, s1):
    """what an n x m patch of a honeycomb must satisfy (Euler: V - E + F = 1)"""
    return {"V": 2 * s0 * s1 + 2 * (s0 + s1), "E": 3 * s0 * s1 + 2 * (s0 + s1) - 1}


def connected(n, pairs, skip=()):
    nb = {}
    for i, j in pairs:
        nb.setdefault(i, []).append(j)
    nodes = [i for i in range(n) if i not in skip]
    if not nodes:
        return True
    seen, todo = {nodes[0]}, [nodes[0]]
    while todo:
        u = todo.pop()
        for v in nb.get(u, []):
            if v not in seen:
                seen.add(v)
                todo.append(v)
    return len(seen) == len(nodes)


def oracle(ctx, d, fail=None, latt=None, tag=""):
    """independent checks on the implementation for one lattice; returns (lattice, adj, coords) or None.
    `latt`: run on this existing object (which has a history of earlier calls) instead of a fresh one;
    `tag` is then appended to every signature."""
    cls = CLASSNAME[d[0]]
    inp = {"lattice": d}
    fail0 = fail or ctx.fail
    fail = (lambda s, *a: fail0(s + tag, *a)) if tag else fail0
    if latt is None:
        try:
            latt = build(d)
        except Exception as e:
            return None
    try:
        n = int(latt.nsites)
        A = np.asarray(latt.adjacency_matrix())
    except Exception as e:
        fail(cls + ":adjacency_matrix-raises", inp, "an nsites x nsites matrix", repr(e))
        return None
    if A.shape != (n, n):
        fail(cls + ":adjacency-shape-not-nsites-squared", inp, (n, n), A.shape)
        return None
    Ai = A.astype(int)
    if not np.isin(A, (0, 1)).all():
        fail(cls + ":adjacency-not-0-1", inp, "entries in {0,1}", "other entries")
    if not np.array_equal(Ai, Ai.T):
        fail(cls + ":adjacency-not-symmetric", inp, "A = A^T", "differs")
    if np.diag(Ai).any():
        fail(cls + ":adjacency-diagonal-nonzero", inp, "zero diagonal", [int(i) for i in np.nonzero(np.diag(Ai))[0]][:4])
    # index -> coord -> index
    coords, ok = [], True
    for i in range(n):
        try:
            c = latt.index_to_coord(i)
            coords.append(tuple(c))
            back = latt.coord_to_index(c)
        except Exception as e:
            fail(cls + ":roundtrip-raises", dict(inp, i=i), "coord_to_index(index_to_coord(i)) = i", repr(e))
            ok = False
            break
        if back is None or int(back) != i:
            fail(cls + ":roundtrip-index-coord-index", dict(inp, i=i), i, None if back is None else int(back))
            ok = False
    if not ok or len(coords) != n:
        return latt, Ai, None
    key = [tuple(round(float(v) * 1e6) for v in c) for c in coords]
    if len(set(key)) != n:
        fail(cls + ":coordinates-not-injective", inp, "distinct coordinates", "collision")
        return latt, Ai, coords
    got = {(int(i), int(j)) for i, j in zip(*np.nonzero(Ai))}
    if d[0] == "brick":
        # "whose brick form is the same graph": compare with the hexagonal lattice of the same shape
        # through the square-grid coordinates; surplus points (delete=False) must be isolated
        hexd = ["hex", d[1], d[2], d[3]]
        hl = build(hexd)
        hn = hl.nsites
        hco = [hl.index_to_coord(i) for i in range(hn)]
        hp = ref_pairs(hexd, hl, hco)
        bt = build(["brick", d[1], d[2], d[3], True])
        to_hex = []
        for c in coords:
            h = bt.coord_to_index(c)
            to_hex.append(None if h is None else int(h))
        live = [h for h in to_hex if h is not None]
        if sorted(live) != list(range(hn)):
            fail(cls + ":sites-not-the-hexagonal-sites", inp, "bijection onto the hexagonal sites (+ isolated surplus points)", "differs")
            return latt, Ai, coords
        exp = {(i, j) for i in range(n) for j in range(n)
               if to_hex[i] is not None and to_hex[j] is not None and (to_hex[i], to_hex[j]) in hp}
        for (i, j) in got:
            if sum(abs(int(a) - int(b)) for a, b in zip(coords[i], coords[j])) != 1:
                fail(cls + ":link-not-a-unit-step-of-the-square-grid", inp, "unit steps", (coords[i], coords[j]))
                break
    else:
        exp = ref_pairs(d, latt, coords)
    if exp is not None:
        # self-loops are reported by the diagonal check above; here: links between distinct sites
        extra = sorted(p for p in got - exp if p[0] != p[1])[:3]
        miss = sorted(exp - got)[:3]
        show = lambda ps: [(i, j, [float(v) for v in coords[i]], [float(v) for v in coords[j]]) for i, j in ps]
        if extra:
            fail(cls + ":adjacency-has-a-link-that-is-not-a-nearest-neighbour-pair", inp,
                 "ones exactly at the geometric nearest-neighbour pairs", {"extra": show(extra)})
        if miss:
            fail(cls + ":adjacency-misses-a-nearest-neighbour-pair", inp,
                 "ones exactly at the geometric nearest-neighbour pairs", {"missing": show(miss)})
    if d[0] == "hex":
        f = hex_graph_facts(d[1], d[2])
        if n != f["V"] or len(got) != 2 * f["E"] or not connected(n, got) or max(Ai.sum(0), default=0) > 3:
            fail(cls + ":not-a-honeycomb-patch", inp, f, {"V": n, "E": len(got) // 2})
        P = np.array([[float(c[0]), float(c[1])] for c in coords]).reshape(n, 2)
        D = np.sqrt(((P[:, None, :] - P[None, :, :]) ** 2).sum(-1)) + 10 * np.eye(n)
        if n > 1 and D.min() < 1 - 1e-9:
            fail(cls + ":sites-closer-than-one", inp, ">= 1", float(D.min()))
    return latt, Ai, coords


# ----------------------------------------------------------------------------- histories on one object
# The property speaks about "the adjacency matrix / coordinates of a lattice": they must be a function of the
# lattice's defining data, not of what earlier callers did with previously returned arrays or with the objects
# they handed to the constructor.  (Python aliasing is not part of the Coq model; this is an oracle on the
# implementation.)  A history = construct with caller-owned mutable arguments, modify those arguments, then
# call the four observables repeatedly, writing into every returned array in place between the calls.
# Not part of a history: assigning to attributes of a lattice object (no lattice class offers a mutator).
def build_owned(d, own, variant=0):
    """like build(), but every constructor argument is a mutable object owned by the caller
    (shape/pbc lists, the adjacency array, the base lattice); they are collected in `own`.
    variant 1: the adjacency array of a customised lattice is handed over as a bool array (the dtype it is
    stored in, so that a no-copy conversion in the constructor would keep the caller's array)"""
    import qib.lattice as ql

    def keep(what, x):
        own.append((what, x))
        return x
    k = d[0]
    if k in ("int", "tri"):
        cls = ql.IntegerLattice if k == "int" else ql.TriangularLattice
        return cls(keep("shape", list(d[1])), pbc=keep("pbc", [bool(b) for b in d[2]]))
    if k == "brick":
        return ql.BrickLattice(keep("shape", [d[1], d[2]]), pbc=False, delete=bool(d[4]), convention=conv(d[3]))
    if k == "hex":
        return ql.HexagonalLattice(keep("shape", [d[1], d[2]]), pbc=False, convention=conv(d[3]))
    if k == "ofc":
        return ql.OddFaceCenteredLattice(keep("shape", [d[1], d[2]]), pbc=keep("pbc", [bool(d[3]), bool(d[4])]))
    if k == "full":
        return ql.FullyConnectedLattice(keep("shape", list(d[1])))
    if k == "custom":
        M = custom_array(d)
        return ql.CustomizedLattice(keep("shape", list(d[1])), keep("adj", np.array(M != 0) if variant else np.array(M)))
    if k == "layer":
        return ql.LayeredLattice(keep("base", build_owned(d[1], own, variant)), d[2])
    raise ValueError(k)


def has_custom(d):
    return d[0] == "custom" or (d[0] == "layer" and has_custom(d[1]))


def scribble(x, mode=0):
    """write into a returned value in place if it is mutable; returns True if something was written"""
    if isinstance(x, np.ndarray):
        if not x.flags.writeable or x.size == 0:
            return False
        try:
            if mode % 3 == 0:
                x[...] = (np.asarray(x) == 0)              # complement: ones on the diagonal, links swapped
            elif mode % 3 == 1:
                if x.ndim == 2:
                    x[np.tril_indices(x.shape[0], 0, x.shape[1])] = 0   # "keep the upper triangle"
                np.multiply(x, 2, out=x, casting="unsafe")
                x.flat[0] = 1
            else:
                x[...] = 0
                x.flat[-1] = 1
        except (ValueError, TypeError):
            return False
        return True
    if isinstance(x, list):
        x[:] = [(not v) if isinstance(v, bool) else v + 1 for v in x if isinstance(v, (bool, int))] + [2]
        return True
    if isinstance(x, tuple):
        return any([scribble(v, mode) for v in x if isinstance(v, (np.ndarray, list))])
    return False


def observe(latt):
    """(nsites, adjacency as int array copy, coordinates, indices of those coordinates); arrays are returned too
    so that the caller can write into them"""
    n = int(latt.nsites)
    A = latt.adjacency_matrix()
    coords = [latt.index_to_coord(i) for i in range(n)]
    back = []
    for c in coords:
        r = latt.coord_to_index(c)
        back.append(None if r is None else int(r))
    snap = (n, np.array(A).astype(int), [tuple(float(v) for v in np.asarray(c, dtype=float).reshape(-1)) for c in coords], back)
    return snap, A, coords


def snap_diff(a, b):
    """name of the first observable in which two snapshots differ, or None"""
    if a[0] != b[0]:
        return "nsites"
    if a[1].shape != b[1].shape or not np.array_equal(a[1], b[1]):
        return "adjacency_matrix"
    if a[2] != b[2]:
        return "index_to_coord"
    if a[3] != b[3]:
        return "coord_to_index"
    return None


HIST_SIG = {"ctor": "changed-by-modifying-a-constructor-argument-afterwards", "repeat": "differs-between-identical-calls",
            "write": "changed-by-in-place-modification-of-an-earlier-result"}
HIST_RAISE = {"ctor": "modifying-a-constructor-argument", "repeat": "an-identical-earlier-call",
              "write": "in-place-modification-of-an-earlier-result"}


def history_oracle(ctx, d, fail=None):
    for variant in ((0, 1) if has_custom(d) else (0,)):
        history_oracle1(ctx, d, fail, variant)


def history_oracle1(ctx, d, fail, variant):
    cls = CLASSNAME[d[0]]
    inp = {"lattice": d, "history": "construct; modify constructor arguments; repeat { observe; write into returned arrays }"}
    fail = fail or ctx.fail
    try:
        ref, _, _ = observe(build(d))          # fresh object, first calls, nothing modified
    except Exception:
        return                                 # refused by the constructor / reported by oracle()
    own = []
    try:
        latt = build_owned(d, own, variant)
    except Exception as e:
        # lists refused where tuples are accepted: not a matter of this property; go on with tuples
        ctx.count("history:list-arguments-refused")
        own = []
        latt = build(d)

    def look(kind, what):
        try:
            s, A, co = observe(latt)
        except Exception as e:
            fail(cls + ":raises-after-" + HIST_RAISE[kind], inp, "same results as a fresh lattice", repr(e))
            return None
        df = snap_diff(ref, s)
        if df is not None:
            fail(cls + ":" + df + "-" + HIST_SIG[kind], inp, "results of a fresh %s of the same defining data" % cls,
                 {"differs": df, "after": what, "adjacency": s[1].tolist() if s[1].size <= 64 else "..."})
            return None
        return s, A, co

    # 1. constructor arguments owned by the caller, modified after construction
    for what, x in own:
        if what == "base":
            # the only way to reach into a base lattice through its interface: arrays it hands out
            try:
                scribble(x.adjacency_matrix(), 0)
                for i in range(min(int(x.nsites), 3)):
                    scribble(x.index_to_coord(i), 0)
            except Exception:
                pass
        else:
            scribble(x, 0)
    r = look("ctor", "in-place modification of " + ", ".join(sorted({w for w, _ in own})))
    if r is None:
        return
    # 2. repeated calls without interference, then with in-place writes into everything returned
    r2 = look("repeat", "a second identical call")
    if r2 is None:
        return
    wrote = False
    for mode in range(3):
        _, A, co = r2
        wrote |= scribble(A, mode)
        for c in co:
            wrote |= scribble(c, mode)
        r2 = look("write", "writing into the arrays returned by the previous calls (pattern %d)" % mode)
        if r2 is None:
            return
    if wrote:
        ctx.count("history:wrote-into-returned-array")
    # 3. the geometric reference on the used object, and on a fresh object constructed after all of this
    #    (only if a lattice without history passes it: otherwise the same defect would be reported three times)
    plain = []
    oracle(ctx, d, fail=lambda *a: plain.append(a))
    if plain:
        return
    oracle(ctx, d, fail=fail, latt=latt, tag=":after-in-place-modification-of-earlier-results")
    try:
        fresh = build(d)
        s, _, _ = observe(fresh)
    except Exception as e:
        fail(cls + ":fresh-lattice-raises-after-history-on-another-object", inp, "independent objects", repr(e))
        return
    df = snap_diff(ref, s)
    if df is not None:
        fail(cls + ":%s-of-a-fresh-lattice-changed-by-in-place-modification-of-another-object's-result" % df, inp,
             "lattice objects do not share state", {"differs": df})
        return
    oracle(ctx, d, fail=fail, latt=fresh, tag=":fresh-lattice-after-history-on-another-object")


# ----------------------------------------------------------------------------- case generation
BIG2 = [(6, 6), (6, 7), (7, 6), (7, 7), (1, 8), (8, 1), (1, 9), (9, 1), (8, 6), (2, 9), (9, 2), (8, 8)]


def box(shape, lo=-1, extra=1):
    return itertools.product(*[range(lo, n + extra) for n in shape])


def families(ctx):
    """list of lattice descriptors"""
    T = ctx.thorough
    out = []
    m3 = 5 if T else 3
    shapes = [()]
    for nd, mx in ((1, 6 if T else 5), (2, 5), (3, m3)):
        shapes += list(itertools.product(range(1, mx + 1), repeat=nd))
    for sh in shapes:
        for pbc in itertools.product((False, True), repeat=len(sh)):
            out.append(["int", list(sh), list(pbc)])
            if len(sh) <= 2:
                out.append(["tri", list(sh), list(pbc)])
    m2 = 6 if T else 5
    for s0 in range(1, m2 + 1):
        for s1 in range(1, m2 + 1):
            for up in (True, False):
                out.append(["hex", s0, s1, up])
                for dele in (False, True):
                    out.append(["brick", s0, s1, up, dele])
            for p0 in (False, True):
                for p1 in (False, True):
                    out.append(["ofc", s0, s1, p0, p1])
    # fixed larger shapes beyond the exhaustive box: every odd/even mix of both extents at size >= 6, 1 x N, N x 1
    for (s0, s1) in BIG2:
        for up in (True, False):
            out.append(["hex", s0, s1, up])
            for dele in (False, True):
                out.append(["brick", s0, s1, up, dele])
        for p0 in (False, True):
            for p1 in (False, True):
                if not ((p0 and s0 % 2) or (p1 and s1 % 2)):
                    out.append(["ofc", s0, s1, p0, p1])
        for pbc in itertools.product((False, True), repeat=2):
            out.append(["tri", [s0, s1], list(pbc)])
    for sh in [(11,), (1, 9), (9, 1), (6, 7), (2, 3, 7), (7, 3, 2), (1, 6, 1), (2, 2, 2, 3)]:
        pats = {tuple(False for _ in sh), tuple(True for _ in sh), tuple(k % 2 == 0 for k in range(len(sh))),
                tuple(k % 2 == 1 for k in range(len(sh)))}
        for pbc in sorted(pats):
            out.append(["int", list(sh), list(pbc)])
    for sh in [(1,), (2,), (5,), (2, 3), (3, 1, 2), (1, 1), ()] + ([(7,), (2, 2, 2)] if T else []):
        out.append(["full", list(sh)])
    rng = ctx.rng
    out += custom_families(rng, T)
    bases = [["int", [3], [True]], ["int", [2, 2], [False, True]], ["int", [1, 3], [False, False]], ["tri", [2, 3], [False, False]],
             ["tri", [3, 3], [True, False]], ["brick", 1, 2, True, False], ["brick", 2, 1, False, True],
             ["hex", 1, 2, True], ["hex", 2, 2, False], ["ofc", 3, 3, False, False], ["ofc", 2, 4, True, False],
             ["full", [3]], ["int", [], []],
             ["custom", [3], [[0, 1, 0], [1, 0, 1], [0, 1, 0]]], ["custom", [2, 2], [[0, 1, 1, 0], [1, 0, 0, 2], [1, 0, 0, 0], [0, 2, 0, 0]]]]
    if T:
        bases += [["int", [2, 2, 2], [True, False, True]], ["hex", 2, 3, True], ["brick", 3, 2, True, True],
                  ["ofc", 4, 3, True, False], ["layer", ["int", [2], [False]], 2]]
    for k, b in enumerate(bases):
        for nl in (1, 2, 3) + ((4, 5) if k in (0, 1, 6, 9) else ()):
            out.append(["layer", b, nl])
    # a seeded handful of larger lattices (beyond the exhaustive box)
    nbig = 40 if T else 14
    for _ in range(nbig):
        kind = rng.choice(["int", "int", "tri", "hex", "brick", "ofc"])
        if kind == "int":
            nd = rng.choice([1, 2, 3, 4])
            while True:
                sh = [rng.randint(1, {1: 12, 2: 9, 3: 7, 4: 4}[nd]) for _ in range(nd)]
                if int(np.prod(sh)) <= 220:
                    break
            out.append(["int", sh, [rng.random() < 0.5 for _ in sh]])
        elif kind == "tri":
            out.append(["tri", [rng.randint(1, 9), rng.randint(1, 9)], [rng.random() < 0.5, rng.random() < 0.5]])
        elif kind == "hex":
            out.append(["hex", rng.randint(1, 8), rng.randint(1, 8), rng.random() < 0.5])
        elif kind == "brick":
            out.append(["brick", rng.randint(1, 8), rng.randint(1, 8), rng.random() < 0.5, rng.random() < 0.5])
        else:
            p0, p1 = rng.random() < 0.5, rng.random() < 0.5
            s0, s1 = rng.randint(1, 9), rng.randint(1, 9)
            if p0:
                s0 += s0 % 2
            if p1:
                s1 += s1 % 2
            out.append(["ofc", s0, s1, p0, p1])
    return out


def custom_families(rng, T):
    """customised lattices from weighted / signed / float / bool / imaginary-weight matrices in several dtypes and layouts:
    symmetric; symmetric pattern with unequal weights (M[i,j] = 2, M[j,i] = 3: the pattern is what counts); pattern not symmetric;
    one non-zero diagonal entry; diagonal entries that CANCEL in a sum (+2, -2 / +1, +1, -2 / the whole diagonal summing to 0);
    a non-zero diagonal next to a non-symmetric pattern; wrong shape.  The constructor may only accept what has a symmetric
    pattern and an entirely zero diagonal (then adjacency_matrix() is that pattern); whatever it accepts goes through the oracle."""
    out = []
    vals = [0, 0, 1, 1, -3, 2, -1, 5]
    k_form = 0
    for sh in [(1,), (2,), (3,), (2, 2), (2, 3), (1, 2, 2)] + ([(6,), (3, 3), (8,)] if T else []):
        n = int(np.prod(sh))
        variants = ["sym", "sym", "weights-asym", "pattern-asym", "diag-one", "diag-cancel2", "diag-cancel3", "diag-all-cancel",
                    "diag-and-asym", "negative-only"]
        for variant in variants:
            M = [[0] * n for _ in range(n)]
            for i in range(n):
                for j in range(i + 1, n):
                    v = rng.choice(vals)
                    if variant == "negative-only" and v:
                        v = -abs(v)
                    M[i][j] = M[j][i] = v
            if variant == "weights-asym":
                if n < 2:
                    continue
                i, j = rng.sample(range(n), 2)
                M[i][j], M[j][i] = 2, 3
            if variant in ("pattern-asym", "diag-and-asym"):
                if n < 2:
                    continue
                i, j = rng.sample(range(n), 2)
                M[i][j], M[j][i] = (0, 4) if M[i][j] else (1, 0)
            if variant in ("diag-one", "diag-and-asym"):
                k = rng.randrange(n)
                M[k][k] = rng.choice([1, -1, 2])
            if variant == "diag-cancel2":
                if n < 2:
                    continue
                i, j = rng.sample(range(n), 2)
                M[i][i], M[j][j] = 2, -2
            if variant == "diag-cancel3":
                if n < 3:
                    continue
                i, j, k = rng.sample(range(n), 3)
                M[i][i], M[j][j], M[k][k] = 1, 1, -2
            if variant == "diag-all-cancel":
                if n < 2:
                    continue
                dg = [rng.choice([1, 2, 3]) for _ in range(n - 1)]
                for i, v in enumerate(dg):
                    M[i][i] = v
                M[n - 1][n - 1] = -sum(dg)
            # every variant in two forms, rotating through the dtype / layout list (float: quarter-integer weights)
            for _ in range(2):
                form = CUSTOM_FORMS[k_form % len(CUSTOM_FORMS)]
                k_form += 1
                if form == "float":
                    out.append(["custom", list(sh), [[v / 4.0 for v in r] for r in M], "float"])
                elif form == "int":
                    out.append(["custom", list(sh), M])
                else:
                    out.append(["custom", list(sh), M, form])
        # wrong shape: one row/column too many, a vector
        out.append(["custom", list(sh), [[0] * (n + 1) for _ in range(n + 1)]])
    return out


# ----------------------------------------------------------------------------- weight magnitude as a generator dimension
SUB64 = "0x0.0000000000001p-1022"          # 5e-324, the smallest binary64 subnormal
W_MAGS = {
    # tiny ... huge, per dtype (all exactly representable there); 3e-10 / 2e-9 / 2^-27 lie just below numpy's default atol 1e-8
    "float64": ["0x1p-30", "0x1.49da7e361ce4cp-32", "0x1.12e0be826d695p-29", "0x1p-27", "0x1p-60", "0x1p-200", "0x1p-1000", "0x1p-1022",
                SUB64, "0x1p+100", "0x1p+1000", "0x1.fffffffffffffp+1023", "inf"],
    "float32": ["0x1p-30", "0x1p-60", "0x1p-126", "0x1p-149", "0x1p+100", "0x1.fffffep+127", "inf"],
    "float16": ["0x1p-14", "0x1p-24", "0x3p-24", "0x1.ffcp+15", "inf"],
    "longdouble": ["0x1p-30", "0x1p-200", SUB64, "0x1p+1000"],
    "complex128": [[0, "0x1p-30"], [0, "0x1p-60"], [0, SUB64], ["0x1p-200", 0], ["0x1p-60", "-0x1p-60"], [1, "0x1p-60"], [0, "0x1p+1000"]],
    "complex64": [[0, "0x1p-30"], [0, "0x1p-149"], ["0x1p-126", 0], [1, "0x1p-100"], [0, "0x1p+100"]],
    "object": ["0x1p-30", "0x3p-70", "0x1p-1074", "0x1p-2000", "0x1p+100", "0x1p+1000", "0x1p+2000"],
}
W_HUGE = {"float64": "0x1p+1000", "float32": "0x1p+100", "float16": "0x1p+15", "longdouble": "0x1p+1000", "complex128": "0x1p+1000",
          "complex64": "0x1p+100", "object": "0x1p+1000"}
W_VARIANTS = ["one-sided", "one-sided-negzero", "sign-flip", "unequal-unit", "unequal-other", "symmetric", "diag", "diag-cancel", "negzero"]
W_VARIANTS_C = ["conj-pair", "imag-one-sided"]
W_CONTEXTS = ["zero", "unit", "huge", "same"]
W_SHAPES = [(2,), (4,), (3,), (2, 2), (2, 3), (1, 2, 2), (5,)]


def w_mags(dt):
    mags = list(W_MAGS[dt])
    if dt == "longdouble" and np.finfo(np.longdouble).machep == -63:
        # x87 extended precision: magnitudes far beyond the binary64 range, the smallest extended subnormal
        mags += ["0x1p-1074", "0x1p-5000", "0x1p-16445", "0x1p+5000"]
    return mags


def weight_matrix(rng, n, w, variant, context, dt, other):
    """rows of exact entries: a symmetric context (no other couplings / O(1) weights / huge weights / the magnitude itself), with the
    entry w of the magnitude under test placed according to `variant`"""
    M = [[0] * n for _ in range(n)]
    cw = {"zero": [0], "unit": [1, -1, 2, -3, 0], "huge": [W_HUGE[dt], w_neg(W_HUGE[dt]), 0], "same": [w, w_neg(w), 0]}[context]
    for i in range(n):
        for j in range(i + 1, n):
            M[i][j] = M[j][i] = rng.choice(cw)
    if n >= 2:
        i, j = rng.sample(range(n), 2)
    else:
        i = j = 0
    k = rng.randrange(n)
    if variant == "one-sided":               # the transposed entry is exactly 0
        M[i][j], M[j][i] = w, 0
    elif variant == "one-sided-negzero":     # ... is -0.0
        M[i][j], M[j][i] = w, "-0x0.0p+0"
    elif variant == "sign-flip":
        M[i][j], M[j][i] = w, w_neg(w)
    elif variant == "unequal-unit":          # 1 against the magnitude: the pattern is symmetric
        M[i][j], M[j][i] = w, 1
    elif variant == "unequal-other":         # two different magnitudes
        M[i][j], M[j][i] = w, other
    elif variant == "symmetric":
        M[i][j] = M[j][i] = w
    elif variant == "diag":                  # a coupling of that magnitude on the diagonal
        M[k][k] = w
    elif variant == "diag-cancel":           # +w and -w on the diagonal
        M[i][i], M[j][j] = w, w_neg(w)
    elif variant == "negzero":               # -0.0 on the diagonal and against +0: no link, no diagonal entry
        M[i][j] = M[j][i] = w
        for a in range(n):
            if rng.random() < 0.6:
                M[a][a] = "-0x0.0p+0"
        if n >= 3:
            a, b = rng.choice([(a, b) for a in range(n) for b in range(n) if a != b and {a, b} != {i, j}])
            M[a][b], M[b][a] = "-0x0.0p+0", rng.choice([0, "-0x0.0p+0"])
        else:
            M[k][k] = "-0x0.0p+0"
    elif variant == "conj-pair":             # w against its complex conjugate
        M[i][j], M[j][i] = w, w_conj(w)
    elif variant == "imag-one-sided":        # the two directions differ only by the (tiny) imaginary part: real part 1 / 0
        re_ = rng.choice([0, 1])
        M[i][j], M[j][i] = [re_, w[1] if w_nonzero(w[1]) else w[0]], re_
    else:
        raise ValueError(variant)
    if n < 2 and variant not in ("diag", "negzero"):
        return None
    return M


def weight_families(rng, T):
    """WEIGHT MAGNITUDE as a generator dimension for customised lattices: (variant, descriptor) pairs, descriptor form "w:<dtype>:<layout>".
    Entries from the smallest subnormal to the largest finite number and inf of every float dtype (and beyond the binary64 range for
    extended precision and Fraction / Python int objects), complex numbers with a tiny imaginary part; one-sided (transposed entry
    exactly 0 or -0.0), sign-flipped, against 1, against another magnitude, symmetric, on the diagonal (alone / cancelling), -0.0; in a
    context of no / O(1) / huge / equally tiny symmetric couplings; C / Fortran / transposed-view arrays and nested lists.
    float64: the full product magnitude x variant x context; the other dtypes: magnitude x variant with the context rotating
    (thorough: the full product everywhere)."""
    out = []
    k = 0
    for dt in W_DTYPES:
        mags = w_mags(dt)
        variants = W_VARIANTS + (W_VARIANTS_C if dt.startswith("complex") else [])
        for mi, w in enumerate(mags):
            other = mags[(mi + 1) % len(mags)]
            if other == "inf" or w == "inf":
                other = mags[0] if w != mags[0] else mags[1]
            for vi, variant in enumerate(variants):
                ctxs = W_CONTEXTS if (T or dt == "float64") else [W_CONTEXTS[(mi + vi) % len(W_CONTEXTS)]]
                for context in ctxs:
                    k += 1
                    sh = W_SHAPES[k % len(W_SHAPES)]
                    n = int(np.prod(sh))
                    M = weight_matrix(rng, n, w, variant, context, dt, other)
                    if M is None:
                        continue
                    layout = ("C", "F", "C", "T", "C")[k % 5]
                    out.append((variant, ["custom", list(sh), M, "w:%s:%s" % (dt, layout)]))
        # one site: a tiny diagonal entry / -0.0 is the whole matrix
        out.append(("diag", ["custom", [1], [[mags[1]]], "w:%s:C" % dt]))
        out.append(("negzero", ["custom", [1, 1], [["-0x0.0p+0"]], "w:%s:C" % dt]))
        # nested lists of scalars of that dtype (Python floats / complex / Fraction objects, numpy scalars)
        for variant in ("symmetric", "one-sided", "diag", "unequal-unit"):
            M = weight_matrix(rng, 3, mags[0], variant, "unit", dt, mags[1])
            out.append((variant, ["custom", [3], M, "w:%s:list" % dt]))
    return out


def weight_sweep(ctx):
    """every lattice of weight_families through the oracle (0/1, symmetric, zero diagonal, ones = the exact non-zero pattern of the
    given couplings) and, when accepted, the history oracle.  The constructor may refuse (counted); what it accepts must pass."""
    nall = nacc = 0
    for variant, d in weight_families(ctx.rng, ctx.thorough):
        weight_array(d)                     # descriptor self-check: every entry exact in its dtype (BadDescriptor = generator bug)
        dt, layout = w_parse_form(d[3])
        P = custom_pattern(d)
        valid = bool(np.array_equal(P, P.T) and not P.diagonal().any())
        nall += 1
        ctx.count("weights:dtype=" + dt)
        ctx.count("weights:layout=" + layout)
        hits = []

        def fail(sig, *a):
            hits.append(sig)
            ctx.fail(sig, *a)
        res = oracle(ctx, d, fail=fail)
        if res is None:
            try:
                build(d)
                continue                    # constructed, adjacency_matrix() failed: reported by the oracle
            except Exception as e:
                ctx.count("weights:%s:refused" % variant)
                if not isinstance(e, ValueError):
                    ctx.count("weights:refused-with-%s:layout=%s" % (type(e).__name__, layout))
                if valid:
                    ctx.count("CustomizedLattice:refused-a-symmetric-zero-diagonal-matrix" + (":nested-list" if layout == "list" else ""))
            continue
        nacc += 1
        ctx.count("weights:%s:accepted" % variant)
        if not valid and not hits:
            # cannot happen while the oracle compares with the exact pattern; kept as a safety net
            ctx.fail("CustomizedLattice:accepted-a-matrix-whose-nonzero-pattern-is-not-symmetric-with-zero-diagonal", {"lattice": d},
                     "ValueError", "a lattice")
        history_oracle(ctx, d)
        ctx.evaluations += 1
        ctx.nontriv({"lattice": d, "op": "oracle (weights)"})
    ctx.count("weight-lattices", nall)
    ctx.count("weight-lattices-accepted", nacc)


LONG_EXTENTS = [13, 14, 16, 21, 27, 33, 40]


def long_families(ctx):
    """LONG THIN lattices of every class (one extent up to 40, the other(s) 1-3): thresholds in index arithmetic (digit counts,
    float rounding of sqrt(3)-scaled coordinates, parity patterns repeating with period 2-4) only show beyond the exhaustive
    box.  Oracle only (numpy reference, no Coq case, no history)."""
    T = ctx.thorough
    longs = list(range(10, 41)) if T else LONG_EXTENTS
    out = []
    for n in longs:
        for w in ((1, 2, 3) if T or n in (13, 40) else (1, 2) if n % 2 else (3,)):
            for (s0, s1) in ((n, w), (w, n)):
                for up in (True, False):
                    out.append(["hex", s0, s1, up])
                    if T or w <= 2:
                        out.append(["brick", s0, s1, up, (n + w) % 2 == 0])
                        if T:
                            out.append(["brick", s0, s1, up, (n + w) % 2 == 1])
                for p0 in (False, True):
                    for p1 in (False, True):
                        if not ((p0 and s0 % 2) or (p1 and s1 % 2)) and (T or p0 == p1 or w == 2):
                            out.append(["ofc", s0, s1, p0, p1])
                for pbc in itertools.product((False, True), repeat=2):
                    if T or w != 2:
                        out.append(["tri", [s0, s1], list(pbc)])
                    if T or w == 2:
                        out.append(["int", [s0, s1], list(pbc)])
        for p in (False, True):
            out.append(["int", [n], [p]])
            out.append(["tri", [n], [p]])
        out.append(["int", [1, n, 1], [n % 2 == 0, True, False]])
        out.append(["int", [2, 1, n], [False, n % 2 == 1, True]])
    for n in (13, 40) if not T else (13, 17, 32, 40, 64):
        out.append(["full", [n]])
        out.append(["full", [1, n]])
        path = [[1 if abs(i - j) == 1 else 0 for j in range(n)] for i in range(n)]
        out.append(["custom", [n], path])
        out.append(["custom", [n, 1], path, "bool"])
        out.append(["custom", [1, n], [[-v / 4.0 for v in r] for r in path], "float"])
        out.append(["layer", ["int", [2], [False]], n])
        out.append(["layer", ["hex", 1, 1, True], n if n <= 20 else 20])
        out.append(["layer", ["int", [n], [True]], 2])
        out.append(["layer", ["hex", n, 1, False], 2])
        out.append(["layer", ["custom", [n], path], 3])
    return out


ARGFORM_BASES = [["int", [2, 3], [False, False]], ["int", [3, 2], [True, True]], ["int", [4], [True]], ["tri", [3, 3], [True, True]],
                 ["tri", [2, 3], [False, False]], ["ofc", 2, 4, True, True], ["ofc", 3, 3, False, False], ["hex", 2, 3, True],
                 ["hex", 14, 1, True], ["hex", 1, 14, False], ["brick", 2, 3, True, False], ["brick", 3, 2, False, True],
                 ["full", [4]], ["full", [2, 3]], ["custom", [3], [[0, 1, 0], [1, 0, 2], [0, 2, 0]]]]


def argform_variants(d):
    """the same lattice requested through other argument forms: shape as list / numpy array / numpy integers, scalar pbc,
    defaults omitted, FullyConnectedLattice(int), coordinates / indices handed back as lists, arrays, numpy integers"""
    import qib.lattice as ql
    k = d[0]
    out = []
    if k in ("int", "tri"):
        cls = ql.IntegerLattice if k == "int" else ql.TriangularLattice
        sh, pbc = d[1], [bool(b) for b in d[2]]
        out.append(("shape-ndarray", lambda: cls(np.array(sh), pbc=tuple(pbc))))
        out.append(("shape-numpy-ints", lambda: cls(tuple(np.int64(v) for v in sh), pbc=np.array(pbc))))
        if all(pbc) or not any(pbc):
            out.append(("pbc-scalar", lambda: cls(tuple(sh), pbc=bool(pbc[0]) if pbc else False)))
        if not any(pbc):
            out.append(("pbc-omitted", lambda: cls(list(sh))))
    elif k == "ofc":
        sh, pbc = [d[1], d[2]], [bool(d[3]), bool(d[4])]
        out.append(("shape-ndarray", lambda: ql.OddFaceCenteredLattice(np.array(sh), pbc=list(pbc))))
        if pbc[0] == pbc[1]:
            out.append(("pbc-scalar", lambda: ql.OddFaceCenteredLattice(tuple(sh), pbc=pbc[0])))
        if not any(pbc):
            out.append(("pbc-omitted", lambda: ql.OddFaceCenteredLattice(tuple(sh))))
    elif k == "hex":
        out.append(("shape-ndarray", lambda: ql.HexagonalLattice(np.array([d[1], d[2]]), convention=conv(d[3]))))
        out.append(("shape-numpy-ints", lambda: ql.HexagonalLattice([np.int64(d[1]), np.int64(d[2])], pbc=False, convention=conv(d[3]))))
        if d[3]:
            out.append(("convention-omitted", lambda: ql.HexagonalLattice((d[1], d[2]))))
    elif k == "brick":
        out.append(("shape-ndarray", lambda: ql.BrickLattice(np.array([d[1], d[2]]), delete=bool(d[4]), convention=conv(d[3]))))
        if d[3] and not d[4]:
            out.append(("defaults-omitted", lambda: ql.BrickLattice((d[1], d[2]))))
    elif k == "full":
        out.append(("shape-ndarray", lambda: ql.FullyConnectedLattice(np.array(d[1]))))
        if len(d[1]) == 1:
            out.append(("shape-int", lambda: ql.FullyConnectedLattice(int(d[1][0]))))
    elif k == "custom":
        out.append(("shape-ndarray", lambda: ql.CustomizedLattice(np.array(d[1]), custom_array(d))))
    return out


def argform_oracle(ctx, d, fail=None):
    """results must not depend on the FORM in which equal arguments are handed over"""
    cls = CLASSNAME[d[0]]
    fail = fail or ctx.fail
    try:
        base = build(d)
        ref, _, coords = observe(base)
    except Exception:
        return
    for name, mk in argform_variants(d):
        inp = {"lattice": d, "argument_form": name}
        try:
            latt = mk()
        except Exception as e:
            # an argument form the constructor refuses is no lattice: nothing claimed
            ctx.count("argform:%s:refused" % name)
            continue
        ctx.count("argform:" + name)
        try:
            snp, _, _ = observe(latt)
        except Exception as e:
            fail(cls + ":raises-for-argument-form:" + name, inp, "same results as with tuples of Python ints", repr(e)[:200])
            continue
        df = snap_diff(ref, snp)
        if df is not None:
            fail(cls + ":" + df + "-depends-on-argument-form:" + name, inp, "same results as with tuples of Python ints", {"differs": df})
    # coordinates / indices handed back in other containers and integer types
    n = ref[0]
    for i in sorted({0, n // 2, n - 1} if n else set()):
        c = coords[i]
        forms = [("coord-list", lambda: list(c)), ("coord-ndarray", lambda: np.array(c))]
        if all(isinstance(v, (int, np.integer)) for v in c):
            forms.append(("coord-numpy-ints", lambda: tuple(np.int64(v) for v in c)))
        for name, mk in forms:
            try:
                r = base.coord_to_index(mk())
            except Exception as e:
                ctx.count("argform:%s:refused" % name)
                continue
            ctx.count("argform:" + name)
            if r is None or int(r) != i:
                fail(cls + ":coord_to_index-depends-on-argument-form:" + name, {"lattice": d, "argument_form": name, "i": i}, i,
                     None if r is None else int(r))
        try:
            c2 = base.index_to_coord(np.int64(i))
            if tuple(float(v) for v in np.asarray(c2, dtype=float).reshape(-1)) != ref[2][i]:
                fail(cls + ":index_to_coord-depends-on-argument-form:index-numpy-int", {"lattice": d, "argument_form": "index-numpy-int", "i": i},
                     ref[2][i], repr(c2))
            ctx.count("argform:index-numpy-int")
        except Exception:
            ctx.count("argform:index-numpy-int:refused")


def is_nontrivial(d):
    k = d[0]
    if k in ("int", "tri", "full"):
        return int(np.prod(d[1])) > 1 if len(d[1]) else False
    return True


def run(ctx):
    import qib
    ctx.trusted.append(
        "C14: the adjacency constructions (np.roll pairing, open-boundary cuts, brick parity filter, np.delete / row-column "
        "zeroing of the surplus points, face-centre loop with its counter, np.block of the layered lattice, constructor "
        "checks of the customised lattice) are hand-modelled in Qib.Lattice.LatModel and tied by the exhaustive "
        "correspondence run; np.roll/reshape/slicing/unravel_index/ravel_multi_index/delete/block are assumed to be the "
        "mathematical functions stated in the header of LatModel.v")
    ctx.trusted.append(
        "C14: nsites, _shape_square, index_to_coord, coord_to_index, edge_to_odd_face_index, the brick link filter and the "
        "hexagonal position formulas are regenerated from the source by gen/lattice.py and proved equal to the model's "
        "functions in coq/props/C14.v; half-integer and sqrt(3)/2-scaled coordinates are represented exactly "
        "(doubled / as integer multiples), float rounding in HexagonalLattice.coord_to_index (tolerance 1e-8) is read as exactness")
    ctx.trusted.append(
        "C14: object state / aliasing (a lattice handing out or keeping a reference to an array the caller can write to) is "
        "not modelled in Coq; it is covered by the history oracle of checks/C14.py on every generated lattice (testing, not proof). "
        "The np.roll loops of IntegerLattice / TriangularLattice / the vertex part of OddFaceCenteredLattice, like the other "
        "adjacency bodies, are matched against the source text the model was written from (gen/lattice.py, fail-closed)")
    ctx.assumes.append("extents are positive integers; BrickLattice/HexagonalLattice convention is a member of ShiftedLatticeConvention; "
                       "coordinates handed to coord_to_index of the 2-d classes are pairs")
    ctx.rules.append(
        "every lattice class, all shapes <= %s per axis (<= 3 axes for integer, <= 2 for triangular, 2-d classes <= %s x %s), "
        "all per-axis boundary combinations, both conventions, delete on/off, layered over every class with 1-3 (some bases 4-5) layers; "
        "plus fixed larger shapes (every odd/even mix at extents 6-9, 1 x N, N x 1 for the 2-d classes; integer lattices up to 4 axes) "
        "and a seeded handful of larger lattices (extents up to 12); every accepted lattice also goes through a history "
        "(caller-owned list/array constructor arguments modified after construction, three rounds of in-place writes into every "
        "returned array, then the geometric oracle on the used object and on a fresh one); index tables cover -1..nsites+1 and the coordinate box enlarged by one in every direction. "
        "non-trivial = lattice with more than one site" % ("5" if ctx.thorough else "5 (3 on 3 axes)", *(("6", "6") if ctx.thorough else ("5", "5"))))
    ctx.lib(["Lattice/LatCheck"] + PROOF_TARGETS)
    ctx.log("library built")
    try:
        import lattice as gen_lattice
        have_gen = True
    except ImportError:
        have_gen = False
    okgen = True
    if have_gen:
        okgen = ctx.translate("GenLattice", gen_lattice.generate)
    if os.path.exists(os.path.join(os.path.dirname(os.path.dirname(os.path.abspath(__file__))), "coq", "props", "C14.v")):
        if okgen:
            ctx.props()
        else:
            ctx.oblige("props:C14", "theorem", False, "not compiled: translator failed")

    ctx.log("translator + property theorems compiled")
    cases = []

    sampled = set()

    def add(t, desc, nt):
        cases.append((t, desc))
        if nt:
            ctx.nontriv(desc)
        # evidence samples: one non-trivial adjacency case per lattice class
        k = desc["lattice"][0]
        if nt and desc["op"] == "adjacency_matrix" and k not in sampled and len(t) > 120:
            sampled.add(k)
            ctx.sample(desc, cap=8)

    fams = families(ctx)
    for d in fams:
        cls = CLASSNAME[d[0]]
        ctx.count(cls)
        nt = is_nontrivial(d)
        has_model = modelled(d)
        L = term(d) if has_model else None
        if d[0] == "custom":
            ctx.count("custom_form=" + custom_form(d))
        res = oracle(ctx, d)
        if res is None:
            # the constructor refuses (odd periodic face-centred lattice, invalid customised matrix)
            try:
                build(d)
                continue
            except Exception:
                ctx.count(cls + ":refused")
                if d[0] == "custom":
                    # what may be refused: wrong shape, a non-symmetric pattern, a non-zero diagonal entry - nothing else
                    P = custom_pattern(d)
                    n0 = int(np.prod(d[1])) if len(d[1]) else 1
                    if P.shape == (n0, n0) and np.array_equal(P, P.T) and not P.diagonal().any():
                        ctx.count("CustomizedLattice:refused-a-symmetric-zero-diagonal-matrix")
                if has_model:
                    add("CAdj %s None" % L, {"lattice": d, "op": "adjacency_matrix"}, nt)
                continue
        latt, A, coords = res
        history_oracle(ctx, d)
        if not has_model:
            ctx.evaluations += 1
            if nt:
                ctx.nontriv({"lattice": d, "op": "oracle"})
            continue
        n = int(latt.nsites)
        add("CNs %s %s" % (L, ct.z(n)), {"lattice": d, "op": "nsites"}, nt)
        rows = [[int(j) for j in np.nonzero(A[i])[0]] for i in range(n)]
        add("CAdj %s (Some (%s, %s))" % (L, ct.z(A.shape[0]), ct.lst([zlist(r) for r in rows])),
            {"lattice": d, "op": "adjacency_matrix"}, nt)
        # index_to_coord table, incl. one index below and two above the range
        tab = []
        top = n + 2
        if d[0] == "ofc" and d[2] == 1:
            top = n          # division by zero beyond the range (no faces); Z.div is total
        if d[0] == "layer" and d[1][0] == "ofc" and d[1][2] == 1:
            top = n
        for i in range(-1, top):
            try:
                c = latt.index_to_coord(i)
                ent = ct.opt(zlist(enc_coord(d, c)))
            except Inexact as ex:
                ctx.fail(cls + ":coordinate-off-grid", {"lattice": d, "i": i}, "exact grid coordinate", str(ex))
                ent = "None"
            except Exception:
                ent = "None"
            tab.append(ct.pair(ct.z(i), ent))
        add("CI2C %s %s" % (L, ct.lst(tab)), {"lattice": d, "op": "index_to_coord"}, nt)
        # coord_to_index table
        cands = coord_candidates(ctx, d, latt, coords)
        tab = []
        for e in cands:
            try:
                r = latt.coord_to_index(dec_coord(d, e))
                v = "(Some None)" if r is None else "(Some (Some %s))" % ct.z(int(r))
            except Exception:
                v = "None"
            tab.append(ct.pair(zlist(e), v))
        add("CC2I %s %s" % (L, ct.lst(tab)), {"lattice": d, "op": "coord_to_index"}, nt)
        if d[0] == "ofc" and not (d[3] or d[4]):
            tab = []
            s0, s1 = d[1], d[2]
            for ix in range(-1, s0 + 1):
                for iy in range(-1, s1 + 1):
                    for (jx, jy) in ((ix + 1, iy), (ix - 1, iy), (ix, iy + 1), (ix, iy - 1), (ix, iy), (ix + 1, iy + 1), (ix + 2, iy)):
                        try:
                            r = ct.opt(ct.z(int(latt.edge_to_odd_face_index((ix, iy), (jx, jy)))))
                        except ValueError:
                            r = "None"
                        tab.append(ct.pair(ct.pair(ct.z(ix), ct.z(iy), ct.z(jx), ct.z(jy)), r))
            add("CEdge %s %s %s" % (ct.z(s0), ct.z(s1), ct.lst(tab)), {"lattice": d, "op": "edge_to_odd_face_index"}, nt)
            edge_oracle(ctx, d, latt, coords)

    # ---- long thin lattices of every class (numpy oracle only) and argument forms
    ctx.rules.append(
        "long thin lattices (oracle only): every class with one extent in %s and the other(s) 1-3 (hexagonal / brick in both conventions, "
        "face-centred with all admissible flags, triangular / integer with all flag pairs, 1-d and 3-d integer, fully connected, path-graph "
        "customised lattices in int / bool / float form, layered with up to 40 layers and over long bases); argument forms: shape as ndarray / "
        "numpy ints / list, scalar and omitted pbc, omitted convention / delete, FullyConnectedLattice(int), coordinates as list / ndarray / "
        "numpy ints, numpy index - results must equal those for tuples of Python ints; customised lattices: weighted / signed / float / bool / "
        "imaginary / int8 / Fortran / strided matrices, symmetric, unequal weights on a symmetric pattern, non-symmetric pattern, one non-zero "
        "diagonal entry, diagonal entries cancelling in a sum (+2,-2 / +1,+1,-2 / whole diagonal), wrong shape"
        % ("10..40" if ctx.thorough else LONG_EXTENTS))
    nlong = 0
    for d in long_families(ctx):
        nlong += 1
        ctx.count("long:" + CLASSNAME[d[0]])
        res = oracle(ctx, d)
        if res is None:
            try:
                build(d)
            except Exception as e:
                ctx.fail(CLASSNAME[d[0]] + ":constructor-refuses-a-long-lattice", {"lattice": d}, "a lattice", repr(e)[:200])
            continue
        ctx.evaluations += 1
        ctx.nontriv({"lattice": d, "op": "oracle (long)"})
        if d[0] == "ofc" and res[2] is not None and not (d[3] or d[4]):
            edge_oracle(ctx, d, res[0], res[2])
    ctx.count("long-lattices", nlong)
    for d in ARGFORM_BASES:
        argform_oracle(ctx, d)
    ctx.rules.append(
        "customised lattices, weight magnitude (oracle + history, exact entries, no Coq case): couplings 2^-30, 3e-10, 2e-9, 2^-27, 2^-60, 2^-200, "
        "2^-1000, 2^-1022, 5e-324, 2^100, 2^1000, max double, inf (float64; the representable analogues for float32 / float16 / longdouble incl. "
        "2^-5000 and the smallest extended subnormal / complex128 / complex64 with tiny imaginary or real part / Fraction and Python-int objects "
        "down to 2^-2000 and up to 2^2000) x placement (one-sided against 0 / against -0.0, sign-flipped pair, against 1, against another "
        "magnitude, symmetric, on the diagonal alone / cancelling, -0.0 entries, conjugate pair, directions differing in a tiny imaginary part) "
        "x context (no / O(1) / huge / equally tiny symmetric couplings) x layout (C, Fortran, transposed view; nested lists); reference = "
        "non-zero pattern of the exact entries; a refusal is counted, an accepted matrix must give exactly that pattern, symmetric, zero diagonal")
    weight_sweep(ctx)
    ctx.log("implementation run and oracles done: %d cases" % len(cases))
    dis = ctx.cases("lattice", HEADER, cases)
    for i, dsc in dis[:8]:
        ctx.log("model/impl disagree on", dsc)
    ctx.exhaustive = {"domain": "see rule", "lattices": len(fams)}
    known = ctx.known_sigs()
    if ctx.broken and not [f for f in ctx.failing if f["sig"] not in known]:
        # an obligation (translator / theorem / correspondence) is broken but no lattice of the standard
        # families violates the property: look for a failing input on a deeper domain before giving up
        ctx.log("broken obligation without failing input: deep oracle sweep")
        seen = {repr(d) for d in fams}
        nd = 0
        for d in deep_families():
            if repr(d) in seen:
                continue
            nd += 1
            res = oracle(ctx, d)
            if res is not None and d[0] == "ofc" and res[2] is not None and not (d[3] or d[4]):
                edge_oracle(ctx, d, res[0], res[2])
        ctx.count("deep-sweep-lattices", nd)
        ctx.log("deep sweep: %d further lattices, %d failing signatures" % (nd, len(ctx.failing)))


def deep_families():
    """oracle-only domain used when an obligation is broken and the standard families show no violation"""
    M = 12
    for s0 in range(1, M + 1):
        for s1 in range(1, M + 1):
            for up in (True, False):
                yield ["hex", s0, s1, up]
                for dele in (False, True):
                    yield ["brick", s0, s1, up, dele]
            for p0 in (False, True):
                for p1 in (False, True):
                    if not ((p0 and s0 % 2) or (p1 and s1 % 2)):
                        yield ["ofc", s0, s1, p0, p1]
            for pbc in itertools.product((False, True), repeat=2):
                yield ["tri", [s0, s1], list(pbc)]
                if s0 <= 9 and s1 <= 9:
                    yield ["int", [s0, s1], list(pbc)]
    for n in range(1, 16):
        for p in (False, True):
            yield ["int", [n], [p]]
            yield ["tri", [n], [p]]
        yield ["full", [n]]
    for sh in itertools.product(range(1, 6), repeat=3):
        for pbc in itertools.product((False, True), repeat=3):
            yield ["int", list(sh), list(pbc)]
    for sh in itertools.product(range(1, 4), repeat=4):
        for pbc in ((False,) * 4, (True,) * 4, (True, False, True, False), (False, True, False, True)):
            yield ["int", list(sh), list(pbc)]
    for b in (["int", [3], [True]], ["int", [2, 3], [False, True]], ["hex", 1, 1, True], ["ofc", 3, 3, False, False],
              ["full", [2]], ["custom", [3], [[0, 1, 0], [1, 0, 1], [0, 1, 0]]], ["brick", 2, 2, False, False]):
        for nl in range(1, 9):
            yield ["layer", b, nl]


PROOF_TARGETS = []
_pt = os.path.join(os.path.dirname(os.path.dirname(os.path.abspath(__file__))), "coq", "theories", "Lattice")
for _f in ("LatBase", "LatInt", "LatMisc", "LatOfc", "LatTri", "LatBrick", "LatBrickAdj", "LatBounded"):
    if os.path.exists(os.path.join(_pt, _f + ".v")):
        PROOF_TARGETS.append("Lattice/" + _f)


def coord_candidates(ctx, d, latt, coords):
    """encoded coordinates to try coord_to_index on: every site coordinate plus the surrounding box"""
    k = d[0]
    out = []
    if coords is not None:
        try:
            out = [enc_coord(d, c) for c in coords]
        except Inexact:
            out = []
    if k in ("int", "tri", "full", "custom"):
        sh = d[1]
        b = list(box(sh))
        if len(b) > 220:
            b = ctx.rng.sample(b, 220)
        out += [list(c) for c in b]
        if len(sh) >= 1:
            out += [list(range(len(sh) - 1)), [0] * (len(sh) + 1)]     # wrong length
    elif k == "brick":
        sq = latt.shape_square
        out += [list(c) for c in box(sq)]
    elif k == "hex":
        # off-lattice positions on the exact grid around the patch
        if out:
            a_max = max(e[0] for e in out) + 2
            b_max = max(e[1] for e in out) + 2
            grid = [[a, b] for a in range(-2, a_max + 1) for b in range(-2, b_max + 1)]
            if len(grid) > 260:
                grid = ctx.rng.sample(grid, 260)
            out += grid
    elif k == "ofc":
        out += [[a, b] for a in range(-2, 2 * d[1] + 2) for b in range(-2, 2 * d[2] + 2) if (a - b) % 2 == 0]
    elif k == "layer":
        base = build(d[1])
        bco = None
        try:
            bco = [base.index_to_coord(i) for i in range(base.nsites)]
        except Exception:
            pass
        sub = coord_candidates(ctx, d[1], base, bco)
        if len(sub) > 60:
            sub = ctx.rng.sample(sub, 60)
        out += [[l] + e for l in range(-1, d[2] + 1) for e in sub]
        out.append([])
    seen, uniq = set(), []
    for e in out:
        t = tuple(e)
        if t not in seen:
            seen.add(t)
            uniq.append(list(e))
    return uniq


def edge_oracle(ctx, d, latt, coords, fail=None):
    """edge_to_odd_face_index: the reported site is the face centre adjacent to both end points,
    -1 exactly when the edge touches no odd face inside the rectangle"""
    fail = fail or ctx.fail
    s0, s1 = d[1], d[2]
    if coords is None:
        return
    cent = {}
    for i, c in enumerate(coords):
        if any(float(v) != int(v) for v in c):
            cent[(float(c[0]), float(c[1]))] = i
    for ix in range(s0):
        for iy in range(s1):
            for (jx, jy) in ((ix + 1, iy), (ix, iy + 1), (ix - 1, iy), (ix, iy - 1)):
                if not (0 <= jx < s0 and 0 <= jy < s1):
                    continue
                try:
                    r = int(latt.edge_to_odd_face_index((ix, iy), (jx, jy)))
                except Exception as e:
                    fail("OddFaceCenteredLattice:edge_to_odd_face_index-raises", {"lattice": d, "edge": [[ix, iy], [jx, jy]]}, "index or -1", repr(e))
                    return
                want = [k for f, k in cent.items()
                        if all(abs(abs(f[0] - p[0]) - 0.5) < 1e-12 and abs(abs(f[1] - p[1]) - 0.5) < 1e-12 for p in ((ix, iy), (jx, jy)))]
                exp = want[0] if want else -1
                if len(want) > 1 or r != exp:
                    fail("OddFaceCenteredLattice:edge_to_odd_face_index-wrong-face", {"lattice": d, "edge": [[ix, iy], [jx, jy]]}, exp, r)
                    return


def replay(ctx, data):
    """re-run the independent oracle on the recorded lattice"""
    inp, sig = data["input"], data["sig"]
    d = inp["lattice"]
    hit = []

    def fail(s, i, expected=None, observed=None):
        hit.append((s, i, expected, observed))

    res = oracle(ctx, d, fail=fail)
    if res is not None and d[0] == "ofc" and res[2] is not None:
        edge_oracle(ctx, d, res[0], res[2], fail=fail)
    if res is not None and int(res[0].nsites) <= 400:
        history_oracle(ctx, d, fail=fail)
    if "argument_form" in inp:
        argform_oracle(ctx, d, fail=fail)
    for s, i, e, o in hit:
        if s == sig:
            ctx.fail(sig, inp, e, o)
            return
    if hit and sig.startswith("model-vs-implementation"):
        s, i, e, o = hit[0]
        ctx.fail(sig, inp, e, o)
